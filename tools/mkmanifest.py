#!/usr/bin/env python3
"""Regenerates MANIFEST.json from the table below (kept in one place so it stays valid)."""
import json, os, sys
HERE = os.path.dirname(os.path.dirname(os.path.abspath(__file__)))

S_NOTE = ("Engine S executes the real function bodies from /repo/src on exact symbolic field numbers (sympy fraction field), "
          "z3 decides branches from the shape precondition, every feasible path is explored, identities are decided by normal form: "
          "exhaustive over all numeric values of each shape, BOUNDED in shape (degree / number of distinct interior knots) — never counted as proved. ")
COMMON_TRUST = ("Trusted: CPython, numpy object-array loops, fractions.Fraction, sympy polys.fields normal form, z3 5.1 / cvc5 1.4; "
                "floats idealised as reals (A1); distinct knots >= 1e-6 apart (A3, SEP); weight function has no zero (A8, from the property); "
                "heavy.find_roots stubbed by its contract on symbolic weights (A5).")

CLAIMED = {
 # id: (category, text, design_ref, level_note, technique)
}

def add(pid, text, ref, note, technique, category="other"):
    CLAIMED[pid] = (category, text, ref, note, technique)

exec(open(os.path.join(HERE, "tools", "claims.py")).read())

props = [json.loads(l) for l in open(os.path.join(HERE, "properties.jsonl"))]
checks, na = [], []
for p in props:
    pid = p["id"]
    if pid in CLAIMED:
        cat, text, ref, note, tech = CLAIMED[pid]
        checks.append(dict(
            property_id=pid,
            quick_cmd="./check %s --tier quick" % pid,
            thorough_cmd="./check %s --tier thorough" % pid,
            evidence_file="evidence/%s.json" % pid,
            replay_cmd_template="./check replay {path}",
            engine="vlib",
            level_claimed=dict(category=cat, text=text, design_ref=ref),
            level_note=note, technique=tech))
    else:
        na.append(dict(property_id=pid, reason=NOT_APPLICABLE.get(pid, "not claimed")))
man = dict(
    version=1,
    setup_cmd="./setup.sh",
    hooks=dict(guard="COMPMEC_NURBS_VERIF", enable="no source hooks: contracts, stubs and monitors are attached from outside at run time (env COMPMEC_NURBS_VERIF=1 is set by ./check but read by nothing in /repo)",
               baseline_off_cmd="cd /repo && /venv/bin/python -m pytest -ra -q -p no:cacheprovider --timeout=900 --continue-on-collection-errors",
               source_commits=[], add_only=True),
    engines=[
        dict(name="pyvc", path="vlib/pyvc", kind_free_text="engine V: verification-condition generator over the Python AST of the real functions, discharged by z3/cvc5 (unbounded)",
             serves_properties=ENGINE_V),
        dict(name="symx", path="vlib/symx", kind_free_text="engine S: real code executed on symbolic field numbers, exhaustive path exploration per shape (bounded in shape)",
             serves_properties=ENGINE_S),
        dict(name="frames", path="vlib/frames.py", kind_free_text="frame / write-set analysis over the package AST (unbounded, syntactic)",
             serves_properties=ENGINE_F),
    ],
    checks=checks, not_applicable=na,
    notes="Contract-based deductive verification; see DESIGN.md. Exit 0 held / 1 VIOLATION / 3 checker error.")
json.dump(man, open(os.path.join(HERE, "MANIFEST.json"), "w"), indent=1)
print("claimed:", sorted(CLAIMED), "not_applicable:", [x["property_id"] for x in na])
