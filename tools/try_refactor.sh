#!/bin/bash
# tools/try_refactor.sh <patch.diff> <PROP> [PROP...]   a behaviour-preserving edit must give exit 0 everywhere
PATCH=$(readlink -f "$1"); shift
WT=/tmp/rf_$$
git -C /repo worktree add -q "$WT" HEAD || exit 2
trap 'git -C /repo worktree remove --force "$WT" 2>/dev/null' EXIT
git -C "$WT" apply "$PATCH" || { echo "patch does not apply"; exit 2; }
for P in "$@"; do
  VERIF_REPO=$WT VERIF_EVIDENCE_DIR=/tmp/rf_ev_$$ timeout 3000 /verif/check "$P" --tier quick > /tmp/rf_out_$$ 2>&1; rc=$?
  echo "== $P exit=$rc $(tail -1 /tmp/rf_out_$$ | cut -c1-150)"
  grep '^VIOLATION\|^NOTE\|CHECKER-ERROR\|^UNDEC\|^UNPROVED' /tmp/rf_out_$$ | head -4 | cut -c1-300
done
rm -f /tmp/rf_out_$$
