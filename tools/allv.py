import sys
from vlib.pyvc.driver import verify
from vlib.contracts import curvesv, kv, misc, facade, gens, kvnew, facade2, kvor, funceval, kvquery
bad=0; n=0
for mod in (kv, misc, facade, gens, kvnew, curvesv, facade2, kvor, funceval, kvquery):
    for c, m, q, v in mod.ALL:
        for o in verify(c, m, q, v):
            if "_notapplicable" in o or "_prooflost" in o: print(c.name, o); bad+=1; continue
            if "_stats" in o: continue
            n+=1
            if o["status"]!="proved": print(c.name, o["status"], o["id"], o["detail"][:200]); bad+=1
print("obligations", n, "bad", bad)
