#!/usr/bin/env python3
"""Regenerates the two result tables of DESIGN.md section 9 (between the BEGIN/END markers) from evidence/*.json and seeded/*/meta.json
(+ notes/seeded_results.txt for the obligation that caught a change)."""
import glob, json, os, re
HERE = os.path.dirname(os.path.dirname(os.path.abspath(__file__)))
os.chdir(HERE)


def table91():
    rows = ["| id | obligations | unbounded (V/F) discharged | bounded discharged | per engine (discharged/total) | known findings printed | quick wall |", "|---|---|---|---|---|---|---|"]
    for f in sorted(glob.glob("evidence/C*.json")):
        e = json.load(open(f))
        c = e["coverage"]
        eng = ", ".join("%s %d/%d" % (k, v["discharged"], v["obligations"]) for k, v in sorted(c.get("by_engine", {}).items()))
        kf = ", ".join(sorted({x.get("id", "?") if isinstance(x, dict) else str(x) for x in c.get("known_findings", [])})) or "–"
        rows.append("| %s | %d | %d/%d | %d/%d | %s | %s | %d s |" % (
            e["property_id"], c["obligations"], c["unbounded_discharged"], c["unbounded_obligations"], c["bounded_discharged"], c["bounded_obligations"],
            eng, kf, round(e.get("wall_s", 0))))
    return "\n".join(rows)


def table92():
    res = {}
    if os.path.exists("notes/seeded_results.txt"):
        for line in open("notes/seeded_results.txt"):
            p = line.split()
            if len(p) >= 3:
                res[p[0]] = line.strip()
    rows = ["| seeded change | what it changes | needs, to manifest | caught by | missed at first |", "|---|---|---|---|---|"]
    n = missed = 0
    for d in sorted(glob.glob("seeded/C*/")):
        m = json.load(open(d + "meta.json"))
        sid = m["id"]
        caught = m.get("caught_by") or ""
        if not caught and sid in res:
            mm = re.search(r"exit=1 violations=\d+ (.*)$", res[sid])
            caught = "%s: %s" % (m["property"], mm.group(1).replace(" no-failing-input-found", "")) if mm else res[sid]
        first = m.get("missed_at_first")
        if first is None:
            first = "added after" in caught
        n += 1
        missed += bool(first)
        rows.append("| %s | %s | %s | %s | %s |" % (sid, m["change"], m["needs_to_manifest"], caught, "yes" if first else ""))
    return "\n".join(rows), n, missed


def splice(text, name, body):
    b, e = "<!-- BEGIN %s -->" % name, "<!-- END %s -->" % name
    i, j = text.index(b) + len(b), text.index(e)
    return text[:i] + "\n" + body + "\n" + text[j:]


s = open("DESIGN.md").read()
s = splice(s, "TABLE-9.1", table91())
t, n, missed = table92()
s = splice(s, "TABLE-9.2", t)
open("DESIGN.md", "w").write(s)
print("seeded changes:", n, "missed at first:", missed)
