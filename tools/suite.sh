#!/bin/bash
# runs the repository's baseline suite (guard off) and prints the counts; expected: 300 passed, 1 failed (test_clstype, baseline always-fail)
cd "${1:-/repo}" && env -u COMPMEC_NURBS_VERIF /venv/bin/python -m pytest -q -p no:cacheprovider --timeout=900 --continue-on-collection-errors 2>&1 | tail -2
