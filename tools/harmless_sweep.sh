#!/bin/bash
# Every stored behaviour-preserving refactoring against the checks of the functions it touches (meta.json "checks"): expected exit 0 everywhere.
# Appends "<id> <PROP> exit=<rc> (must be 0)" lines to notes/seeded_results.txt.
cd "$(dirname "$0")/.."
for d in seeded/harmless-*/; do
  id=$(basename $d); props=$(python3 -c "import json;print(' '.join(json.load(open('$d/meta.json'))['checks']))")
  git -C /repo worktree prune
  tools/try_refactor.sh $d/patch.diff $props 2>&1 | grep "^== " | awk -v id=$id '{print id" "$2" "$3" (must be 0)"}'
done
