# executed by mkmanifest.py: add(pid, text, design_ref, level_note, technique)
ENGINE_V = []
ENGINE_S = ["C01"]
ENGINE_F = []
NOT_BUILT = "check not built yet in this session (work in progress; see DESIGN.md section 5 for the plan)"
NOT_APPLICABLE = {p: NOT_BUILT for p in ["C%02d" % i for i in range(1, 21)]}
NOT_APPLICABLE["C19"] = ("float-only Newton iteration through np.linalg / np.linspace with an unbounded while-True loop; convergence, global optimality and "
                         "'to rounding' clauses are not pre/postconditions any contract within reach can express or decide (DESIGN.md section 7)")
NOT_APPLICABLE["C20"] = ("float-only 2-D Newton iteration on a grid of starts through np.linalg; completeness of the returned intersections and 'to rounding' "
                         "accuracy are not decidable by contracts on this code (DESIGN.md section 7)")

add("C01",
    "Contracts (post: table == Cox-de Boor Taylor coefficients; matrix == N_i,p(node); value == sum R_i P_i; ValueError outside; exactness) on "
    "speval_matrix, eval_spline_nodes, eval_rational_nodes, Curve.eval, discharged for every shape up to the bound for ALL knot values, parameters, "
    "control points and positive weights at once. " + S_NOTE,
    "DESIGN.md 5/C01", COMMON_TRUST,
    "contracts on the real functions; real code run on symbolic field elements, path-exhaustive per shape, identities by normal form (bounded in shape)")
