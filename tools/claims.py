# executed by mkmanifest.py: add(pid, text, design_ref, level_note, technique)
ENGINE_V = []
ENGINE_S = ["C01"]
ENGINE_F = []
NOT_BUILT = "check not built yet in this session (work in progress; see DESIGN.md section 5 for the plan)"
NOT_APPLICABLE = {p: NOT_BUILT for p in ["C%02d" % i for i in range(1, 21)]}
NOT_APPLICABLE["C19"] = ("float-only Newton iteration through np.linalg / np.linspace with an unbounded while-True loop; convergence, global optimality and "
                         "'to rounding' clauses are not pre/postconditions any contract within reach can express or decide (DESIGN.md section 7)")
NOT_APPLICABLE["C20"] = ("float-only 2-D Newton iteration on a grid of starts through np.linalg; completeness of the returned intersections and 'to rounding' "
                         "accuracy are not decidable by contracts on this code (DESIGN.md section 7)")

add("C01",
    "Contracts (post: table == Cox-de Boor Taylor coefficients; matrix == N_i,p(node); value == sum R_i P_i; ValueError outside; exactness) on "
    "speval_matrix, eval_spline_nodes, eval_rational_nodes, Curve.eval, discharged for every shape up to the bound for ALL knot values, parameters, "
    "control points and positive weights at once. " + S_NOTE,
    "DESIGN.md 5/C01", COMMON_TRUST,
    "contracts on the real functions; real code run on symbolic field elements, path-exhaustive per shape, identities by normal form (bounded in shape)")

add("C02",
    "Contracts on Function(U)[i, j](u): value == N_i,j(u) (w_i N_i,j / sum w_k N_k,j with weights) for every j <= p, index forms (int, negative, slice, "
    "default) select rows of the same table; index validation (__valid_first_index / __valid_second_index) proved for all npts/degree by engine V; "
    "non-negativity / support / partition of unity proved on the spec per shape. " + S_NOTE,
    "DESIGN.md 5/C02", COMMON_TRUST,
    "contracts on the real functions; engine V (AST->VC->z3) for index validation, real code on symbolic field elements per shape for the values (bounded in shape)")
add("C04",
    "Contracts on heavy.Operations.knot_insert (refinement identity sum_j Nnew_j T[j][i] == Nold_i on every new span) and Curve.knot_insert "
    "(knot vector == sorted multiset union; C_new(u) == C_old(u) as (rational) functions; ValueError + unchanged state for overflow / outside / end nodes) "
    "for all knot values, node values in a span (0 included), control points and positive weights. " + S_NOTE,
    "DESIGN.md 5/C04", COMMON_TRUST,
    "contracts on the real functions; real code on symbolic field elements, path-exhaustive per shape and node class (bounded in shape)")
add("C17",
    "Contract on ImmutableKnotVector.__or__/__and__ and the KnotVector facades: result == closed-form multiplicity merge (degree max(p,q), lower continuity "
    "order per knot; per-knot minimum for equal degrees), commutative, idempotent, operands untouched, different intervals -> ValueError, for every joint "
    "shape up to the bound and all knot values. " + S_NOTE,
    "DESIGN.md 5/C17", COMMON_TRUST,
    "contracts on the real functions; real code on symbolic knot values per joint shape (bounded in shape)")
ENGINE_S += ["C02", "C04", "C17"]
ENGINE_V += ["C01", "C02"]

add("C05",
    "Contracts on Curve.knot_remove / BaseCurve.update / Curve.fit_curve / LeastSquare.func2func: success => knot vector == old minus nodes and "
    "2*max(1,L)*E - R positive semidefinite (E the code's error form, R the exact spec residual form: decides 'error <= tol => integral (C-D)^2 <= 2 tol max(1,L)' "
    "for ALL control points and tolerances); exactly removable => only the success path is feasible and the coarse curve returns; refusal => state unchanged; "
    "tolerance=None => interpolation at remaining knots; tolerance=0 => exact or refused. Concrete rational knot vectors, symbolic control points. "
    "Rational curves: known finding D9. " + S_NOTE,
    "DESIGN.md 5/C05", COMMON_TRUST + " Linalg.invert is run-time monitored (inverse @ A == I), not proved (A4).",
    "contracts on the real functions; real code on symbolic control points over concrete knot vectors, fork on 'error > tolerance', exact LDL^T for the quadratic-form inequality (bounded in shape)")
add("C07",
    "Contract on Curve.split / Operations.split_curve / ImmutableKnotVector.split: piece count, clamped piece knot vectors, piece(u) == C(u) on every span "
    "(polynomial and rational, symbolic knots / cuts / points / weights), operand unchanged; cut classes: open spans, knots, ends, repeated, unsorted, split(). "
    "Join (A | B): see evidence (S-con). " + S_NOTE,
    "DESIGN.md 5/C07", COMMON_TRUST,
    "contracts on the real functions; real code on symbolic field elements per shape and cut class (bounded in shape)")
add("C11",
    "Contract on Curve.fit_curve / LeastSquare.spline2spline / func2func: the linear map P -> D is extracted exactly and checked against exact spec Gram matrices: "
    "Gtt T == Gts (residual orthogonal to every target basis function), returned error == (1 or 1/2) x integral of squared residual as quadratic forms, PSD, "
    "reproduction under containment, interpolation + constrained orthogonality with nodes; for all source control points at once. " + S_NOTE,
    "DESIGN.md 5/C11", COMMON_TRUST + " Linalg.invert is run-time monitored (A4).",
    "contracts on the real functions; real code on symbolic control points over concrete knot-vector pairs, exact rational matrix identities against formally integrated Cox-de Boor pieces (bounded in shape)")
ENGINE_S += ["C05", "C07", "C11"]

add("C06",
    "Contracts on Curve.degree_increase / degree setter / degree_decrease and the heavy elevation matrices: multiplicities and degree + t, C_new == C_old on "
    "every span (symbolic points and weights), exactness; reduction of elevated input returns the original points; generic input refused (unchanged) or accepted "
    "within tolerance (exact LDL^T); tolerance=None interpolates; Bezier elevation also with symbolic interval ends. " + S_NOTE,
    "DESIGN.md 5/C06", COMMON_TRUST + " Linalg.invert is run-time monitored (A4).",
    "contracts on the real functions; real code on symbolic control points / weights over concrete knot vectors (bounded in shape)")
add("C13",
    "Contract on BaseCurve.__eq__/__ne__: on every explored path the verdict is implied (z3, linear arithmetic over symbolic control points of both operands) to "
    "equal 'max_i |A'_i - B'_i| <= 1e-9' on the spec-refined control points over the spec union vector; refined / elevated copies equal in both orders, "
    "perturbed copies unequal, != is the negation, non-curves False, operands unmodified. " + S_NOTE,
    "DESIGN.md 5/C13", COMMON_TRUST + " Linalg.invert is run-time monitored (A4).",
    "contracts on the real functions; real code on symbolic control points over concrete knot-vector pairs, path-exhaustive, verdict-vs-spec implication by z3 linear arithmetic (bounded in shape)")
ENGINE_S += ["C06", "C13"]

add("C08",
    "Contracts on the BaseCurve operator overloads and heavy.MathOperations: (A op B)(u) == A(u) op B(u) as an identity of rational functions in the symbolic "
    "control points and weights of both operands and u on every common span (+, -, *, /, @ on 2-D points, unary -, scalar and matrix operands on either side); "
    "operands unmodified; different intervals -> ValueError. " + S_NOTE,
    "DESIGN.md 5/C08", COMMON_TRUST + " Linalg.lstsq/solve/invert are run-time monitored (A4).",
    "contracts on the real functions; real code on symbolic control points / weights over concrete knot-vector pairs, identities by normal form (bounded in shape)")
ENGINE_S += ["C08"]

add("C03",
    "Engine V proves, for ALL knot vectors of all lengths, the binary span search (index safety, termination, U[k] <= u < U[k+1] / umax case), valid(), limits, "
    "degree, npts. Acceptance <=> well-formedness of the constructor is decided exhaustively over all vectors up to a length bound over a 4-value alphabet "
    "(bounded, engine B); queries and every KnotVector mutator (valid and invalid requests) with symbolic knot values per shape: result as specified and "
    "well-formed, or exception with the immutable payload object untouched; all operation sequences up to a depth bound (bounded). " + S_NOTE,
    "DESIGN.md 5/C03", COMMON_TRUST + " (KnotVector('0011') -> TypeError, D4, was repaired.)",
    "contracts on the real functions; engine V (AST->VC->z3) for the query functions, exhaustive small-domain enumeration and symbolic per-shape execution for construction and mutators (bounded)")
add("C09",
    "Contract on calculus.Derivate.*: D lives on C's interval and D(u) equals the formal derivative of the Cox-de Boor spec on every open span for all control "
    "points and weights (coefficient-wise within 1e-9: the difference matrix is a float64 array, A1); degree 0 -> zero curve; C unmodified; "
    "Calculus.difference_vector closed form proved for all knot vectors by engine V. " + S_NOTE,
    "DESIGN.md 5/C09", COMMON_TRUST,
    "contracts on the real functions; engine V for the difference vector, real code on symbolic control points / weights over concrete knot vectors against the formally differentiated spec (bounded in shape)")
ENGINE_S += ["C03", "C09"]
ENGINE_V += ["C03", "C09"]

add("C10",
    "closed/open linspace closed forms (length, values i/(n-1) resp. (2i+1)/(2n), inside [0,1], increasing) proved for ALL n by engine V; the six memo tables are "
    "proved by frame analysis over the AST to be written only by their getter at key npts, so the rule for n depends on n alone for every call order; exactness "
    "to order / weights sum / node order are exact arithmetic per n up to a bound (bounded in n, not a proof over n); Integrate.scalar and Integrate.function "
    "with symbolic control points / integrand coefficients on concrete knot vectors equal the closed form exactly; Integrate.lenght on concrete polylines. " + S_NOTE,
    "DESIGN.md 5/C10", COMMON_TRUST + " (Closed Newton-Cotes on discontinuous curves, D12, was repaired.)",
    "contracts on the real functions; engine V (AST->VC->z3) for the node generators, AST frame analysis for the memo tables, exact per-n arithmetic and symbolic-control-point execution for the rest (bounded)")
add("C12",
    "Contract on Curve.fit_points / fit_function / LeastSquare.fit_function / Linalg.lstsq: the linear map data -> control points is extracted exactly and checked "
    "against the spec collocation matrix B for ALL data vectors: B^T(B M - I) == 0, M B == I, B M == I when len(points) == npts; fewer points rejected; "
    "fit_function reproduces a symbolic element of the curve's own (polynomial or rational) space. " + S_NOTE,
    "DESIGN.md 5/C12", COMMON_TRUST + " Linalg.* run-time monitored (A4).",
    "contracts on the real functions; real code on symbolic data vectors over concrete knot vectors and node sets, exact rational matrix identities (bounded in shape)")
ENGINE_S += ["C10", "C12"]
ENGINE_V += ["C10"]
ENGINE_F += ["C10"]

add("C14",
    "Contract on Curve.clean / knot_clean / degree_clean: for a minimal curve with symbolic generic control points Q (precondition A9: generic with margin) refined "
    "by a history of knot insertions and degree elevations (spec matrices), every call order returns exactly (U_Q, Q) and a second clean() changes nothing; "
    "function preservation for arbitrary points is carried by the success-path bounds of C05/C06. " + S_NOTE,
    "DESIGN.md 5/C14", COMMON_TRUST + " Linalg.* run-time monitored (A4); A9 fixes the refusal branch for non-zero error forms.",
    "contracts on the real functions; real code on symbolic control points over concrete knot vectors, branch fixed by the stated genericity precondition (bounded in shape and history)")
ENGINE_S += ["C14"]

add("C18",
    "Generator closed forms (clamped, requested degree / npts / number class, equal spacing, interval exactly [0,1], every adversarial randint draw) enumerated "
    "up to a bound (bounded, engine B); shift / scale / normalize with symbolic knot values: affine image of every knot, degree / npts / multiplicities kept, "
    "normalize onto exactly [0,1]; invariance N_i(sU+a, su+a) == N_i(U,u) and of curves by running the real evaluation code on both symbolic vectors; float clause "
    "'umax == 1.0 exactly' on doubles with d*(1/d) != 1 (concrete IEEE). " + S_NOTE,
    "DESIGN.md 5/C18", COMMON_TRUST,
    "contracts on the real functions; exhaustive enumeration up to a bound for the generators, real code on symbolic knots for the affine maps and the invariance (bounded)")
ENGINE_S += ["C18"]

add("C15",
    "Frame analysis over the package AST (unbounded, all histories): the three private curve fields are assigned only by __init__, update and the two setters; no back "
    "door; update() rebinds after the error test; no in-place KnotVector mutator is applied to a .knotvector attribute in curve-level code and the KnotVector "
    "operators work on deep copies, so curves sharing a KnotVector object cannot affect each other. Dynamic part (bounded): all sequences of public operations up to "
    "a depth bound from four start curves - consistency, atomicity of raising operations, operand integrity, partner curve unaffected. The symbolic runs of C04-C14 "
    "check consistency and unchanged operands on every explored path.",
    "DESIGN.md 5/C15", "Trusted: CPython; the frame analysis is syntactic (aliasing through local names is followed only for the patterns present in the code). "
    "Rational update path: known finding D9.",
    "frame / write-set analysis over the AST of the real package (unbounded) + exhaustive bounded histories on the real code")
add("C16",
    "Exactness ('no float is introduced, value equals the exact result') is an obligation of every symbolic run of C01-C14 (result untainted, normal-form equal to "
    "the spec) for all numeric values per shape; this check adds concrete runs (bounded): every listed operation on Fraction data incl. scaled integers in "
    "[2^63, 2^64) returns only int/Fraction after the same operation ran on floats in the same process; float runs agree to 1e-9 relative; a minimal point type "
    "(point+point, scalar*point) suffices for evaluation, insertion, elevation, splitting; Linalg.invert exact for large integers. Float agreement beyond the samples is not decided (A1).",
    "DESIGN.md 5/C16", COMMON_TRUST,
    "exactness-taint postconditions on the symbolic runs (bounded in shape) + concrete representation-pair runs of the real code (bounded)")
ENGINE_F += ["C15"]
ENGINE_S += ["C15", "C16"]

# ---- revised after the engine-V extension (these override the entries above) ----
add("C03",
    "Engine V proves for vectors of EVERY length: the constructor accepts exactly the well-formed clamped vectors (__is_valid in both degree modes, __new__: "
    "index safety, termination, 'accepted <=> non-decreasing, ends repeated exactly degree+1 times, interior multiplicities <= degree+1, npts > degree', degree / npts "
    "fields consistent), the binary span search (U[k] <= u < U[k+1] / umax case), valid, limits, degree, npts, ImmutableKnotVector.__add__/__sub__, and for every "
    "KnotVector mutator (insert, remove, shift, scale, normalize, +=, -=, *=, |=, &=, degree=, internal=) that a raising request leaves the payload object in place "
    "and a successful one installs a well-formed payload (atomicity for all inputs); frame analysis shows instances are immutable and only built through __new__, "
    "which lifts well-formedness to every KnotVector reachable through any operation history. The same facts are also decided exhaustively over all vectors up to a "
    "length bound over a 4-value alphabet (engine B), queries and mutators with symbolic knot values per shape (engine S), and all operation sequences up to a depth bound. " + S_NOTE,
    "DESIGN.md 5/C03", COMMON_TRUST + " Assumed inside the V proofs (A10): tuple.count on a sorted tuple is one contiguous block; __get_unique returns the increasing "
    "distinct values under A3. Knots closer than 1e-6: known finding D3 (D4, the digit-string TypeError, was repaired).",
    "contracts on the real functions discharged by a VC generator over the Python AST + z3 (unbounded), frame analysis, plus exhaustive small-domain enumeration and symbolic per-shape execution (bounded)")
add("C04",
    "Engine V proves that Operations.one_knot_insert_once returns exactly Boehm's closed-form matrix (identity rows, alpha / 1-alpha band, shift rows) with index "
    "safety, no division by zero and termination, for EVERY knot vector, interior node and admissible multiplicity, and that ImmutableKnotVector.__add__ validates the "
    "interval and returns the constructor's result on the sorted concatenation. That the composed matrices preserve the function (refinement identity on every new "
    "span), that Curve.knot_insert yields the sorted multiset union and the same (rational) function, and that overflow / outside / end nodes raise ValueError with "
    "unchanged state, is checked for all knot values, node values in a span (0 included), control points and positive weights per shape. " + S_NOTE,
    "DESIGN.md 5/C04", COMMON_TRUST + " A10 for the assumed contracts of span()/mult() inside the V proof.",
    "contracts on the real functions: VC generator over the Python AST + z3 for the single-insertion matrix (unbounded); real code on symbolic field elements, path-exhaustive per shape and node class (bounded in shape)")
add("C06",
    "Engine V proves degree_increase_bezier_once == the closed-form Bezier elevation matrix for ALL degrees. Curve.degree_increase / degree setter / degree_decrease and "
    "the composed heavy elevation matrices: multiplicities and degree + t, C_new == C_old on every span (symbolic points and weights), exactness; reduction of elevated "
    "input returns the original points; generic input refused (unchanged) or accepted within tolerance (exact LDL^T); tolerance=None interpolates; Bezier elevation "
    "also with symbolic interval ends. " + S_NOTE,
    "DESIGN.md 5/C06", COMMON_TRUST + " Linalg.invert is run-time monitored (A4).",
    "contracts on the real functions: VC generator + z3 for the single Bezier elevation matrix (unbounded); real code on symbolic control points / weights over concrete knot vectors (bounded in shape)")
add("C18",
    "Engine V proves, for ALL degrees, npts, positive weight vectors and EVERY draw of randint: bezier / integer / weight / uniform / random return clamped vectors "
    "with the requested degree and npts, the closed-form knots (equal spacing, spacing w, interval exactly [0,1], simple interior knots), and for ALL vectors that shift / "
    "scale / normalize map every knot affinely, keep degree / npts / length, land on exactly [0,1] and never leave the object changed after an exception (reals; the IEEE "
    "clause is a concrete check on doubles with d*(1/d) != 1). Invariance N_i(sU+a, su+a) == N_i(U,u) and of curves by running the real evaluation code on both symbolic "
    "vectors per shape; generator closed forms additionally enumerated up to a bound. " + S_NOTE,
    "DESIGN.md 5/C18", COMMON_TRUST + " cls(x) is modelled as the numeric embedding of x (A2); the constructor is used by its proved contract (A10).",
    "contracts on the real functions: VC generator over the Python AST + z3 for generators and affine maps (unbounded, incl. a nonlinear monotonicity lemma); real code on symbolic knots for the invariance (bounded)")
ENGINE_V += ["C04", "C06", "C18"]
add("C15",
    "Engine V puts every function that writes a curve's private fields, and every public mutator built on them, under a contract for ALL curves and arguments "
    "(a knot vector seen through npts / degree / number of distinct knots): ctrlpoints / weights / knotvector / degree setters, BaseCurve.update, BaseCurve.apply, "
    "Curve.knot_insert, knot_remove, degree_increase, degree_decrease, each for control points present / absent x weights present / absent. Proved: "
    "ensures INV (len(ctrlpoints) == npts == len(knotvector) - degree - 1, len(weights) == npts when present), the expected npts / degree change, and on EVERY "
    "exceptional exit (ValueError, AssertionError, ZeroDivisionError) the three fields are unchanged; callers are checked against callee contracts (e.g. "
    "rows(matrix) == npts(newknotvector) at each call of apply, 'the sum has the same degree' before Operations.knot_insert). This is the invariant argument for all "
    "histories of these operations. Frame analysis over the package AST (unbounded): the fields are written only by __init__, update, the setters and the rollback of apply (which puts back the state it saved: proved by its contract), no back door, "
    "no in-place KnotVector mutator on a .knotvector attribute, operators on deep copies. Bounded part: all sequences of public operations up to a depth bound from "
    "eight start curves (polynomial, rational, zero control weight, weights only, empty, redundant knots) - consistency, atomicity, operand integrity, partner curve "
    "built from the same KnotVector object. Writing these contracts exposed D26-D29 (fixed).",
    "DESIGN.md 5/C15", "Trusted: CPython. Assumed callee contracts at shape level (A11): matrix shapes of the heavy kernels (checked per shape by engine S in C04/C06), "
    "KnotVector +/- nodes, fit_curve fills a fresh curve, find_roots refuses a wrong-length list (checked by engine B), the refitted weight function has no zero. "
    "Aliasing between curves is decided by the frame analysis and the bounded histories, not by engine V. Rational update path: known finding D9.",
    "contracts (representation invariant + atomic refusal) on the real mutators discharged by a VC generator over the Python AST + z3 (unbounded); frame / write-set "
    "analysis (unbounded); exhaustive bounded histories on the real code")
ENGINE_V += ["C15", "C01"]


def extend(pid, extra):
    cat, text, ref, note, tech = CLAIMED[pid]
    CLAIMED[pid] = (cat, text + " " + extra, ref, note, tech)


SHAPE_V = ("Engine V additionally proves at shape level, for ALL curves and arguments (knot vector seen through npts / degree, callee matrices by their shape "
           "contracts, A11): %s - the expected npts / degree, the representation invariant, every refusal atomic, and each caller meeting its callee's precondition.")
extend("C04", SHAPE_V % "Curve.knot_insert and BaseCurve.apply")
extend("C05", SHAPE_V % "Curve.knot_remove and BaseCurve.update")
extend("C06", SHAPE_V % "Curve.degree_increase, degree_decrease, the degree setter and BaseCurve.apply")
extend("C01", "Engine V proves Curve.eval's dispatch for ALL inputs: a scalar argument yields exactly the value at that parameter, a sequence of ANY length yields one "
              "value per node in order (callee __eval by contract), plus the span search, valid() and Horner evaluation.")
ENGINE_V += ["C05"]
extend("C12", SHAPE_V % "Curve.fit_points (nodes given / default)")
ENGINE_V += ["C12"]
FACADE2 = ("Engine V also proves, for ALL vectors and arguments, that %s return a NEW KnotVector object with a new payload and leave the operand's payload object in "
           "place (deepcopy by its own proved contract, the in-place operators by theirs).")
extend("C17", FACADE2 % "`U | V` and `U & V`" + " and that `|=` / `&=` install their result atomically; the VALUES of the merge are decided per joint shape (engine S).")
extend("C18", FACADE2 % "`U + a`, `U - a`, `U * s`, `s * U`, `U / s`" + " with every knot mapped affinely.")
extend("C03", FACADE2 % "copy, deepcopy and every non-in-place operator (+, -, *, /, |, &)")
ENGINE_V += ["C17"]
extend("C17", "The MULTIPLICITY RULE is proved by engine V for vectors of every length and degree: at the point where ImmutableKnotVector.__or__ / __and__ assemble "
              "their result, every distinct knot x carries max(mult_U(x) + P - p, mult_V(x) + P - q) (0 for a vector that does not contain x; lower continuity order wins) "
              "resp. min(mult_U(x), mult_V(x)) over the common knots (loop invariants over both operand scans, ghost witness / position functions, assumed contracts of "
              ".knots, mult() and __get_unique: A10). The assembly of the vector from (knot, multiplicity) pairs, the sort and the constructor call are checked per joint shape by engine S.")
extend("C02", "Engine V also proves FunctionEvaluator.eval's selection for ALL parameters: an int first index (negative included) with a scalar gives exactly that row's value, "
              "with a sequence one value per node in order, a unit-step slice (any start / stop, open ends) the corresponding rows of the SAME table in order (`__eval` by contract).")
ENGINE_V += ["C02"]
extend("C03", "The public queries valid / span / mult are proved on a scalar and on a sequence of ANY length (valid <=> every node in [umin, umax]; span / mult element-wise in order, "
              "ValueError exactly when some node is outside), the recursion through map() resolved by the scalar contract of the same function.")
extend("C09", "Engine V also proves the Bezier derivative matrix in closed form for EVERY degree (row i: -p/L at column i, p/L at column i+1).")
extend("C10", "Engine V also proves Math.factorial(n) == n! (loop invariant over the ghost recursion, nonlinear) and Math.comb(u, l) == u! // (l! (u-l)!) in exact integer "
              "arithmetic for every argument - the integers the Newton-Cotes weights are built from.")
extend("C13", "Engine V proves the norm under the tolerance test for all inputs: abs of a number, and for a sequence of ANY length an upper bound of every |x_k| that is attained "
              "(the infinity norm); the verdict logic around it is decided per operand pair by engine S.")
ENGINE_V += ["C13", "C09", "C10"]
extend("C14", "Engine V proves at shape level, for ALL curves and tolerances: knot_clean / degree_clean / clean TERMINATE (loop variants npts + degree resp. degree through "
              "the proved contracts of knot_remove / degree_decrease), keep the representation invariant, never enlarge the curve, and raise only AssertionError for a "
              "negative tolerance, with the curve unchanged.")
ENGINE_V += ["C14"]
extend("C08", "Engine V proves, for curves with ANY number of control points, that copy and the operators with a scalar operand (-A, A + s, s + A, A - s, s - A, A * s, s * A, A / s) "
              "return a NEW curve on a new knot-vector object with control points -P_i, s + P_i, ... , P_i / s element-wise (ZeroDivisionError exactly for s == 0), the same "
              "weights, and leave the operand unchanged; that such control points give the pointwise result is the partition of unity, decided per shape by engine S.")
ENGINE_V += ["C08"]
CONF = ("Modularity is checked, not assumed: every call-site contract a caller of %s is verified against is discharged against the contract PROVED for the callee "
        "(pyvc/conform.py: the handler raises the callee's preconditions, lets every exception of the callee's contract happen and assumes about the post-state only what "
        "the callee's ensures imply), and the callee contracts are verified in the same check (transitive closure).")
for _pid, _what in (("C04", "knot_insert / apply"), ("C05", "knot_remove / update"), ("C06", "degree_increase / degree_decrease / the degree setter"),
                    ("C12", "fit_points"), ("C14", "clean / knot_clean / degree_clean"), ("C15", "every public mutator of Curve")):
    extend(_pid, CONF % _what)
extend("C15", "The public BaseCurve.apply has NO precondition: engine V proves that a matrix of the wrong shape gives ValueError with the curve unchanged (D34 was hidden by such a precondition).")
extend("C08", "Bounded, concrete: a vector-valued curve times / divided by a scalar-valued curve in both operand orders, polynomial and rational (D32).")
extend("C09", "Bounded, concrete: curves with 3-D (numpy) control points, polynomial and rational, in every coordinate.")
extend("C11", "Bounded, concrete: vector-valued points WITH interpolation nodes - the returned error is the worst coordinate's squared-residual integral (D33).")
extend("C07", "The empty cut set and the ends-only cut set (split([]) is the curve itself) are cut classes of their own.")
