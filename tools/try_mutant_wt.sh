#!/bin/bash
# tools/try_mutant_wt.sh <patch.diff> <demo.py|-> <PROP> [PROP...]
# Like try_mutant.sh, but the checks run against the scratch worktree (VERIF_REPO) so /repo is never touched: usable in parallel.
set -u
PATCH=$(readlink -f "$1"); DEMO="$2"; shift 2
WT=/tmp/mw_$$
git -C /repo worktree add -q "$WT" HEAD || exit 2
trap 'git -C /repo worktree remove --force "$WT" 2>/dev/null; rm -f /tmp/mw_out_$$ /tmp/mw_demo_$$' EXIT
if [ "$DEMO" != "-" ]; then
  DEMO=$(readlink -f "$DEMO")
  (cd "$WT" && PYTHONPATH="$WT/src" timeout 300 /venv/bin/python "$DEMO" >/dev/null 2>&1); echo "demo without change: exit $?"
fi
git -C "$WT" apply "$PATCH" || { echo "patch does not apply"; exit 2; }
if [ "$DEMO" != "-" ]; then
  (cd "$WT" && PYTHONPATH="$WT/src" timeout 300 /venv/bin/python "$DEMO" > /tmp/mw_demo_$$ 2>&1); rc=$?; tail -2 /tmp/mw_demo_$$ | cut -c1-200; echo "demo with change: exit $rc"
fi
(cd "$WT" && PYTHONPATH="$WT/src" /venv/bin/python -m pytest -q -p no:cacheprovider --timeout=900 2>&1 | tail -1)
for P in "$@"; do
  VERIF_REPO=$WT VERIF_EVIDENCE_DIR=/tmp/mw_ev_$$ timeout 3000 /verif/check "$P" --tier quick > /tmp/mw_out_$$ 2>&1; rc=$?
  echo "== $P exit=$rc  $(grep -c '^VIOLATION' /tmp/mw_out_$$) VIOLATION lines; $(tail -1 /tmp/mw_out_$$)"
  grep '^VIOLATION' /tmp/mw_out_$$ | head -3 | cut -c1-260
  grep 'CHECKER-ERROR\|^UNPROVED\|^NOTE' /tmp/mw_out_$$ | head -3 | cut -c1-300
done
