#!/bin/bash
# Regression over all seeded changes: each is applied to a scratch worktree of /repo (never to /repo itself here) and the check of its
# property is run against that tree (VERIF_REPO).  Writes notes/seeded_results.txt.  Expected: exit 1 for every seeded property-breaking
# change, exit 0 for every harmless-* refactoring.   usage: tools/seeded_sweep.sh [parallel jobs, default 3] [id prefix filter]
cd "$(dirname "$0")/.."
OUT=notes/seeded_results.txt
J=${1:-3}; FILTER=${2:-}
one() {
  d=$1; id=$(basename $d); prop=$(python3 -c "import json;print(json.load(open('$d/meta.json'))['property'])")
  WT=/tmp/sw_$id
  git -C /repo worktree add -q $WT HEAD 2>/dev/null || { echo "$id worktree failed"; return; }
  if git -C $WT apply $(readlink -f $d/patch.diff) 2>/dev/null; then
    VERIF_REPO=$WT VERIF_EVIDENCE_DIR=/tmp/sw_ev_$id timeout 3000 ./check $prop --tier quick > /tmp/sw_$id.out 2>&1; rc=$?
    echo "$id $prop exit=$rc violations=$(grep -c '^VIOLATION' /tmp/sw_$id.out) $(grep -m1 '^VIOLATION' /tmp/sw_$id.out | sed 's/.*obligation=//' | cut -c1-130)"
  else
    echo "$id $prop patch-does-not-apply"
  fi
  git -C /repo worktree remove --force $WT; rm -rf /tmp/sw_$id.out /tmp/sw_ev_$id
}
export -f one
ls -d seeded/${FILTER}*/ | xargs -P $J -I{} bash -c 'one {}' > $OUT.tmp
sort $OUT.tmp > $OUT; rm -f $OUT.tmp; echo done >> $OUT
