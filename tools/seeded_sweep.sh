#!/bin/bash
# Regression over all seeded changes: each is applied to a scratch worktree of /repo (never to /repo itself here) and the check of its
# property is run against that tree (VERIF_REPO).  Writes notes/seeded_results.txt.  Expected: exit 1 for every seeded change.
cd "$(dirname "$0")/.."
OUT=notes/seeded_results.txt
: > $OUT
for d in seeded/*/; do
  id=$(basename $d); prop=$(python3 -c "import json;print(json.load(open('$d/meta.json'))['property'])")
  WT=/tmp/sw_$id
  git -C /repo worktree add -q $WT HEAD 2>/dev/null || { echo "$id worktree failed" >> $OUT; continue; }
  if git -C $WT apply $(readlink -f $d/patch.diff) 2>/dev/null; then
    VERIF_REPO=$WT timeout 1500 ./check $prop --tier quick > /tmp/sw_$id.out 2>&1; rc=$?
    echo "$id $prop exit=$rc violations=$(grep -c '^VIOLATION' /tmp/sw_$id.out) $(grep -m1 '^VIOLATION' /tmp/sw_$id.out | sed 's/.*obligation=//' | cut -c1-110)" >> $OUT
  else
    echo "$id $prop patch-does-not-apply" >> $OUT
  fi
  git -C /repo worktree remove --force $WT; rm -f /tmp/sw_$id.out
done
echo done >> $OUT
