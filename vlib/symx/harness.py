"""Helpers shared by the engine-S contracts: symbolic knot vectors per shape,
parameter position classes, identity obligations, counterexample search."""
from __future__ import annotations

import random
import time
from fractions import Fraction

import numpy as np
import z3

from .. import spec
from ..report import FAILED, PROVED, ERROR, ob
from .sym import Concretisation, Ctx, PathLimit, SpecUndecided, Sym, explore, symbolic_in

SEP = Fraction(1, 10 ** 6)      # A3: distinct knots at least 1e-6 apart (library tolerance)
NODE_SEP = Fraction(2, 10 ** 9)  # nodes not equal to a knot stay 2e-9 away where mult() is used (float 1e-9 > 1/10^9)


def knot_names(shape):
    p, mults = shape
    return ["k%d" % i for i in range(len(mults) + 2)]


def new_ctx(shape, extra_names=(), sep=True, timeout_ms=20000):
    """Context with distinct knot symbols k0 < k1 < … (SEP apart) plus extra symbols."""
    names = knot_names(shape) + list(extra_names)
    if REPLAY["point"] is not None:
        return ConcreteCtx(names, REPLAY["point"])
    ctx = Ctx(names, timeout_ms=timeout_ms)
    kn = knot_names(shape)
    for a, b in zip(kn[:-1], kn[1:]):
        if sep:
            ctx.base.append(ctx.zv[b] - ctx.zv[a] >= z3.RealVal(str(SEP)))
        else:
            ctx.base.append(ctx.zv[b] > ctx.zv[a])
    return ctx


def sym_vector(ctx, shape):
    p, mults = shape
    ks = [ctx.sym(n) for n in knot_names(shape)]
    return spec.shape_vector(p, mults, ks), ks


def positions(shape, ends=True):
    """Parameter classes: ('open', z) inside the z-th span, ('knot', z) at the z-th distinct knot."""
    nk = len(shape[1]) + 2
    out = [("open", z) for z in range(nk - 1)]
    out += [("knot", z) for z in range(nk)] if ends else [("knot", z) for z in range(1, nk - 1)]
    return out


def constrain_param(ctx, shape, name, pos, node_sep=False):
    """Returns the Sym for the parameter; adds its position constraints to ctx.base."""
    kind, z = pos
    kn = knot_names(shape)
    if kind == "knot":
        return ctx.sym(kn[z])
    t = ctx.zv[name]
    if kind == "open":
        if node_sep:
            d = z3.RealVal(str(NODE_SEP))
            ctx.base += [t >= ctx.zv[kn[z]] + d, t <= ctx.zv[kn[z + 1]] - d]
        else:
            ctx.base += [t > ctx.zv[kn[z]], t < ctx.zv[kn[z + 1]]]
    elif kind == "below":
        ctx.base.append(t < ctx.zv[kn[0]])
    elif kind == "above":
        ctx.base.append(t > ctx.zv[kn[-1]])
    else:
        raise ValueError(kind)
    return ctx.sym(name)


def spec_span_of(shape, pos):
    """Index k into the full vector of the span the spec evaluates in, for a position class."""
    p, mults = shape
    kind, z = pos
    nk = len(mults) + 2
    # index of the last occurrence of distinct knot z
    last = [p]
    for m in mults:
        last.append(last[-1] + m)
    n = p + 1 + sum(mults)
    last.append(n + p)
    if kind == "knot" and z == nk - 1:
        return n - 1        # left limit at umax: last non-empty span
    return last[z]


def positive(ctx, names):
    for n in names:
        ctx.base.append(ctx.zv[n] > 0)


def to_sym(ctx, v):
    if isinstance(v, np.ndarray) and v.ndim == 0:
        v = v.item()
    if isinstance(v, Sym):
        return v
    r = ctx.const(v)
    if r.e is None:
        raise TypeError("not a number: %r" % (v,))
    return r


def diff_point(ctx, a, b, tries=40, seed=0):
    """A rational point of base∧pc where a != b (both Sym), or None."""
    d = a.e - b.e
    if d == 0:
        return None
    try:
        extra = ctx.poly_z3(d.numer) != 0
        pt = ctx.sample_point(extra=extra, seed=seed)
        if pt is not None:
            try:
                if a.evaluate(pt) != b.evaluate(pt):
                    return pt
            except ZeroDivisionError:
                pass
    except z3.Z3Exception:
        pass
    rnd = random.Random(seed)
    for i in range(tries):
        pt = ctx.sample_point(seed=rnd.randrange(1 << 30))
        if pt is None:
            return None
        try:
            if a.evaluate(pt) != b.evaluate(pt):
                return pt
        except ZeroDivisionError:
            continue
    return None


class Checker:
    """Collects obligations of one S task (one shape).  Identities are decided by normal form."""

    def __init__(self, ctx, fn, engine, shape_tag, witness_base):
        self.ctx, self.fn, self.engine = ctx, fn, engine
        self.tag = shape_tag
        self.wb = witness_base
        self.obs = []

    def call(self, f, *a, **k):
        """Run code under contract: branches may fork, divisions are checked.  Everything outside call() is
        spec / harness computation: comparisons must be decided by the path condition, division is formal."""
        ctx = self.ctx
        prev = ctx.nodecide
        ctx.nodecide = False
        try:
            return f(*a, **k)
        except BaseException as e:
            try:
                e._from_code = True
            except Exception:
                pass
            raise
        finally:
            ctx.nodecide = prev

    def _wit(self, pt, extra=None):
        w = dict(self.wb)
        w["point"] = {k: str(v) for k, v in (pt or {}).items()}
        w["pc"] = list(self.ctx.pc_desc)
        if extra:
            w.update(extra)
        return w

    def add(self, clause, ok, detail="", pt=None, t=0.0, backend="field-nf", status=None, extra=None, tags=None):
        st = status or (PROVED if ok else FAILED)
        if st == FAILED and self.ctx.uncertain:
            # the path rests on a branch whose feasibility the solver could not confirm: a failure here is not a verdict
            st = "undecided"
            detail = "[path feasibility not confirmed by the solver] " + str(detail)
        wit = None
        if st != PROVED:
            if pt is None:
                pt = self.ctx.sample_point()
            wit = self._wit(pt, extra)
        ptag = ("|path=" + "".join("T" if d else "F" for d in self.ctx.path)) if self.ctx.path else ""
        self.obs.append(ob("%s:%s[%s%s]" % (self.fn, clause, self.tag, ptag), self.fn, st, self.engine,
                           backend, t, detail, wit, tags))

    def identities(self, clause, pairs, detail_ok="", tags=None):
        """pairs: list of (label, code_value, spec_value).  One obligation for the whole list."""
        t0 = time.time()
        ctx = self.ctx
        bad = []
        for label, a, b in pairs:
            if isinstance(a, (float, np.floating)) or isinstance(b, (float, np.floating)):
                bad.append((label, "float in an exact computation: %r" % (a,), None))
                continue
            try:
                a_, b_ = to_sym(ctx, a), to_sym(ctx, b)
            except Exception as e:  # not a number at all
                bad.append((label, "not a number: %r (%s)" % (a, e), None))
                continue
            if a_.e != b_.e:
                pt = None
                if ctx.pc:   # equalities added by forks may make different normal forms equal
                    if ctx.vanishes_on_kernels(a_.e - b_.e):
                        continue
                    dz = ctx.poly_z3((a_.e - b_.e).numer) != 0
                    if ctx._sat(dz) == z3.unsat:
                        continue
                pt = diff_point(ctx, a_, b_)
                bad.append((label, "code %s != spec %s" % (str(a_.e)[:200], str(b_.e)[:200]), pt))
        if bad:
            label, msg, pt = bad[0]
            self.add(clause, False, "%d of %d identities fail; first: %s: %s" % (len(bad), len(pairs), label, msg),
                     pt=pt, t=time.time() - t0, tags=tags)
        else:
            self.add(clause, True, detail_ok or "%d identities, normal-form equal" % len(pairs),
                     t=time.time() - t0, tags=tags)
        return not bad

    def exact(self, clause, value):
        nsym, nflt, ntaint = symbolic_in(value)
        ok = nflt == 0 and ntaint == 0
        self.add(clause, ok, "result holds %d symbolic entries, %d machine floats, %d float-tainted" % (nsym, nflt, ntaint))
        return ok


class PathTimeout(BaseException):
    pass


def _alarm(signum, frame):
    raise PathTimeout()


PATH_TIMEOUT_S = int(__import__("os").environ.get("VERIF_PATH_TIMEOUT", "60"))


def run_paths(ctx, fn_name, engine, tag, wb, body, allowed_exc=(), max_paths=400):
    import signal
    if getattr(ctx, "concrete", False):           # native replay mode
        chk = ConcreteChecker(ctx, fn_name, tag)
        try:
            body(chk)
        except Exception as e:
            chk.failed.append(("%s:no-exception" % fn_name, "%s: %s" % (type(e).__name__, str(e)[:200])))
        REPLAY.setdefault("failed", []).extend((c, tag, d) for c, d in chk.failed)
        return []
    # the budget of a path is CPU time of this process (ITIMER_PROF), so that a busy machine cannot turn a slow path into a failed 'terminates'
    # obligation; a wall-clock backstop at 10x catches code that blocks without using the CPU
    old = signal.signal(signal.SIGALRM, _alarm)
    oldp = signal.signal(signal.SIGPROF, _alarm)
    try:
        return _run_paths(ctx, fn_name, engine, tag, wb, body, allowed_exc, max_paths)
    finally:
        signal.setitimer(signal.ITIMER_REAL, 0)
        signal.setitimer(signal.ITIMER_PROF, 0)
        signal.signal(signal.SIGALRM, old)
        signal.signal(signal.SIGPROF, oldp)


def _run_paths(ctx, fn_name, engine, tag, wb, body, allowed_exc=(), max_paths=400):
    import signal

    def timed(chk):
        signal.setitimer(signal.ITIMER_PROF, PATH_TIMEOUT_S, 0.25)
        signal.setitimer(signal.ITIMER_REAL, 10 * PATH_TIMEOUT_S, 0.25)
        ctx.nodecide = True
        try:
            return body(chk)
        finally:
            signal.setitimer(signal.ITIMER_PROF, 0)
            signal.setitimer(signal.ITIMER_REAL, 0)

    """Explore every feasible path of body(chk) -> None.  body performs the call and adds
    obligations through chk.  Exceptions escaping body are failed safety obligations unless the
    contract allows them (body should catch those itself)."""
    chk = Checker(ctx, fn_name, engine, tag, wb)
    npaths = 0
    t0 = time.time()
    try:
        for path, pcd, out, exc in explore(ctx, lambda: timed(chk), max_paths=max_paths):
            npaths += 1
            if exc is None:
                continue
            if isinstance(exc, PathTimeout):
                chk.add("terminates", False, "no result after %d s of CPU time on this path: "
                        "non-termination or blow-up" % PATH_TIMEOUT_S, tags={"timeout": True})
                continue
            if isinstance(exc, SpecUndecided) or not getattr(exc, "_from_code", False) and not isinstance(exc, (PathTimeout, Concretisation)):
                import traceback
                tb = "".join(traceback.format_exception(type(exc), exc, exc.__traceback__)[-4:])
                chk.add("harness", False, "spec/harness computation failed (not a verdict): %s: %s | %s" % (type(exc).__name__, exc, tb[-700:]), status=ERROR)
            elif isinstance(exc, Concretisation):
                chk.add("exact-field", False, "the code left the exact field: %s" % exc)
            else:
                import traceback
                tb = "".join(traceback.format_exception(type(exc), exc, exc.__traceback__)[-3:])
                chk.add("no-exception", False, "unexpected %s: %s | %s" % (type(exc).__name__, exc, tb[-600:]),
                        tags={"exception": type(exc).__name__})
    except PathLimit as e:
        chk.add("path-limit", False, str(e), status=ERROR)
    chk.obs.append({"_stats": dict(ctx.stats, paths=npaths, shapes=1, explore_s=round(time.time() - t0, 3))})
    return chk.obs


def frac_point(point):
    return {k: Fraction(v) for k, v in point.items()}


# --------------------------------------------------------------------------------------
# native replay of a symbolic task: the same contract body, but every symbol is the Fraction of the recorded point
# and the library runs on plain Fractions (no symbolic objects)
# --------------------------------------------------------------------------------------
REPLAY = {"point": None}


class ConcreteCtx:
    concrete = True

    def __init__(self, names, point):
        self.names = list(names)
        self.point = {k: Fraction(v) for k, v in point.items()}
        self.zv = {n: z3.Real(n) for n in names}
        self.base = []
        self.pc, self.pc_desc, self.path = [], [], []
        self.nonzero_elems = []
        self.policy = None
        self.nodecide = False
        self.uncertain = False
        self.kernels = []
        self.stats = {}

    def sym(self, name):
        return self.point.get(name, Fraction(0))

    def const(self, v):
        return v

    def must(self, b):
        return bool(b)

    entails = must

    def sample_point(self, extra=None, seed=0):
        return dict(self.point)

    def _sat(self, z):
        return z3.unknown

    def vanishes_on_kernels(self, e):
        return False


class ConcreteChecker:
    def __init__(self, ctx, fn, tag):
        self.ctx, self.fn, self.tag = ctx, fn, tag
        self.failed = []

    def call(self, f, *a, **k):
        return f(*a, **k)

    def add(self, clause, ok, detail="", **kw):
        if not ok and kw.get("status") != ERROR:
            self.failed.append(("%s:%s" % (self.fn, clause), str(detail)[:300]))

    def identities(self, clause, pairs, detail_ok="", tags=None):
        bad = []
        for label, a, b in pairs:
            if isinstance(a, np.ndarray) and a.ndim == 0:
                a = a.item()
            try:
                same = (a == b) and not isinstance(a, (float, np.floating))
            except Exception:
                same = False
            if not same:
                bad.append("%s: real code %s, spec %s" % (label, a, b))
        if bad:
            self.failed.append(("%s:%s" % (self.fn, clause), "; ".join(bad[:3])))
        return not bad

    def exact(self, clause, value):
        nsym, nflt, ntaint = symbolic_in(value)
        if nflt:
            self.failed.append(("%s:%s" % (self.fn, clause), "%d machine floats in the result" % nflt))
        return not nflt


def generic_replay(o):
    """Re-runs the task that produced obligation o natively at the recorded point. -> (reproduced, expected, observed)"""
    import importlib
    w = o["witness"]
    mod, fname, args = w["task"]
    args = [tuple(tuple(y) if isinstance(y, list) else y for y in a) if isinstance(a, list) else a for a in args]
    task = getattr(importlib.import_module("vlib.props." + mod), fname)
    REPLAY["point"] = {k: Fraction(v) for k, v in (w.get("point") or {}).items()}
    REPLAY["failed"] = []
    try:
        task(*args)
    finally:
        failed = REPLAY.get("failed", [])
        REPLAY["point"] = None
    want = o["id"].split("[")[0]
    tag = o["id"].split("[", 1)[1].split("|path")[0].rstrip("]") if "[" in o["id"] else ""
    hits = [(c, t, d) for c, t, d in failed if c == want and (t == tag or not tag)]
    other = [(c, t, d) for c, t, d in failed if c == want]
    if hits or other:
        h = (hits or other)[0]
        return True, "obligation %s holds at the point %s" % (want, {k: str(v) for k, v in (w.get("point") or {}).items()}), "the real code, run on plain Fractions at this point, violates the clause: " + h[2]
    return False, "obligation holds", "the obligation holds at the recorded point (%d other clauses failed there)" % len(failed)
