"""Engine S core: symbolic field numbers on which the REAL library code runs.

A `Sym` is an element of the fraction field Q(g_0, …, g_m) (sympy polys.fields,
canonical normal form).  Comparisons give `SymBool`; `bool()` of one asks the
oracle (z3 over the reals) whether the current path condition decides it; when
both outcomes are feasible the explorer forks by re-execution.

Nothing of compmec.nurbs or numpy is modelled here: the library is imported from
/repo/src and executed by CPython; numpy's object-dtype loops call the operators
below.
"""
from __future__ import annotations

import math
import time
from fractions import Fraction

import numpy as np
import z3
from sympy import QQ
from sympy.polys.fields import field as _sp_field


class Concretisation(Exception):
    """The code tried to turn a symbolic number into a machine number."""


class SpecUndecided(Exception):
    """A spec-side comparison was not decided by the path condition."""


class PathLimit(Exception):
    pass


def _is_int(x):
    return isinstance(x, (int, np.integer)) and not isinstance(x, bool)


class Ctx:
    """One symbolic context = one field + one z3 solver + one exploration state."""

    def __init__(self, names, timeout_ms=20000):
        names = list(names)
        assert names, "need at least one generator"
        out = _sp_field(",".join(names) if len(names) > 1 else names[0] + ",", QQ) \
            if False else _sp_field(names, QQ)
        self.K = out[0]
        self.names = names
        self.gen = {n: g for n, g in zip(names, out[1:])}
        self.zv = {n: z3.Real(n) for n in names}
        self._zorder = [self.zv[n] for n in names]
        self.base = []          # z3 constraints: the precondition of the shape
        self.timeout_ms = timeout_ms
        self.solver = None
        self.prefix = []        # decisions to follow
        self.path = []          # decisions taken in this run
        self.pc = []            # z3 constraints added by forks in this run
        self.pc_desc = []
        self._cache = {}
        self._unknown_keys = set()
        self.uncertain = False     # this run took a fork whose feasibility the solver could not confirm
        self._z3cache = {}
        self.model = None
        self.stats = dict(z3_checks=0, z3_time=0.0, decided=0, forks=0, unknown=0,
                          float_probes=0, assumed_nonzero=0)
        self.nonzero_elems = []   # field elements assumed non-zero by the contract's precondition
                                  # (the weight function of a rational curve: "has no zero")
        self.assumed = []
        self.policy = None       # callable(ctx, SymBool) -> True/False/None: branch fixed by a stated precondition
        self.nodecide = False    # spec mode: comparisons must be decided
        self.max_forks = 64

    # ---- construction of numbers -------------------------------------------------
    def sym(self, name):
        return Sym(self, self.gen[name])

    def const(self, v):
        return Sym(self, self._conv(v)[0])

    def _conv(self, v):
        """-> (field element, taint)"""
        K = self.K
        if isinstance(v, bool):
            return K(int(v)), False
        if _is_int(v):
            return K(int(v)), False
        if isinstance(v, Fraction):
            return K(QQ(v.numerator, v.denominator)), False
        if isinstance(v, (float, np.floating)):
            if math.isnan(v) or math.isinf(v):
                raise Concretisation("a NaN/inf (poisoned float of a symbolic number) re-entered arithmetic")
            fr = Fraction(float(v))
            return K(QQ(fr.numerator, fr.denominator)), True
        return None, False

    # ---- solver ------------------------------------------------------------------
    def reset_run(self):
        self.solver = z3.Solver()
        self.solver.set("timeout", self.timeout_ms)
        for c in self.base:
            self.solver.add(c)
        self.path = []
        self.pc = []
        self.pc_desc = []
        self.uncertain = False
        self.kernels = []
        self.pc_id = 0
        self.model = None
        self.assumed = []

    def _get_model(self):
        if self.model is None:
            t0 = time.time()
            r = self.solver.check()
            self.stats["z3_checks"] += 1
            self.stats["z3_time"] += time.time() - t0
            if r == z3.sat:
                self.model = self.solver.model()
            elif r == z3.unsat:
                raise RuntimeError("path condition is unsatisfiable (vacuous shape)")
            else:
                self.model = False
        return self.model

    def _sat(self, z):
        t0 = time.time()
        self.solver.push()
        self.solver.add(z)
        r = self.solver.check()
        self.solver.pop()
        self.stats["z3_checks"] += 1
        self.stats["z3_time"] += time.time() - t0
        if r == z3.unknown:
            self.stats["unknown"] += 1
        return r

    def status(self, z, key):
        """'T' cond holds on all of pc, 'F' on none, 'U' both feasible (or unknown)."""
        ck = (self.pc_id, key)
        st = self._cache.get(ck)
        if st is not None:
            return st
        m = self._get_model()
        val = None
        if m:
            try:
                v = m.eval(z, model_completion=True)
                if z3.is_true(v):
                    val = True
                elif z3.is_false(v):
                    val = False
            except z3.Z3Exception:
                val = None
        if val is True:
            r = self._sat(z3.Not(z))
            st = "T" if r == z3.unsat else "U"
            if r == z3.unknown:
                self._unknown_keys.add(ck)
        elif val is False:
            r = self._sat(z)
            st = "F" if r == z3.unsat else "U"
            if r == z3.unknown:
                self._unknown_keys.add(ck)
        else:
            r1 = self._sat(z)
            if r1 == z3.unsat:
                st = "F"
            else:
                r2 = self._sat(z3.Not(z))
                st = "T" if r2 == z3.unsat else "U"
                if st == "U" and (r1 == z3.unknown or r2 == z3.unknown):
                    self._unknown_keys.add(ck)
        self._cache[ck] = st
        return st

    def decide(self, sb):
        z = sb.z3()
        if self.policy is not None and not self.nodecide:
            forced = self.policy(self, sb)
            if forced is not None:       # a stated precondition of the contract decides this branch (no fork, no solver call)
                c = z if forced else z3.Not(z)
                self.solver.add(c)
                self.pc.append(c)
                self.pc_desc.append(("assumed: " if forced else "assumed: not ") + sb.describe()[:200])
                self.pc_id = hash((self.pc_id, sb.key(), forced))
                self.model = None
                self.stats["policy_decisions"] = self.stats.get("policy_decisions", 0) + 1
                return forced
        st = self.status(z, sb.key())
        if st == "T":
            self.stats["decided"] += 1
            return True
        if st == "F":
            self.stats["decided"] += 1
            return False
        if self.nodecide:
            raise SpecUndecided(sb.describe())
        idx = len(self.path)
        if idx < len(self.prefix):
            val = self.prefix[idx]
        else:
            if idx >= self.max_forks:
                raise PathLimit("more than %d undecided branches on one path" % self.max_forks)
            val = True
            self.prefix.append(True)
        self.stats["forks"] += 1
        if (self.pc_id, sb.key()) in self._unknown_keys:
            self.uncertain = True
            self.stats["forks_on_unknown"] = self.stats.get("forks_on_unknown", 0) + 1
        self.path.append(val)
        c = z if val else z3.Not(z)
        self.solver.add(c)
        self.pc.append(c)
        self.pc_desc.append(("" if val else "not ") + sb.describe())
        self.pc_id = hash((self.pc_id, sb.key(), val))
        self.model = None
        self._note_kernel(sb, val)
        return val

    def _note_kernel(self, sb, val):
        """A fork that asserts q(x) <= 0 for a positive semidefinite quadratic form q pins x to the kernel of q
        (q(x) = 0  <=>  Q x = 0): remember that linear subspace, identities are then checked modulo it."""
        holds = (val != sb.neg)
        e = sb.e
        q = None
        if sb.op == "lt" and not holds:          # not (e < 0)  i.e.  e >= 0
            if self.quadratic_sign(e) == -1:
                q = -e
        elif sb.op == "le" and holds:            # e <= 0
            if self.quadratic_sign(e) == 1:
                q = e
        elif sb.op == "eq" and holds:
            sg = self.quadratic_sign(e)
            if sg is not None:
                q = e if sg == 1 else -e
        if q is None:
            return
        from ..spec import null_space
        d = q.denom.LC
        used = sorted({k for mon, _ in q.numer.terms() for k, ex in enumerate(mon) if ex})
        pos = {k: i for i, k in enumerate(used)}
        n = len(used)
        Q = [[Fraction(0)] * n for _ in range(n)]
        for mon, c in q.numer.terms():
            c = Fraction(int(c.numerator), int(c.denominator)) / Fraction(int(d.numerator), int(d.denominator))
            nz = [(k, ex) for k, ex in enumerate(mon) if ex]
            if len(nz) == 1:
                Q[pos[nz[0][0]]][pos[nz[0][0]]] += c
            else:
                Q[pos[nz[0][0]]][pos[nz[1][0]]] += c / 2
                Q[pos[nz[1][0]]][pos[nz[0][0]]] += c / 2
        self.kernels.append(([self.names[k] for k in used], Q))

    def joint_kernel(self):
        """(names, basis) of the subspace cut out by ALL recorded constraints Q_k x = 0."""
        from ..spec import null_space
        names = []
        for nm, _ in self.kernels:
            for x in nm:
                if x not in names:
                    names.append(x)
        rows = []
        for nm, Q in self.kernels:
            for r in Q:
                row = [Fraction(0)] * len(names)
                for x, v in zip(nm, r):
                    row[names.index(x)] = v
                rows.append(row)
        return names, null_space(rows, len(names))

    def vanishes_on_kernels(self, e):
        """e (field element whose numerator is linear in the kernel symbols) is zero on the recorded kernel subspace."""
        if not self.kernels:
            return False
        names, basis = self.joint_kernel()
        num = e.numer
        gens = [self.gen[n].numer for n in names]
        for g in gens:
            if num.degree(g) > 1:
                return False
        coefs = [num.diff(g) for g in gens]
        rest = num
        for g, c in zip(gens, coefs):
            rest = rest - c * g
        if rest != 0:
            return False
        for v in basis:
            tot = 0
            for c, x in zip(coefs, v):
                if x:
                    tot = tot + c * QQ(x.numerator, x.denominator)
            if tot != 0:
                return False
        return True

    def must(self, sb):
        """Spec-side decision: has to follow from the path condition."""
        if isinstance(sb, (bool, np.bool_)):
            return bool(sb)
        st = self.status(sb.z3(), sb.key())
        if st == "T":
            return True
        if st == "F":
            return False
        raise SpecUndecided(sb.describe())

    def entails(self, sb):
        if isinstance(sb, (bool, np.bool_)):
            return bool(sb)
        return self.status(sb.z3(), sb.key()) == "T"

    def next_prefix(self):
        """DFS over the decisions of the last run; False when exhausted."""
        p = list(self.path)
        while p and p[-1] is False:
            p.pop()
        if not p:
            return False
        p[-1] = False
        self.prefix = p
        return True

    def quadratic_sign(self, e):
        """+1 / -1 if e is a pure quadratic form in the generators that is positive / negative semidefinite
        (decided exactly by LDL^T over Q), None otherwise.  Sound shortcut for abs() of error functionals."""
        key = ("qs", e)
        if key in self._cache:
            return self._cache[key]
        res = None
        try:
            if e.denom.is_ground and e.numer.terms() and all(sum(m) == 2 for m, _ in e.numer.terms()):
                from ..spec import is_psd
                n = len(self.names)
                d = e.denom.LC
                Q = [[Fraction(0)] * n for _ in range(n)]
                for mon, c in e.numer.terms():
                    c = Fraction(int(c.numerator), int(c.denominator)) / Fraction(int(d.numerator), int(d.denominator))
                    nz = [(k, ex) for k, ex in enumerate(mon) if ex]
                    if len(nz) == 1:
                        Q[nz[0][0]][nz[0][0]] += c
                    else:
                        Q[nz[0][0]][nz[1][0]] += c / 2
                        Q[nz[1][0]][nz[0][0]] += c / 2
                used = sorted({k for mon, _ in e.numer.terms() for k, ex in enumerate(mon) if ex})
                Qs = [[Q[i][j] for j in used] for i in used]
                if is_psd(Qs):
                    res = 1
                elif is_psd([[-x for x in r] for r in Qs]):
                    res = -1
        except Exception:
            res = None
        self._cache[key] = res
        return res

    # ---- translation to z3 -------------------------------------------------------
    def poly_z3(self, poly):
        key = poly
        r = self._z3cache.get(key)
        if r is not None:
            return r
        terms = []
        for mon, coef in poly.terms():
            t = z3.RealVal(str(Fraction(int(coef.numerator), int(coef.denominator))))
            fs = []
            for v, e in zip(self._zorder, mon):
                for _ in range(e):
                    fs.append(v)
            if fs:
                prod = fs[0]
                for f in fs[1:]:
                    prod = prod * f
                t = prod if coef == 1 else t * prod
            terms.append(t)
        if not terms:
            r = z3.RealVal(0)
        elif len(terms) == 1:
            r = terms[0]
        else:
            r = z3.Sum(terms)
        self._z3cache[key] = r
        return r

    def elem_z3(self, e):
        n = self.poly_z3(e.numer)
        d = e.denom
        if d.is_ground:
            return n / z3.RealVal(str(Fraction(int(d.LC.numerator), int(d.LC.denominator)))) if d != 1 else n
        return n / self.poly_z3(d)

    def sample_point(self, extra=None, seed=0):
        """A rational point satisfying base ∧ pc (∧ extra) — used for counterexamples."""
        s = z3.Solver()
        s.set("timeout", self.timeout_ms)
        s.set("random_seed", seed)
        for c in self.base + self.pc:
            s.add(c)
        if extra is not None:
            s.add(extra)
        # prefer a generic point (no symbol 0 or +-1, all distinct, spread out): degenerate values hide differences on replay
        s.push()
        vs = [self.zv[n] for n in self.names]
        for i, v in enumerate(vs):
            s.add(v != 0, v != 1, v != -1)
            for w in vs[:i]:
                s.add(v != w, v != -w, v - w != 1, w - v != 1)
        r = s.check()
        if r != z3.sat:
            s.pop()
            if s.check() != z3.sat:
                return None
        m = s.model()
        pt = {}
        for n in self.names:
            v = m.eval(self.zv[n], model_completion=True)
            if z3.is_rational_value(v):
                pt[n] = Fraction(v.numerator_as_long(), v.denominator_as_long())
            else:  # algebraic: approximate
                pt[n] = Fraction(v.approx(20).as_fraction())
        return pt


def _sign_z3(ctx, e, op):
    """z3 formula for (e op 0), e a field element n/d; sign(n/d) = sign(n*d)."""
    n = ctx.poly_z3(e.numer)
    d = e.denom
    if d.is_ground:
        pos = d.LC > 0
        if op == "eq":
            return n == 0
        if op == "lt":
            return n < 0 if pos else n > 0
        if op == "le":
            return n <= 0 if pos else n >= 0
    dz = ctx.poly_z3(d)
    if op == "eq":
        return n == 0
    if op == "lt":
        return n * dz < 0
    return n * dz <= 0


class SymBool:
    __slots__ = ("ctx", "e", "op", "neg")

    def __init__(self, ctx, e, op, neg=False):
        self.ctx, self.e, self.op, self.neg = ctx, e, op, neg

    def key(self):
        return (self.e, self.op, self.neg)

    def z3(self):
        z = _sign_z3(self.ctx, self.e, self.op)
        return z3.Not(z) if self.neg else z

    def describe(self):
        s = "(%s) %s 0" % (self.e, {"eq": "==", "lt": "<", "le": "<="}[self.op])
        return "not " + s if self.neg else s

    def __bool__(self):
        return self.ctx.decide(self)

    def __invert__(self):
        return SymBool(self.ctx, self.e, self.op, not self.neg)

    # np.all / products of boolean arrays may multiply or and/or them
    def __and__(self, o):
        return bool(self) and bool(o)

    __rand__ = __and__

    def __or__(self, o):
        return bool(self) or bool(o)

    __ror__ = __or__

    def __mul__(self, o):
        return bool(self) * o

    __rmul__ = __mul__

    def __add__(self, o):        # sum(cond for …) counts true conditions
        return int(bool(self)) + o

    __radd__ = __add__

    def __int__(self):
        return int(bool(self))

    __index__ = __int__

    def __hash__(self):
        return hash(bool(self))

    def __eq__(self, o):
        return bool(self) == bool(o)


class Sym:
    __slots__ = ("ctx", "e", "taint")
    __array_priority__ = 10000


    def __init__(self, ctx, e, taint=False):
        self.ctx, self.e, self.taint = ctx, e, taint

    # ----- coercion ------------------------------------------------------------
    def _co(self, o):
        if isinstance(o, Sym):
            if o.ctx is not self.ctx:
                raise RuntimeError("mixing symbolic contexts")
            return o.e, o.taint
        e, t = self.ctx._conv(o)
        if e is None:
            return None, False
        return e, t

    def _new(self, e, t):
        return Sym(self.ctx, e, t)

    # ----- arithmetic ------------------------------------------------------------
    def __add__(self, o):
        if isinstance(o, np.ndarray):
            return np.array([self + x for x in o.flat], dtype=object).reshape(o.shape)
        e, t = self._co(o)
        if e is None:
            return NotImplemented
        return self._new(self.e + e, self.taint or t)

    __radd__ = __add__

    def __sub__(self, o):
        if isinstance(o, np.ndarray):
            return np.array([self - x for x in o.flat], dtype=object).reshape(o.shape)
        e, t = self._co(o)
        if e is None:
            return NotImplemented
        return self._new(self.e - e, self.taint or t)

    def __rsub__(self, o):
        if isinstance(o, np.ndarray):
            return np.array([x - self for x in o.flat], dtype=object).reshape(o.shape)
        e, t = self._co(o)
        if e is None:
            return NotImplemented
        return self._new(e - self.e, self.taint or t)

    def __mul__(self, o):
        if isinstance(o, np.ndarray):
            return np.array([self * x for x in o.flat], dtype=object).reshape(o.shape)
        e, t = self._co(o)
        if e is None:
            return NotImplemented
        return self._new(self.e * e, self.taint or t)

    def __rmul__(self, o):
        if isinstance(o, np.ndarray):
            return np.array([x * self for x in o.flat], dtype=object).reshape(o.shape)
        e, t = self._co(o)
        if e is None:
            return NotImplemented
        return self._new(e * self.e, self.taint or t)

    def _nonzero_or_raise(self, e):
        """Division guard: the real code would raise ZeroDivisionError iff e == 0."""
        if e == 0:
            raise ZeroDivisionError("symbolic divisor is identically zero")
        if e.numer.is_ground:
            return
        ctx = self.ctx
        if ctx.nodecide:      # spec side: formal division of rational functions
            return
        for d in ctx.nonzero_elems:
            q = e / d
            if q.numer.is_ground or ctx.status(SymBool(ctx, q, "eq").z3(), ("nzq", q)) == "F":
                ctx.stats["assumed_nonzero"] += 1
                return
        sb = SymBool(ctx, e, "eq")
        ck = (ctx.pc_id, ("nz", e))
        r = ctx._cache.get(ck)
        if r is None:
            old = ctx.timeout_ms
            ctx.solver.set("timeout", min(old, 3000))
            r = ctx._sat(sb.z3())
            ctx.solver.set("timeout", old)
            ctx._cache[ck] = r
        if r == z3.unsat:
            return
        if r == z3.unknown:
            # the solver cannot decide whether the divisor can vanish: the zero branch is NOT explored and the guard is
            # recorded as undecided (never reported as a violation; listed in the evidence)
            ctx.stats["division_guard_undecided"] = ctx.stats.get("division_guard_undecided", 0) + 1
            return
        if ctx.decide(sb):
            raise ZeroDivisionError("division by a symbolic value that is zero on this path")

    def __truediv__(self, o):
        if isinstance(o, np.ndarray):
            return np.array([self / x for x in o.flat], dtype=object).reshape(o.shape)
        e, t = self._co(o)
        if e is None:
            return NotImplemented
        self._nonzero_or_raise(e)
        return self._new(self.e / e, self.taint or t)

    def __rtruediv__(self, o):
        if isinstance(o, np.ndarray):
            return np.array([x / self for x in o.flat], dtype=object).reshape(o.shape)
        e, t = self._co(o)
        if e is None:
            return NotImplemented
        self._nonzero_or_raise(self.e)
        return self._new(e / self.e, self.taint or t)

    def __pow__(self, n):
        if isinstance(n, Sym):
            if n.e.numer.is_ground and n.e.denom == 1:
                n = int(n.e.numer.LC) if n.e != 0 else 0
            else:
                raise Concretisation("symbolic exponent")
        if isinstance(n, Fraction) and n.denominator == 1:
            n = int(n)
        if isinstance(n, (float, np.floating)) and float(n).is_integer():
            n = int(n)
        if not _is_int(n):
            raise Concretisation("non-integer power %r of a symbolic number" % (n,))
        n = int(n)
        if n >= 0:
            return self._new(self.e ** n, self.taint)
        self._nonzero_or_raise(self.e)
        return self._new(1 / (self.e ** (-n)), self.taint)

    def __rpow__(self, o):
        raise Concretisation("symbolic exponent")

    def __neg__(self):
        return self._new(-self.e, self.taint)

    def __pos__(self):
        return self

    def __abs__(self):
        if self.e.numer.is_ground and self.e.denom.is_ground:
            return self if (self.e.numer.LC if self.e != 0 else 0) >= 0 else -self
        sg = self.ctx.quadratic_sign(self.e)
        if sg is not None:
            return self if sg >= 0 else -self
        return self if bool(SymBool(self.ctx, -self.e, "le")) else -self

    def __floordiv__(self, o):
        raise Concretisation("// on a symbolic number")

    __rfloordiv__ = __mod__ = __rmod__ = __divmod__ = __floordiv__

    def __matmul__(self, o):
        # scalar "points": point @ point means product
        return self * o

    __rmatmul__ = __matmul__

    # ----- comparisons -----------------------------------------------------------
    def _cmp(self, o, op, swap=False, neg=False):
        e, _ = self._co(o)
        if e is None:
            return NotImplemented
        d = (e - self.e) if swap else (self.e - e)
        if d.numer.is_ground and d.denom.is_ground:   # constant: decide now
            c = d.numer.LC if d != 0 else 0
            den = d.denom.LC
            v = Fraction(int(c.numerator), int(c.denominator)) / Fraction(int(den.numerator), int(den.denominator)) if c != 0 else 0
            r = {"eq": v == 0, "lt": v < 0, "le": v <= 0}[op]
            return (not r) if neg else r
        return SymBool(self.ctx, d, op, neg)

    def __eq__(self, o):
        if isinstance(o, np.ndarray):   # numpy would build a bool array by truth-testing each comparison
            return np.array([bool(self.__eq__(x)) for x in o.flat], dtype=bool).reshape(o.shape)
        r = self._cmp(o, "eq")
        return False if r is NotImplemented else r

    def __ne__(self, o):
        if isinstance(o, np.ndarray):   # numpy would build a bool array by truth-testing each comparison
            return np.array([bool(self.__ne__(x)) for x in o.flat], dtype=bool).reshape(o.shape)
        r = self._cmp(o, "eq", neg=True)
        return True if r is NotImplemented else r

    def __lt__(self, o):
        if isinstance(o, np.ndarray):   # numpy would build a bool array by truth-testing each comparison
            return np.array([bool(self.__lt__(x)) for x in o.flat], dtype=bool).reshape(o.shape)
        return self._cmp(o, "lt")

    def __le__(self, o):
        if isinstance(o, np.ndarray):   # numpy would build a bool array by truth-testing each comparison
            return np.array([bool(self.__le__(x)) for x in o.flat], dtype=bool).reshape(o.shape)
        return self._cmp(o, "le")

    def __gt__(self, o):
        if isinstance(o, np.ndarray):   # numpy would build a bool array by truth-testing each comparison
            return np.array([bool(self.__gt__(x)) for x in o.flat], dtype=bool).reshape(o.shape)
        return self._cmp(o, "lt", swap=True)

    def __ge__(self, o):
        if isinstance(o, np.ndarray):   # numpy would build a bool array by truth-testing each comparison
            return np.array([bool(self.__ge__(x)) for x in o.flat], dtype=bool).reshape(o.shape)
        return self._cmp(o, "le", swap=True)

    def __hash__(self):
        # constant: equal values must hash equal, and equality is decided by the oracle
        return 7

    def __bool__(self):
        r = self._cmp(0, "eq", neg=True)
        return bool(r)

    # ----- machine-number coercions ------------------------------------------------
    def __float__(self):
        # the library probes "is it a number" with float(x) and formats messages with it;
        # the result is a poison value that cannot re-enter symbolic arithmetic
        self.ctx.stats["float_probes"] += 1
        return float("nan")

    def __int__(self):
        raise Concretisation("int() of a symbolic number")

    def __index__(self):
        raise Concretisation("symbolic number used as an index")

    def __round__(self, *a):
        raise Concretisation("round() of a symbolic number")

    __trunc__ = __floor__ = __ceil__ = __int__

    @property
    def numerator(self):
        raise Concretisation(".numerator of a symbolic number")

    @property
    def denominator(self):
        raise Concretisation(".denominator of a symbolic number")

    def __copy__(self):
        return self

    def __deepcopy__(self, memo):
        return self

    def __repr__(self):
        return "Sym(%s)" % (self.e,)

    __str__ = __repr__

    def __format__(self, spec):
        return repr(self)

    # ----- helpers for the harness ---------------------------------------------------
    def is_zero(self):
        return self.e == 0

    def evaluate(self, point):
        """Exact value at a rational point {name: Fraction}."""
        vals = [point[n] for n in self.ctx.names]

        def ev(poly):
            tot = Fraction(0)
            for mon, coef in poly.terms():
                t = Fraction(int(coef.numerator), int(coef.denominator))
                for v, e in zip(vals, mon):
                    if e:
                        t *= v ** e
                tot += t
            return tot
        return ev(self.e.numer) / ev(self.e.denom)


def explore(ctx, run, max_paths=4000):
    """Run `run()` on every feasible decision path.  Yields (path, pc_desc, outcome, exc)."""
    ctx.prefix = []
    npaths = 0
    while True:
        ctx.reset_run()
        exc = None
        out = None
        try:
            out = run()
        except PathLimit:
            raise
        except BaseException as e:  # the outcome of this path is an exception
            if isinstance(e, (KeyboardInterrupt, SystemExit, MemoryError)):
                raise
            if not isinstance(e, Exception) and type(e).__name__ != "PathTimeout":
                raise
            exc = e
        yield list(ctx.path), list(ctx.pc_desc), out, exc
        npaths += 1
        if npaths >= max_paths:
            raise PathLimit("more than %d paths" % max_paths)
        if not ctx.next_prefix():
            return


def symbolic_in(x):
    """Does a (nested) result contain symbolic numbers / poison floats?  -> (nsym, nfloat, ntainted)"""
    nsym = nflt = ntaint = 0
    stack = [x]
    while stack:
        v = stack.pop()
        if isinstance(v, Sym):
            nsym += 1
            ntaint += bool(v.taint)
        elif isinstance(v, (float, np.floating)):
            nflt += 1
        elif isinstance(v, np.ndarray):
            if v.dtype == object:
                stack.extend(v.flat)
            elif v.dtype.kind == "f":
                nflt += v.size
        elif isinstance(v, (list, tuple)):
            stack.extend(v)
    return nsym, nflt, ntaint
