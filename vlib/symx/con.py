"""S-con tier: concrete rational knot vectors (enumerated per shape), symbolic control points / data /
tolerance / parameter.  Used for everything that goes through Linalg (fraction-free integer elimination needs
gcd, //, int()) and for code that stores knots into float64 arrays."""
from __future__ import annotations

import random
from fractions import Fraction

import numpy as np

from .. import spec
from ..report import FAILED, PROVED, ob
from .sym import Ctx, Sym

F = Fraction
POOLS = [
    [F(-3, 2), F(-1, 3), F(0), F(2, 7), F(1), F(9, 4), F(10, 3), F(5)],                 # a knot at 0, negative values, non-uniform
    [F(-7, 3), F(-2, 5), F(3, 11), F(13, 7), F(29, 9), F(37, 8), F(61, 10), F(7)],      # no special values, awkward denominators
    [F(0), F(1, 4), F(1, 2), F(3, 4), F(1), F(5, 4), F(3, 2), F(2)],                    # uniform (the only spacing most tests use)
]


def knot_values(nk, variant, seed=0):
    if variant < len(POOLS):
        pool = POOLS[variant]
        if variant == 0:       # keep 0 inside when there is an interior knot, at an end otherwise
            start = max(0, 2 - (nk - 1) // 2) if nk > 2 else 2
            start = min(start, len(pool) - nk)
            vals = pool[start:start + nk]
        else:
            vals = pool[:nk]
        return list(vals)
    rnd = random.Random(seed * 1000 + variant * 17 + nk)
    vals = set()
    while len(vals) < nk:
        vals.add(F(rnd.randint(-40, 40), rnd.randint(1, 9)))
    return sorted(vals)


def vectors(shape, tier, seed=0):
    """[(variant, distinct values, full vector)]"""
    nk = len(shape[1]) + 2
    nvar = 2 if tier == "quick" else 4
    out = []
    for v in range(nvar):
        ks = knot_values(nk, v if v < 2 else v + 1, seed)
        out.append((v, ks, spec.shape_vector(shape[0], shape[1], ks)))
    return out


def con_ctx(names, timeout_ms=6000):
    from . import harness as _H
    if _H.REPLAY["point"] is not None:
        return _H.ConcreteCtx(list(names), _H.REPLAY["point"])
    ctx = Ctx(list(names), timeout_ms=timeout_ms)
    return ctx


# --------------------------------------------------------------------------------------
# run-time contract monitors on the exact linear algebra (A4): every call during an S run is checked
# --------------------------------------------------------------------------------------
class Monitor:
    def __init__(self):
        self.calls = 0
        self.failures = []

    def install(self, heavy):
        self.heavy = heavy
        self._invert = heavy.Linalg.invert
        self._solve = heavy.Linalg.solve
        mon = self

        def invert(matrix):
            res = mon._invert(matrix)
            mon.calls += 1
            try:
                A = [[x for x in row] for row in matrix]
                n = len(A)
                R = [[x for x in row] for row in res]
                exact = heavy.number_type(A) in (int, Fraction)
                if exact:
                    for i in range(n):
                        for j in range(n):
                            v = sum(R[i][k] * A[k][j] for k in range(n))
                            if isinstance(v, float) or v != (1 if i == j else 0):
                                raise AssertionError("inverse @ A != I at (%d,%d): %r" % (i, j, v))
                    if any(isinstance(x, (float, np.floating)) for row in R for x in row):
                        raise AssertionError("float entries in the inverse of an exact matrix")
            except Exception as e:
                mon.failures.append("Linalg.invert: %s; matrix=%s" % (e, str([[str(x) for x in r] for r in matrix])[:400]))
            return res

        heavy.Linalg.invert = staticmethod(invert)
        return self

    def uninstall(self):
        self.heavy.Linalg.invert = staticmethod(self._invert)

    def obligations(self, tag, engine="mon"):
        if self.failures:
            return [ob("heavy.Linalg.invert:post[%s]" % tag, "heavy.Linalg.invert", FAILED, engine, "runtime-monitor", 0.0,
                       self.failures[0], None, {"monitor": True})]
        if self.calls:
            return [ob("heavy.Linalg.invert:post[%s]" % tag, "heavy.Linalg.invert", PROVED, engine, "runtime-monitor", 0.0,
                       "%d calls, each checked: inverse @ A == I exactly, no float entries (run-time monitor, not a proof)" % self.calls)]
        return []


def linear_form(sym, names):
    """Coefficients of a Sym that is linear in `names` (no constant term allowed unless const=True): -> {name: Fraction}, const"""
    e = sym.e
    ctx = sym.ctx
    if not e.denom.is_ground:
        raise ValueError("not polynomial")
    d = e.denom.LC
    idx = {n: ctx.names.index(n) for n in names}
    coefs = {n: F(0) for n in names}
    const = F(0)
    for mon, c in e.numer.terms():
        c = F(int(c.numerator), int(c.denominator)) / F(int(d.numerator), int(d.denominator))
        deg = sum(mon)
        if deg == 0:
            const += c
        elif deg == 1:
            k = mon.index(1)
            nm = ctx.names[k]
            if nm not in coefs:
                raise ValueError("depends on %s" % nm)
            coefs[nm] += c
        else:
            raise ValueError("not linear")
    return coefs, const


def quadratic_form(sym, names):
    """Symmetric matrix Q with sym == x^T Q x for x = names (pure quadratic), else ValueError."""
    e = sym.e
    ctx = sym.ctx
    if not e.denom.is_ground:
        raise ValueError("not polynomial")
    d = e.denom.LC
    pos = {ctx.names.index(n): i for i, n in enumerate(names)}
    n = len(names)
    Q = [[F(0)] * n for _ in range(n)]
    for mon, c in e.numer.terms():
        c = F(int(c.numerator), int(c.denominator)) / F(int(d.numerator), int(d.denominator))
        nz = [(k, ex) for k, ex in enumerate(mon) if ex]
        if sum(ex for _, ex in nz) != 2 or any(k not in pos for k, _ in nz):
            raise ValueError("not a pure quadratic form in the given symbols")
        if len(nz) == 1:
            i = pos[nz[0][0]]
            Q[i][i] += c
        else:
            i, j = pos[nz[0][0]], pos[nz[1][0]]
            Q[i][j] += c / 2
            Q[j][i] += c / 2
    return Q
