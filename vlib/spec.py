"""Ghost / spec functions.  Written from the mathematical definitions in the
property statements, independent of the library code.  Generic over the number
type: Fraction, vlib.symx.sym.Sym, or Poly (below) — only + - * / by numbers.
"""
from __future__ import annotations

from fractions import Fraction
from itertools import product


def iszero(x):
    z = getattr(x, "is_zero", None)
    if z is not None:
        return z() if callable(z) else bool(z)
    return x == 0


# --------------------------------------------------------------------------------------
# knot vectors (concrete numbers)
# --------------------------------------------------------------------------------------
def wf_degree(U):
    """Degree of a well-formed clamped vector (multiplicity of the first value - 1), or None."""
    U = list(U)
    if len(U) < 2:
        return None
    d = 0
    while d + 1 < len(U) and U[d + 1] == U[0]:
        d += 1
    return d


def WF(U, p=None):
    """The set of C03: non-decreasing, ends repeated exactly p+1 times, interior
    multiplicities <= p+1, len = p+n+1 with n > p."""
    U = list(U)
    L = len(U)
    if L < 2:
        return False
    if any(not (U[i] <= U[i + 1]) for i in range(L - 1)):
        return False
    if U[0] == U[-1]:
        return False
    if p is None:
        p = wf_degree(U)
    if p < 0:
        return False
    n = L - p - 1
    if not n > p:
        return False
    if U.count(U[0]) != p + 1 or U.count(U[-1]) != p + 1:
        return False
    for x in set(U):
        if U.count(x) > p + 1:
            return False
    return True


def msunion(U, nodes):
    return tuple(sorted(list(U) + list(nodes)))


def msdiff(U, nodes):
    L = list(U)
    for x in nodes:
        L.remove(x)
    return tuple(L)


def knots_of(U):
    out = []
    for x in U:
        if not out or out[-1] != x:
            out.append(x)
    return tuple(out)


def mult_of(U, x):
    return sum(1 for y in U if y == x)


def spec_span(U, p, u):
    """k with U[k] <= u < U[k+1]; the last non-empty span at umax."""
    n = len(U) - p - 1
    if not (U[p] <= u <= U[n]):
        raise ValueError("outside")
    if u == U[n]:
        return n - 1
    k = p
    while not (U[k] <= u < U[k + 1]):
        k += 1
    return k


# --------------------------------------------------------------------------------------
# Cox - de Boor
# --------------------------------------------------------------------------------------
def cdb(U, j, k, u):
    """[N_{i,j}(u) for i in range(len(U)-j-1)] where u lies in the span [U[k], U[k+1])
    (right-continuous; for the left limit at umax pass the last non-empty span).
    0/0 := 0.  U may hold Fractions or Syms; u any number-like."""
    m = len(U) - 1
    zero = 0 * u
    one = zero + 1
    N = [one if i == k else zero for i in range(m)]
    for d in range(1, j + 1):
        new = []
        for i in range(m - d):
            val = zero
            den1 = U[i + d] - U[i]
            if not iszero(den1):
                val = val + (u - U[i]) / den1 * N[i]
            den2 = U[i + d + 1] - U[i + 1]
            if not iszero(den2):
                val = val + (U[i + d + 1] - u) / den2 * N[i + 1]
            new.append(val)
        N = new
    return N


def basis(U, p, j, u, weights=None):
    """Concrete: [F_{i,j}(u) for i < npts] (rational if weights)."""
    k = spec_span(U, p, u)
    n = len(U) - p - 1
    N = cdb(U, j, k, u)[:n]
    if weights is None:
        return N
    den = sum(w * v for w, v in zip(weights, N))
    return [w * v / den for w, v in zip(weights, N)]


def curve_value(U, p, P, u, W=None):
    R = basis(U, p, p, u, W)
    acc = None
    for r, pt in zip(R, P):
        term = r * pt
        acc = term if acc is None else acc + term
    return acc


# --------------------------------------------------------------------------------------
# univariate polynomials over Q (exact integration / differentiation of the spec)
# --------------------------------------------------------------------------------------
class Poly:
    __slots__ = ("c",)

    def __init__(self, c=()):
        c = [Fraction(x) for x in c]
        while c and c[-1] == 0:
            c.pop()
        self.c = c

    @staticmethod
    def X():
        return Poly([0, 1])

    def is_zero(self):
        return not self.c

    def _co(self, o):
        if isinstance(o, Poly):
            return o
        if isinstance(o, (int, Fraction)):
            return Poly([o])
        return None

    def __add__(self, o):
        o = self._co(o)
        if o is None:
            return NotImplemented
        n = max(len(self.c), len(o.c))
        a = self.c + [0] * (n - len(self.c))
        b = o.c + [0] * (n - len(o.c))
        return Poly([x + y for x, y in zip(a, b)])

    __radd__ = __add__

    def __neg__(self):
        return Poly([-x for x in self.c])

    def __sub__(self, o):
        o = self._co(o)
        if o is None:
            return NotImplemented
        return self + (-o)

    def __rsub__(self, o):
        return (-self) + o

    def __mul__(self, o):
        o = self._co(o)
        if o is None:
            return NotImplemented
        if not self.c or not o.c:
            return Poly()
        r = [Fraction(0)] * (len(self.c) + len(o.c) - 1)
        for i, x in enumerate(self.c):
            if x:
                for j, y in enumerate(o.c):
                    r[i + j] += x * y
        return Poly(r)

    __rmul__ = __mul__

    def __truediv__(self, o):
        o = Fraction(o)
        return Poly([x / o for x in self.c])

    def __call__(self, x):
        r = Fraction(0)
        for c in reversed(self.c):
            r = r * x + c
        return r

    def deriv(self):
        return Poly([i * c for i, c in enumerate(self.c)][1:])

    def integ(self, a, b):
        F = Poly([0] + [c / (i + 1) for i, c in enumerate(self.c)])
        return F(b) - F(a)

    def degree(self):
        return len(self.c) - 1

    def __eq__(self, o):
        o = self._co(o)
        return o is not None and self.c == o.c

    def __repr__(self):
        return "Poly(%s)" % ([str(x) for x in self.c],)


def span_indices(U, p):
    """Indices k of the non-empty spans [U[k], U[k+1]) inside the interval."""
    n = len(U) - p - 1
    return [k for k in range(p, n) if U[k] < U[k + 1]]


def basis_polys(U, p, j=None):
    """{k: [Poly N_{i,j} on span k for i < npts]} for every non-empty span."""
    j = p if j is None else j
    n = len(U) - p - 1
    out = {}
    for k in span_indices(U, p):
        out[k] = cdb(list(U), j, k, Poly.X())[:n]
    return out


def gram(U, p, V, q):
    """Exact G[i][j] = integral of N_i^U * N_j^V over the common interval (polynomial bases)."""
    assert U[0] == V[0] and U[-1] == V[-1]
    cuts = sorted(set(U) | set(V))
    n, m = len(U) - p - 1, len(V) - q - 1
    G = [[Fraction(0)] * m for _ in range(n)]
    for a, b in zip(cuts[:-1], cuts[1:]):
        mid = (a + b) / 2
        ku, kv = spec_span(U, p, mid), spec_span(V, q, mid)
        NU = cdb(list(U), p, ku, Poly.X())[:n]
        NV = cdb(list(V), q, kv, Poly.X())[:m]
        for i in range(n):
            if NU[i].is_zero():
                continue
            for j in range(m):
                if NV[j].is_zero():
                    continue
                G[i][j] += (NU[i] * NV[j]).integ(a, b)
    return G


# --------------------------------------------------------------------------------------
# shapes
# --------------------------------------------------------------------------------------
def knot_shapes(pmax, max_interior, pmin=0):
    """(p, mults): mults[i] in 1..p+1 is the multiplicity of the i-th distinct interior knot."""
    out = []
    for p in range(pmin, pmax + 1):
        for m in range(0, max_interior + 1):
            for mults in product(range(1, p + 2), repeat=m):
                out.append((p, tuple(mults)))
    return out


def shape_vector(p, mults, knots):
    """knots: the len(mults)+2 distinct values (numbers or Syms)."""
    assert len(knots) == len(mults) + 2
    U = [knots[0]] * (p + 1)
    for k, m in zip(knots[1:-1], mults):
        U += [k] * m
    U += [knots[-1]] * (p + 1)
    return U


# --------------------------------------------------------------------------------------
# exact small linear algebra over Q
# --------------------------------------------------------------------------------------
def mat_solve(A, B):
    """Solve A X = B exactly (Fractions); A square non-singular; B matrix."""
    n = len(A)
    M = [[Fraction(x) for x in A[i]] + [Fraction(x) for x in B[i]] for i in range(n)]
    for c in range(n):
        piv = next((r for r in range(c, n) if M[r][c] != 0), None)
        if piv is None:
            raise ZeroDivisionError("singular")
        M[c], M[piv] = M[piv], M[c]
        pv = M[c][c]
        M[c] = [x / pv for x in M[c]]
        for r in range(n):
            if r != c and M[r][c] != 0:
                f = M[r][c]
                M[r] = [x - f * y for x, y in zip(M[r], M[c])]
    return [row[n:] for row in M]


def is_psd(Q):
    """Exact positive-semidefiniteness of a symmetric rational matrix (LDL^T with pivoting on zeros)."""
    n = len(Q)
    A = [[Fraction(Q[i][j] + Q[j][i]) / 2 for j in range(n)] for i in range(n)]
    idx = list(range(n))
    while idx:
        i = idx[0]
        d = A[i][i]
        if d < 0:
            return False
        if d == 0:
            if any(A[i][j] != 0 for j in idx):
                return False
            idx.pop(0)
            continue
        for r in idx[1:]:
            f = A[r][i] / d
            if f:
                for c in idx[1:]:
                    A[r][c] -= f * A[i][c]
        idx.pop(0)
    return True


# --------------------------------------------------------------------------------------
# change of basis between nested spline spaces (independent of the library: collocation + exact solve)
# --------------------------------------------------------------------------------------
def sample_params(U, p, per_span):
    out = []
    for k in span_indices(U, p):
        a, b = U[k], U[k + 1]
        for s in range(per_span):
            out.append(a + (b - a) * Fraction(2 * s + 1, 2 * per_span))
    return out


def collocation(U, p, params, W=None):
    return [basis(U, p, p, u, W) for u in params]


def refine_matrix(Uc, p, Uf, q):
    """T with (fine control points) = T @ (coarse control points), for a coarse polynomial spline space (Uc, p)
    contained in the fine one (Uf, q): least squares on q+1 samples per fine span, exact because of containment."""
    cuts = sorted(set(Uc) | set(Uf))
    params = []
    for a, b in zip(cuts[:-1], cuts[1:]):     # on each piece both curves are polynomials of degree <= q:
        for s_ in range(q + 1):              # agreement at q+1 points of every piece is agreement everywhere
            params.append(a + (b - a) * Fraction(2 * s_ + 1, 2 * (q + 1)))
    if q < p:
        raise ValueError("fine degree below coarse degree")
    Bf = collocation(Uf, q, params)
    Bc = collocation(Uc, p, params)
    nf, nc = len(Uf) - q - 1, len(Uc) - p - 1
    AtA = [[sum(Bf[r][i] * Bf[r][j] for r in range(len(params))) for j in range(nf)] for i in range(nf)]
    AtB = [[sum(Bf[r][i] * Bc[r][j] for r in range(len(params))) for j in range(nc)] for i in range(nf)]
    T = mat_solve(AtA, AtB)
    # containment check: residual must vanish
    for r in range(len(params)):
        for j in range(nc):
            if sum(Bf[r][i] * T[i][j] for i in range(nf)) != Bc[r][j]:
                raise ValueError("coarse space is not contained in the fine space")
    return T


def matmul(A, B):
    return [[sum(A[i][k] * B[k][j] for k in range(len(B))) for j in range(len(B[0]))] for i in range(len(A))]


def transpose(A):
    return [list(r) for r in zip(*A)]


def elevate_vector(U, p, t):
    """Each distinct knot's multiplicity raised by t."""
    out = []
    for x in knots_of(U):
        out += [x] * (mult_of(U, x) + t)
    return out


def residual_form(Uc, pc, Uf, pf, T):
    """Matrix R with P^T R P = integral (C - D)^2 where C = sum P_i N_i on (Uc,pc), D = sum (TP)_j M_j on (Uf,pf)."""
    A = gram(Uc, pc, Uc, pc)
    B = gram(Uf, pf, Uc, pc)      # new x old
    C = gram(Uf, pf, Uf, pf)
    Tt = transpose(T)
    TtB = matmul(Tt, B)
    TtCT = matmul(matmul(Tt, C), T)
    n = len(A)
    return [[A[i][j] - TtB[i][j] - TtB[j][i] + TtCT[i][j] for j in range(n)] for i in range(n)]


def negative_direction(D):
    """A rational vector v with v^T D v < 0 for a symmetric rational matrix that is not PSD (None if PSD)."""
    import numpy as np
    n = len(D)
    if is_psd(D):
        return None
    A = np.array([[float(D[i][j] + D[j][i]) / 2 for j in range(n)] for i in range(n)])
    w, V = np.linalg.eigh(A)
    cands = [V[:, 0]] + [np.eye(n)[i] for i in range(n)]
    for i in range(n):
        for j in range(i + 1, n):
            for s in (1, -1):
                e = np.zeros(n)
                e[i], e[j] = 1, s
                cands.append(e)
    for c in cands:
        scale = max(abs(c)) or 1
        v = [Fraction(int(round(x / scale * 1000)), 1000) for x in c]
        q = sum(v[i] * D[i][j] * v[j] for i in range(n) for j in range(n))
        if q < 0:
            return v
    return None


def isqrt_floor_fraction(x, digits=12):
    """A rational r > 0 with r*r <= x (x > 0), accurate to `digits` decimal digits."""
    from math import isqrt
    x = Fraction(x)
    s = 10 ** digits
    r = Fraction(isqrt((x.numerator * s * s) // x.denominator), s)
    while r * r > x:
        r -= Fraction(1, s)
    return r


def null_space(A, ncols=None):
    """Basis (list of vectors) of {v : A v = 0} over Q."""
    rows = [[Fraction(x) for x in r] for r in A]
    n = ncols if ncols is not None else (len(rows[0]) if rows else 0)
    piv = []
    r = 0
    for c in range(n):
        pr = next((i for i in range(r, len(rows)) if rows[i][c] != 0), None)
        if pr is None:
            continue
        rows[r], rows[pr] = rows[pr], rows[r]
        pv = rows[r][c]
        rows[r] = [x / pv for x in rows[r]]
        for i in range(len(rows)):
            if i != r and rows[i][c] != 0:
                f = rows[i][c]
                rows[i] = [x - f * y for x, y in zip(rows[i], rows[r])]
        piv.append(c)
        r += 1
    free = [c for c in range(n) if c not in piv]
    basis_ = []
    for f in free:
        v = [Fraction(0)] * n
        v[f] = Fraction(1)
        for i, c in enumerate(piv):
            v[c] = -rows[i][f]
        basis_.append(v)
    return basis_
