"""Ghost / spec functions.  Written from the mathematical definitions in the
property statements, independent of the library code.  Generic over the number
type: Fraction, vlib.symx.sym.Sym, or Poly (below) — only + - * / by numbers.
"""
from __future__ import annotations

from fractions import Fraction
from itertools import product


def iszero(x):
    z = getattr(x, "is_zero", None)
    if z is not None:
        return z() if callable(z) else bool(z)
    return x == 0


# --------------------------------------------------------------------------------------
# knot vectors (concrete numbers)
# --------------------------------------------------------------------------------------
def wf_degree(U):
    """Degree of a well-formed clamped vector (multiplicity of the first value - 1), or None."""
    U = list(U)
    if len(U) < 2:
        return None
    d = 0
    while d + 1 < len(U) and U[d + 1] == U[0]:
        d += 1
    return d


def WF(U, p=None):
    """The set of C03: non-decreasing, ends repeated exactly p+1 times, interior
    multiplicities <= p+1, len = p+n+1 with n > p."""
    U = list(U)
    L = len(U)
    if L < 2:
        return False
    if any(not (U[i] <= U[i + 1]) for i in range(L - 1)):
        return False
    if U[0] == U[-1]:
        return False
    if p is None:
        p = wf_degree(U)
    if p < 0:
        return False
    n = L - p - 1
    if not n > p:
        return False
    if U.count(U[0]) != p + 1 or U.count(U[-1]) != p + 1:
        return False
    for x in set(U):
        if U.count(x) > p + 1:
            return False
    return True


def msunion(U, nodes):
    return tuple(sorted(list(U) + list(nodes)))


def msdiff(U, nodes):
    L = list(U)
    for x in nodes:
        L.remove(x)
    return tuple(L)


def knots_of(U):
    out = []
    for x in U:
        if not out or out[-1] != x:
            out.append(x)
    return tuple(out)


def mult_of(U, x):
    return sum(1 for y in U if y == x)


def spec_span(U, p, u):
    """k with U[k] <= u < U[k+1]; the last non-empty span at umax."""
    n = len(U) - p - 1
    if not (U[p] <= u <= U[n]):
        raise ValueError("outside")
    if u == U[n]:
        return n - 1
    k = p
    while not (U[k] <= u < U[k + 1]):
        k += 1
    return k


# --------------------------------------------------------------------------------------
# Cox - de Boor
# --------------------------------------------------------------------------------------
def cdb(U, j, k, u):
    """[N_{i,j}(u) for i in range(len(U)-j-1)] where u lies in the span [U[k], U[k+1])
    (right-continuous; for the left limit at umax pass the last non-empty span).
    0/0 := 0.  U may hold Fractions or Syms; u any number-like."""
    m = len(U) - 1
    zero = 0 * u
    one = zero + 1
    N = [one if i == k else zero for i in range(m)]
    for d in range(1, j + 1):
        new = []
        for i in range(m - d):
            val = zero
            den1 = U[i + d] - U[i]
            if not iszero(den1):
                val = val + (u - U[i]) / den1 * N[i]
            den2 = U[i + d + 1] - U[i + 1]
            if not iszero(den2):
                val = val + (U[i + d + 1] - u) / den2 * N[i + 1]
            new.append(val)
        N = new
    return N


def basis(U, p, j, u, weights=None):
    """Concrete: [F_{i,j}(u) for i < npts] (rational if weights)."""
    k = spec_span(U, p, u)
    n = len(U) - p - 1
    N = cdb(U, j, k, u)[:n]
    if weights is None:
        return N
    den = sum(w * v for w, v in zip(weights, N))
    return [w * v / den for w, v in zip(weights, N)]


def curve_value(U, p, P, u, W=None):
    R = basis(U, p, p, u, W)
    acc = None
    for r, pt in zip(R, P):
        term = r * pt
        acc = term if acc is None else acc + term
    return acc


# --------------------------------------------------------------------------------------
# univariate polynomials over Q (exact integration / differentiation of the spec)
# --------------------------------------------------------------------------------------
class Poly:
    __slots__ = ("c",)

    def __init__(self, c=()):
        c = [Fraction(x) for x in c]
        while c and c[-1] == 0:
            c.pop()
        self.c = c

    @staticmethod
    def X():
        return Poly([0, 1])

    def is_zero(self):
        return not self.c

    def _co(self, o):
        if isinstance(o, Poly):
            return o
        if isinstance(o, (int, Fraction)):
            return Poly([o])
        return None

    def __add__(self, o):
        o = self._co(o)
        if o is None:
            return NotImplemented
        n = max(len(self.c), len(o.c))
        a = self.c + [0] * (n - len(self.c))
        b = o.c + [0] * (n - len(o.c))
        return Poly([x + y for x, y in zip(a, b)])

    __radd__ = __add__

    def __neg__(self):
        return Poly([-x for x in self.c])

    def __sub__(self, o):
        o = self._co(o)
        if o is None:
            return NotImplemented
        return self + (-o)

    def __rsub__(self, o):
        return (-self) + o

    def __mul__(self, o):
        o = self._co(o)
        if o is None:
            return NotImplemented
        if not self.c or not o.c:
            return Poly()
        r = [Fraction(0)] * (len(self.c) + len(o.c) - 1)
        for i, x in enumerate(self.c):
            if x:
                for j, y in enumerate(o.c):
                    r[i + j] += x * y
        return Poly(r)

    __rmul__ = __mul__

    def __truediv__(self, o):
        o = Fraction(o)
        return Poly([x / o for x in self.c])

    def __call__(self, x):
        r = Fraction(0)
        for c in reversed(self.c):
            r = r * x + c
        return r

    def deriv(self):
        return Poly([i * c for i, c in enumerate(self.c)][1:])

    def integ(self, a, b):
        F = Poly([0] + [c / (i + 1) for i, c in enumerate(self.c)])
        return F(b) - F(a)

    def degree(self):
        return len(self.c) - 1

    def __eq__(self, o):
        o = self._co(o)
        return o is not None and self.c == o.c

    def __repr__(self):
        return "Poly(%s)" % ([str(x) for x in self.c],)


def span_indices(U, p):
    """Indices k of the non-empty spans [U[k], U[k+1]) inside the interval."""
    n = len(U) - p - 1
    return [k for k in range(p, n) if U[k] < U[k + 1]]


def basis_polys(U, p, j=None):
    """{k: [Poly N_{i,j} on span k for i < npts]} for every non-empty span."""
    j = p if j is None else j
    n = len(U) - p - 1
    out = {}
    for k in span_indices(U, p):
        out[k] = cdb(list(U), j, k, Poly.X())[:n]
    return out


def gram(U, p, V, q):
    """Exact G[i][j] = integral of N_i^U * N_j^V over the common interval (polynomial bases)."""
    assert U[0] == V[0] and U[-1] == V[-1]
    cuts = sorted(set(U) | set(V))
    n, m = len(U) - p - 1, len(V) - q - 1
    G = [[Fraction(0)] * m for _ in range(n)]
    for a, b in zip(cuts[:-1], cuts[1:]):
        mid = (a + b) / 2
        ku, kv = spec_span(U, p, mid), spec_span(V, q, mid)
        NU = cdb(list(U), p, ku, Poly.X())[:n]
        NV = cdb(list(V), q, kv, Poly.X())[:m]
        for i in range(n):
            if NU[i].is_zero():
                continue
            for j in range(m):
                if NV[j].is_zero():
                    continue
                G[i][j] += (NU[i] * NV[j]).integ(a, b)
    return G


# --------------------------------------------------------------------------------------
# shapes
# --------------------------------------------------------------------------------------
def knot_shapes(pmax, max_interior, pmin=0):
    """(p, mults): mults[i] in 1..p+1 is the multiplicity of the i-th distinct interior knot."""
    out = []
    for p in range(pmin, pmax + 1):
        for m in range(0, max_interior + 1):
            for mults in product(range(1, p + 2), repeat=m):
                out.append((p, tuple(mults)))
    return out


def shape_vector(p, mults, knots):
    """knots: the len(mults)+2 distinct values (numbers or Syms)."""
    assert len(knots) == len(mults) + 2
    U = [knots[0]] * (p + 1)
    for k, m in zip(knots[1:-1], mults):
        U += [k] * m
    U += [knots[-1]] * (p + 1)
    return U


# --------------------------------------------------------------------------------------
# exact small linear algebra over Q
# --------------------------------------------------------------------------------------
def mat_solve(A, B):
    """Solve A X = B exactly (Fractions); A square non-singular; B matrix."""
    n = len(A)
    M = [[Fraction(x) for x in A[i]] + [Fraction(x) for x in B[i]] for i in range(n)]
    for c in range(n):
        piv = next((r for r in range(c, n) if M[r][c] != 0), None)
        if piv is None:
            raise ZeroDivisionError("singular")
        M[c], M[piv] = M[piv], M[c]
        pv = M[c][c]
        M[c] = [x / pv for x in M[c]]
        for r in range(n):
            if r != c and M[r][c] != 0:
                f = M[r][c]
                M[r] = [x - f * y for x, y in zip(M[r], M[c])]
    return [row[n:] for row in M]


def is_psd(Q):
    """Exact positive-semidefiniteness of a symmetric rational matrix (LDL^T with pivoting on zeros)."""
    n = len(Q)
    A = [[Fraction(Q[i][j] + Q[j][i]) / 2 for j in range(n)] for i in range(n)]
    idx = list(range(n))
    while idx:
        i = idx[0]
        d = A[i][i]
        if d < 0:
            return False
        if d == 0:
            if any(A[i][j] != 0 for j in idx):
                return False
            idx.pop(0)
            continue
        for r in idx[1:]:
            f = A[r][i] / d
            if f:
                for c in idx[1:]:
                    A[r][c] -= f * A[i][c]
        idx.pop(0)
    return True
