"""Sidecar contracts (engine V) for the NON-in-place operators of knotspace.KnotVector (C17, C15, C18): `a + x`, `a - x`, `a * s`, `s * a`, `a / s`,
`a | b`, `a & b`, copy(a), deepcopy(a) return a NEW object and leave the operand's payload in place, for all vectors and arguments."""
from __future__ import annotations

import z3

from ..pyvc import engine as E
from ..pyvc.engine import BoolV, CallSpec, Contract, Num, Obj, Seq, Tup, fresh_int
from . import facade as Fc
from .facade import FIELD, METHOD_CALLS, UNCHANGED, facade_self, hint_same_degree, internal_of, mk
from .kv import ctor, new_kv, wf_z3


def h_new_facade(eng, st, args, kw, node, exits):
    """self.__class__(sequence): a new KnotVector whose payload is the constructor's result on that sequence (same elements; proved: SET_INTERNAL / NEW)."""
    hint = eng.c.spec.get("ctor_hint")
    ikv = ctor(eng, st, args[0], node, exits, hint(eng, st, args[0]) if hint else None, label="KnotVector()")
    o = Obj("KnotVector", {FIELD: ikv})
    return o


def h_deepcopy(eng, st, args, kw, node, exits):
    """deepcopy(x): a number is returned as an equal number (A2); a KnotVector by the contract proved as DEEPCOPY: a NEW KnotVector whose NEW payload
    has the same elements, degree and npts."""
    v = args[0]
    if isinstance(v, (Num, BoolV)):
        return v
    if isinstance(v, Obj) and v.cls == "KnotVector":
        old = internal_of(v)
        U = old.fields["_seq"]
        r = E.fresh_seq("copied")
        i = fresh_int("i")
        st.assume(r.n == U.n)
        st.assume(z3.ForAll([i], z3.Implies(z3.And(i >= 0, i < U.n), z3.Select(r.arr, i) == z3.Select(U.arr, i)), patterns=[z3.Select(r.arr, i)]))
        p, n = old.fields["_ImmutableKnotVector__degree"].z, old.fields["_ImmutableKnotVector__npts"].z
        new = Obj("ImmutableKnotVector", {"_seq": r, "_ImmutableKnotVector__degree": Num(p, True), "_ImmutableKnotVector__npts": Num(n, True)})
        for f in wf_z3(r.arr, r.n, p, n):
            st.assume(f)
        return Obj("KnotVector", {FIELD: new})
    raise E.Unsupported("deepcopy(%r)" % (v,))


def h_inplace(name):
    """x.__iadd__(y) etc. by the contracts proved in facade.py (IADD_*, ISUB_*, IMUL, ITRUEDIV, IOR, IAND): the receiver gets a new payload and is
    returned, or an exception leaves it unchanged."""
    def h(eng, st, args, kw, node, exits):
        obj, other = args
        if name in ("__iadd__", "__isub__"):
            if isinstance(other, Num):
                val = other if name == "__iadd__" else Num(-other.real(), False)
                return Fc.h_shift_method(eng, st, [obj, val], kw, node, exits)
            return (Fc.h_insert_method if name == "__iadd__" else Fc.h_remove_method)(eng, st, [obj, other], kw, node, exits)
        if name == "__imul__":
            return Fc.h_scale_method(eng, st, [obj, other], kw, node, exits)
        if name == "__itruediv__":
            eng.raise_exc(st, "ZeroDivisionError", other.real() == 0, node.lineno, exits)
            return Fc.h_scale_method(eng, st, [obj, Num(1 / other.real(), False)], kw, node, exits)
        if name in ("__ior__", "__iand__"):
            new = Fc.h_or_ikv(eng, st, [internal_of(obj), other], kw, node, exits)
            obj.fields[FIELD] = new
            st.env["LAST_NEW"] = new
            return obj
        raise E.Unsupported(name)
    return h


OP_CALLS = dict(METHOD_CALLS)
OP_CALLS.update({"func:deepcopy": CallSpec(h_deepcopy), "call:self.__class__": CallSpec(h_new_facade)})
for _n in ("__iadd__", "__isub__", "__imul__", "__itruediv__", "__ior__", "__iand__"):
    OP_CALLS["method:KnotVector." + _n] = CallSpec(h_inplace(_n))

NEW_OBJECT = ["not same(result, self)", "same(self.internal, OLD)", "not same(result.internal, OLD)"]

DEEPCOPY = mk("__deepcopy__", params={"self": "obj:KnotVector", "memo": "any"}, calls=OP_CALLS, spec={"ctor_hint": hint_same_degree},
              ensures=NEW_OBJECT + ["len(result.internal.U) == len(U)", "all(result.internal.U[i] == U[i] for i in range(len(U)))", "result.internal.p == p"],
              raises={}, exc_ensures={"*": UNCHANGED}, canary="same(result, self)")


def h_deepcopy_method(eng, st, args, kw, node, exits):
    return h_deepcopy(eng, st, [args[0]], kw, node, exits)


OP_CALLS["method:KnotVector.__deepcopy__"] = CallSpec(h_deepcopy_method)
COPY = mk("__copy__", params={"self": "obj:KnotVector"}, calls=OP_CALLS,
          ensures=NEW_OBJECT + ["len(result.internal.U) == len(U)", "all(result.internal.U[i] == U[i] for i in range(len(U)))"],
          raises={}, exc_ensures={"*": UNCHANGED}, canary="same(result, self)")

ADD_NUMBER = mk("__add__[number]", params={"self": "obj:KnotVector", "other": "real"}, calls=OP_CALLS,
                ensures=NEW_OBJECT + ["all(result.internal.U[i] == U[i] + other for i in range(len(U)))", "len(result.internal.U) == len(U)"],
                raises={}, exc_ensures={"*": UNCHANGED}, canary="same(result, self)")
ADD_NODES = mk("__add__[nodes]", params={"self": "obj:KnotVector", "other": "seq"}, calls=OP_CALLS,
               ensures=NEW_OBJECT + ["len(result.internal.U) == len(U) + len(other)"], raises={"ValueError": None}, exc_ensures={"*": UNCHANGED},
               canary="same(result, self)")
SUB_NUMBER = mk("__sub__[number]", params={"self": "obj:KnotVector", "other": "real"}, calls=OP_CALLS,
                ensures=NEW_OBJECT + ["all(result.internal.U[i] == U[i] - other for i in range(len(U)))"], raises={}, exc_ensures={"*": UNCHANGED},
                canary="same(result, self)")
SUB_NODES = mk("__sub__[nodes]", params={"self": "obj:KnotVector", "other": "seq"}, calls=OP_CALLS,
               ensures=NEW_OBJECT + ["len(result.internal.U) == len(U) - len(other)"], raises={"ValueError": None}, exc_ensures={"*": UNCHANGED},
               canary="same(result, self)")
MUL = mk("__mul__", params={"self": "obj:KnotVector", "other": "real"}, calls=OP_CALLS,
         ensures=NEW_OBJECT + ["other > 0", "all(result.internal.U[i] == U[i] * other for i in range(len(U)))"],
         raises={"AssertionError": "other <= 0"}, exc_ensures={"*": UNCHANGED}, canary="same(result, self)")
RMUL = mk("__rmul__", params={"self": "obj:KnotVector", "other": "real"}, calls=OP_CALLS,
          ensures=NEW_OBJECT + ["other > 0", "all(result.internal.U[i] == U[i] * other for i in range(len(U)))"],
          raises={"AssertionError": "other <= 0"}, exc_ensures={"*": UNCHANGED}, canary="same(result, self)")
TRUEDIV = mk("__truediv__", params={"self": "obj:KnotVector", "other": "real"}, calls=OP_CALLS,
             ensures=NEW_OBJECT + ["other > 0", "all(result.internal.U[i] == U[i] * (1 / other) for i in range(len(U)))"],
             raises={"AssertionError": "other <= 0", "ZeroDivisionError": "other == 0"}, exc_ensures={"*": UNCHANGED}, canary="same(result, self)")
OR = mk("__or__", params={"self": "obj:KnotVector", "other": "any"}, calls=OP_CALLS,
        ensures=NEW_OBJECT + ["result.internal.U[0] == U[0]"], raises={"ValueError": None}, exc_ensures={"*": UNCHANGED}, canary="same(result, self)")
AND = mk("__and__", params={"self": "obj:KnotVector", "other": "any"}, calls=OP_CALLS,
         ensures=NEW_OBJECT + ["result.internal.U[0] == U[0]"], raises={"ValueError": None}, exc_ensures={"*": UNCHANGED}, canary="same(result, self)")

ALL = [(c, "knotspace", "KnotVector." + c.name.split(".")[-1].split("[")[0], None) for c in
       (DEEPCOPY, COPY, ADD_NUMBER, ADD_NODES, SUB_NUMBER, SUB_NODES, MUL, RMUL, TRUEDIV, OR, AND)]
