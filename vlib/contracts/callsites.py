"""Call-site contracts of the kv-level contract modules (heavy / knotspace / functions) whose callee is itself under an engine-V contract:
registry of (handler, callee contract) pairs for pyvc/conform.py, and the hook that adds, to any list of verify tasks, the conformance tasks of
every registered handler those contracts may use plus the verify tasks of the callee contracts (a caller's proof rests on the callee's contract).

Pairs that are NOT listed stay assumptions (A10) and are named in ASSUMED below: their handlers state more than the callee's engine-V contract
proves (e.g. `mult` as a contiguous block of equal elements: the callee contract only names the count by a ghost function), or the conformance
query is beyond the solver budget at this abstraction (the facade's `internal ± nodes`, `|`, `&`, insert / remove / scale)."""
from __future__ import annotations

from . import facade, kv, kvquery, misc


def _h(table, key):
    return table[key]._h


K = kv.KV_CALLS
# (label, handler, [(callee contract, module, qualname, variant)], nargs, kw, ghosts)
PAIRS = [
    ("knotvector.degree", _h(K, "getattr:ImmutableKnotVector.degree"), [(kv.DEGREE, "heavy", "ImmutableKnotVector.degree", None)], None, None, ()),
    ("knotvector.npts", _h(K, "getattr:ImmutableKnotVector.npts"), [(kv.NPTS, "heavy", "ImmutableKnotVector.npts", None)], None, None, ()),
    ("knotvector.limits", _h(K, "getattr:ImmutableKnotVector.limits"), [(kv.LIMITS, "heavy", "ImmutableKnotVector.limits", None)], None, None, ()),
    ("self.__valid_single(node)", kvquery.h_valid_single, [(kv.VALID_SINGLE, "heavy", "ImmutableKnotVector.__valid_single", None)], None, None, ()),
    ("self.__span_single(node)", kvquery.h_span_single, [(kv.SPAN_SINGLE, "heavy", "ImmutableKnotVector.__span_single", None)], None, None, ("SPAN_OF",)),
    ("knotvector.span(node)", misc.h_span, [(kvquery.SPAN_SCALAR, "heavy", "ImmutableKnotVector.span", None)], None, None, ()),
    ("self.valid(node | nodes)", kvquery.h_valid_rec, [(kvquery.VALID_SCALAR, "heavy", "ImmutableKnotVector.valid", None), (kvquery.VALID_SEQ, "heavy", "ImmutableKnotVector.valid", None)], None, None, ()),
    ("Math.factorial(n)", _h(misc.COMB.calls, "static:Math.factorial"), [(misc.FACTORIAL, "heavy", "Math.factorial", None)], None, None, ()),
    ("knotvector.shift(value)", _h(facade.METHOD_CALLS, "method:KnotVector.shift"), [(facade.SHIFT, "knotspace", "KnotVector.shift", None)], None, None, ()),
    ("self.internal = instance", _h(facade.FACADE_CALLS, "setattr:KnotVector.internal"), [(facade.SET_INTERNAL_INSTANCE, "knotspace", "KnotVector.internal", "internal.setter")], None, None, ()),
]
for _p in PAIRS:
    try:
        _p[1].checked_against_callee = True
    except AttributeError:
        pass
ASSUMED = [
    "ImmutableKnotVector.mult as a contiguous block (misc.h_mult, kvor.h_mult): the callee contract names the count by a ghost function only (A10)",
    "ImmutableKnotVector.__get_unique (kvnew / kvor): increasing distinct values under A3 (A10)",
    "internal + nodes, internal - nodes, internal | other, internal & other as seen by the KnotVector facade (facade.h_add_ikv / h_sub_ikv / h_or_ikv): the "
    "callee contracts kv.ADD / kv.SUB / kvor are proved, the conformance query (class invariant of the result + quantified multiset facts) is not decided within budget",
    "KnotVector.insert / remove / scale / normalize and the in-place operators as seen by facade2 and gens: callee contracts proved (facade.py), conformance not run "
    "(their exceptional-exit clauses are stated with another spelling of `unchanged`)",
    "Calculus.difference_vector as seen by difference_matrix, GeneratorKnotVector.integer / weight as seen by uniform / random: callee contracts proved, conformance not run",
]


def extend(tasks):
    """tasks: the (function, args) list of a check.  Adds the conformance tasks of every registered handler that a contract among the verify tasks may
    use, and verify tasks for callee contracts that are not in the list yet."""
    from ..pyvc.driver import verify, verify_callsite
    contracts = [a[0] for f, a in tasks if f is verify]
    have = {c.name for c in contracts}
    used = set()
    for c in contracts:
        for spec in c.calls.values():
            used.add(id(spec._h))
    extra = []
    for label, h, callees, nargs, kw, ghosts in PAIRS:
        if id(h) not in used:
            continue
        for cc, m, q, v in callees:
            extra.append((verify_callsite, (label, h, cc, m, q, v, nargs, kw, ghosts)))
            if cc.name not in have:
                have.add(cc.name)
                extra.append((verify, (cc, m, q, v)))
    return list(tasks) + extra
