"""Call-site contracts of the kv-level contract modules (heavy / knotspace / functions) whose callee is itself under an engine-V contract:
registry of (handler, callee contract) pairs for pyvc/conform.py, and the hook that adds, to any list of verify tasks, the conformance tasks of
every registered handler those contracts may use plus the verify tasks of the callee contracts (a caller's proof rests on the callee's contract).

Pairs that are NOT listed stay assumptions (A10) and are named in ASSUMED below: their handlers state more than the callee's engine-V contract
proves (e.g. `mult` as a contiguous block of equal elements: the callee contract only names the count by a ghost function), or the conformance
query is beyond the solver budget at this abstraction."""
from __future__ import annotations

from . import facade, facade2, gens, kv, kvquery, misc


def _ikv_invariant(o):
    """Every ImmutableKnotVector object satisfies WF: `__new__` accepts exactly the well-formed vectors (kvnew.NEW_*, proved) and nothing writes the payload afterwards."""
    U = o.fields["_seq"]
    return kv.wf_z3(U.arr, U.n, o.fields["_ImmutableKnotVector__degree"].z, o.fields["_ImmutableKnotVector__npts"].z)


from ..pyvc import conform as _conform
_conform.CLASS_INVARIANTS["ImmutableKnotVector"] = _ikv_invariant


def _h(table, key):
    return table[key]._h


K = kv.KV_CALLS
# (label, handler, [(callee contract, module, qualname, variant)], nargs, kw, ghosts)
PAIRS = [
    ("knotvector.degree", _h(K, "getattr:ImmutableKnotVector.degree"), [(kv.DEGREE, "heavy", "ImmutableKnotVector.degree", None)], None, None, ()),
    ("knotvector.npts", _h(K, "getattr:ImmutableKnotVector.npts"), [(kv.NPTS, "heavy", "ImmutableKnotVector.npts", None)], None, None, ()),
    ("knotvector.limits", _h(K, "getattr:ImmutableKnotVector.limits"), [(kv.LIMITS, "heavy", "ImmutableKnotVector.limits", None)], None, None, ()),
    ("self.__valid_single(node)", kvquery.h_valid_single, [(kv.VALID_SINGLE, "heavy", "ImmutableKnotVector.__valid_single", None)], None, None, ()),
    ("self.__span_single(node)", kvquery.h_span_single, [(kv.SPAN_SINGLE, "heavy", "ImmutableKnotVector.__span_single", None)], None, None, ("SPAN_OF",)),
    ("knotvector.span(node)", misc.h_span, [(kvquery.SPAN_SCALAR, "heavy", "ImmutableKnotVector.span", None)], None, None, ()),
    ("self.valid(node | nodes)", kvquery.h_valid_rec, [(kvquery.VALID_SCALAR, "heavy", "ImmutableKnotVector.valid", None), (kvquery.VALID_SEQ, "heavy", "ImmutableKnotVector.valid", None)], None, None, ()),
    ("Math.factorial(n)", _h(misc.COMB.calls, "static:Math.factorial"), [(misc.FACTORIAL, "heavy", "Math.factorial", None)], None, None, ()),
    ("knotvector.shift(value)", _h(facade.METHOD_CALLS, "method:KnotVector.shift"), [(facade.SHIFT, "knotspace", "KnotVector.shift", None)], None, None, ()),
    ("self.internal = instance", _h(facade.FACADE_CALLS, "setattr:KnotVector.internal"), [(facade.SET_INTERNAL_INSTANCE, "knotspace", "KnotVector.internal", "internal.setter")], None, None, ()),
    # the facade's view of the payload operators, and the facade's own methods as seen by their callers (arbitrary payload objects satisfy the class invariant WF)
    ("internal + nodes", _h(facade.FACADE_CALLS, "binop:Add:ImmutableKnotVector"), [(kv.ADD, "heavy", "ImmutableKnotVector.__add__", None)], None, None, ()),
    ("internal - nodes", _h(facade.FACADE_CALLS, "binop:Sub:ImmutableKnotVector"), [(kv.SUB, "heavy", "ImmutableKnotVector.__sub__", None)], None, None, ()),
    ("knotvector.scale(value)", _h(facade.METHOD_CALLS, "method:KnotVector.scale"), [(facade.SCALE, "knotspace", "KnotVector.scale", None)], None, None, ()),
    ("knotvector.insert(nodes)", _h(facade.METHOD_CALLS, "method:KnotVector.insert"), [(facade.INSERT, "knotspace", "KnotVector.insert", None)], None, None, ()),
    ("knotvector.remove(nodes)", _h(facade.METHOD_CALLS, "method:KnotVector.remove"), [(facade.REMOVE, "knotspace", "KnotVector.remove", None)], None, None, ()),
    ("knotvector.normalize()", _h(gens.COMPOSED_CALLS, "method:KnotVector.normalize"), [(facade.NORMALIZE, "knotspace", "KnotVector.normalize", None)], None, None, ()),
    ("GeneratorKnotVector.integer(p, n, cls)", _h(gens.COMPOSED_CALLS, "static:GeneratorKnotVector.integer"), [(gens.INTEGER, "knotspace", "GeneratorKnotVector.integer", None)], None, None, ()),
    ("GeneratorKnotVector.weight(p, w)", _h(gens.COMPOSED_CALLS, "static:GeneratorKnotVector.weight"), [(gens.WEIGHT, "knotspace", "GeneratorKnotVector.weight", None)], None, None, ()),
    ("Calculus.difference_vector(knotvector)", misc.h_difference_vector, [(misc.DIFFERENCE_VECTOR, "heavy", "Calculus.difference_vector", None)], None, None, ()),
    ("copy.__iadd__(nodes)", _h(facade2.OP_CALLS, "method:KnotVector.__iadd__"), [(facade.IADD_NODES, "knotspace", "KnotVector.__iadd__", None)], None, None, ()),
    ("copy.__isub__(nodes)", _h(facade2.OP_CALLS, "method:KnotVector.__isub__"), [(facade.ISUB_NODES, "knotspace", "KnotVector.__isub__", None)], None, None, ()),
    ("copy.__ior__(other)", _h(facade2.OP_CALLS, "method:KnotVector.__ior__"), [(facade.IOR, "knotspace", "KnotVector.__ior__", None)], None, None, ()),
    ("copy.__iand__(other)", _h(facade2.OP_CALLS, "method:KnotVector.__iand__"), [(facade.IAND, "knotspace", "KnotVector.__iand__", None)], None, None, ()),
]
for _p in PAIRS:
    try:
        _p[1].checked_against_callee = True
    except AttributeError:
        pass
ASSUMED = [
    "ImmutableKnotVector.mult as a contiguous block (misc.h_mult, kvor.h_mult): the callee contract names the count by a ghost function only (A10)",
    "ImmutableKnotVector.__get_unique (kvnew / kvor): increasing distinct values under A3 (A10)",
    "internal | other, internal & other as seen by the KnotVector facade (facade.h_or_ikv): callee contracts proved in kvor.py at another abstraction (ghost multiplicity functions); conformance not run",
    "internal = sequence (the constructor as seen by the internal setter), copy.__imul__ / __itruediv__ as seen by the non-in-place operators: callee contracts proved, the conformance query "
    "was not decided within 150 s (nonlinear scaling facts under quantifiers)",
]


def extend(tasks):
    """tasks: the (function, args) list of a check.  Adds the conformance tasks of every registered handler that a contract among the verify tasks may
    use, and verify tasks for callee contracts that are not in the list yet."""
    from ..pyvc.driver import verify, verify_callsite
    contracts = [a[0] for f, a in tasks if f is verify]
    have = {c.name for c in contracts}
    used = set()
    for c in contracts:
        for spec in c.calls.values():
            used.add(id(spec._h))
    extra = []
    for label, h, callees, nargs, kw, ghosts in PAIRS:
        if id(h) not in used:
            continue
        for cc, m, q, v in callees:
            extra.append((verify_callsite, (label, h, cc, m, q, v, nargs, kw, ghosts)))
            if cc.name not in have:
                have.add(cc.name)
                extra.append((verify, (cc, m, q, v)))
    return list(tasks) + extra
