"""Sidecar contracts (engine V) for the mutable facade knotspace.KnotVector: every mutator rebinds the immutable payload only
after the new payload exists, so a raising request leaves the object unchanged (atomicity, for all vectors and arguments)."""
from __future__ import annotations

import z3

from ..pyvc import engine as E
from ..pyvc.engine import BoolV, CallSpec, Contract, Num, Obj, Seq, Tup, fresh_int, fresh_real
from .kv import KV_CALLS, ctor, kv_self, new_kv, sorted_z3, wf_z3

FIELD = "_KnotVector__internal"


def facade_self(eng, st):
    ikv = kv_self(eng, st, name="ikv")
    st.env["self"] = Obj("KnotVector", {FIELD: ikv})
    st.env["OLD"] = ikv


def internal_of(o):
    return o.fields[FIELD]


def h_set_internal(eng, st, args, kw, node, exits):
    """Contract of the `internal` setter (verified below): a non-instance is passed through the constructor first (may raise, nothing written)."""
    obj, val = args
    if not (isinstance(val, Obj) and val.cls == "ImmutableKnotVector"):
        val = ctor(eng, st, val, node, exits, label="internal.setter")
    obj.fields[FIELD] = val
    st.env["LAST_NEW"] = val
    return E.NONE


def h_ctor(eng, st, args, kw, node, exits):
    hint = eng.c.spec.get("ctor_hint")
    return ctor(eng, st, args[0], node, exits, hint(eng, st, args[0]) if hint else None)


def h_add_ikv(eng, st, args, kw, node, exits):
    """ImmutableKnotVector.__add__ by contract (proved: kv.ADD): ValueError, or a new well-formed instance of len(U)+len(nodes) elements."""
    a, nodes = args
    if not isinstance(nodes, Seq):
        raise E.Unsupported("+= of %r" % (nodes,))
    r = E.fresh_seq("added")
    st.assume(r.n == a.fields["_seq"].n + nodes.n)
    eng.raise_exc(st, "ValueError", fresh_bool("add_refused"), node.lineno, exits)
    return new_kv(st, r, "added")


def h_sub_ikv(eng, st, args, kw, node, exits):
    a, nodes = args
    if not isinstance(nodes, Seq):
        raise E.Unsupported("-= of %r" % (nodes,))
    r = E.fresh_seq("removed")
    st.assume(r.n == a.fields["_seq"].n - nodes.n)
    eng.raise_exc(st, "ValueError", fresh_bool("sub_refused"), node.lineno, exits)
    return new_kv(st, r, "removed")


def h_or_ikv(eng, st, args, kw, node, exits):
    """__or__ / __and__ by contract: ValueError (different intervals), or a new well-formed instance on the same interval."""
    a = args[0]
    r = E.fresh_seq("merged")
    eng.raise_exc(st, "ValueError", fresh_bool("merge_refused"), node.lineno, exits)
    o = new_kv(st, r, "merged")
    U = a.fields["_seq"]
    st.assume(z3.And(z3.Select(r.arr, 0) == z3.Select(U.arr, 0), z3.Select(r.arr, r.n - 1) == z3.Select(U.arr, U.n - 1)))
    return o


def fresh_bool(p):
    return E.fresh(p, z3.BoolSort())


def kv_get(attr):
    def h(eng, st, args, kw, node, exits):
        ikv = internal_of(args[0])
        return KV_CALLS["getattr:ImmutableKnotVector." + attr].handler(eng, st, [ikv], kw, node, exits)
    return h


def h_knots(eng, st, args, kw, node, exits):
    """.knots: assumed contract (checked per shape by engine S): the strictly increasing distinct values, first = U[0], last = U[-1]."""
    ikv = internal_of(args[0])
    U = ikv.fields["_seq"]
    k = E.fresh_seq("knots")
    i = fresh_int("i")
    st.assume(z3.And(k.n >= 2, z3.Select(k.arr, 0) == z3.Select(U.arr, 0), z3.Select(k.arr, k.n - 1) == z3.Select(U.arr, U.n - 1)))
    st.assume(z3.ForAll([i], z3.Implies(z3.And(i >= 0, i < k.n - 1), z3.Select(k.arr, i) < z3.Select(k.arr, i + 1))))
    return k


FACADE_CALLS = dict(KV_CALLS)
FACADE_CALLS.update({
    "getattr:KnotVector.internal": CallSpec(lambda eng, st, a, kw, node, exits: internal_of(a[0])),
    "setattr:KnotVector.internal": CallSpec(h_set_internal),
    "iter:KnotVector": CallSpec(lambda eng, st, a, kw, node, exits: internal_of(a[0]).fields["_seq"]),
    "len:KnotVector": CallSpec(lambda eng, st, a, kw, node, exits: Num(internal_of(a[0]).fields["_seq"].n, True)),
    "getitem:KnotVector": CallSpec(lambda eng, st, a, kw, node, exits: KV_CALLS["getitem:ImmutableKnotVector"].handler(eng, st, [internal_of(a[0]), a[1]], kw, node, exits)),
    "getattr:KnotVector.degree": CallSpec(kv_get("degree")),
    "getattr:KnotVector.npts": CallSpec(kv_get("npts")),
    "getattr:KnotVector.limits": CallSpec(kv_get("limits")),
    "getattr:KnotVector.knots": CallSpec(h_knots),
    "func:ImmutableKnotVector": CallSpec(h_ctor),
    "binop:Add:ImmutableKnotVector": CallSpec(h_add_ikv),
    "binop:Sub:ImmutableKnotVector": CallSpec(h_sub_ikv),
    "binop:BitOr:ImmutableKnotVector": CallSpec(h_or_ikv),
    "binop:BitAnd:ImmutableKnotVector": CallSpec(h_or_ikv),
})

UNCHANGED = ["same(self.internal, OLD)"]
hint_same_degree = lambda eng, st, seq: st.env["p"].z


def mul_mono(eng, st):
    a, b = z3.Reals("ma mb")
    v = st.env["value"].z
    return z3.ForAll([a, b], z3.Implies(z3.And(v > 0, a < b), a * v < b * v))


def div_mono_by(name):
    def lem(eng, st):
        a, b, d = z3.Reals("da db dd")
        return z3.ForAll([a, b, d], z3.Implies(z3.And(d > 0, a < b), a / d < b / d))
    return lem


def mk(name, **kw):
    kw.setdefault("setup", facade_self)
    kw.setdefault("calls", FACADE_CALLS)
    return Contract("knotspace.KnotVector." + name, **kw)


# ---- internal setter -----------------------------------------------------------------------------
SET_INTERNAL_INSTANCE = mk("internal.setter[instance]", params={"self": "obj:KnotVector", "vector": "obj:ImmutableKnotVector"},
                           setup=lambda eng, st: (facade_self(eng, st), st.env.__setitem__("vector", kv_self(eng, st, name="other"))),
                           ensures=["same(self.internal, vector)"], raises={}, exc_ensures={"*": UNCHANGED}, canary="same(self.internal, OLD)")
SET_INTERNAL_SEQ = mk("internal.setter[sequence]", params={"self": "obj:KnotVector", "vector": "seq"},
                      ensures=["same(self.internal, LAST_KV)", "not same(self.internal, OLD)"], raises={"ValueError": None}, exc_ensures={"*": UNCHANGED})

# ---- insert / remove / |= / &= ---------------------------------------------------------------------
INSERT = mk("insert", params={"self": "obj:KnotVector", "nodes": "seq"},
            ensures=["same(result, self)", "len(self.internal.U) == len(OLD.U) + len(nodes)", "same(self.internal, LAST_NEW)"],
            raises={"ValueError": None}, exc_ensures={"*": UNCHANGED}, canary="same(self.internal, OLD)")
REMOVE = mk("remove", params={"self": "obj:KnotVector", "nodes": "seq"},
            ensures=["same(result, self)", "len(self.internal.U) == len(OLD.U) - len(nodes)", "same(self.internal, LAST_NEW)"],
            raises={"ValueError": None}, exc_ensures={"*": UNCHANGED}, canary="same(self.internal, OLD)")
IOR = mk("__ior__", params={"self": "obj:KnotVector", "other": "any"},
         ensures=["same(result, self)", "same(self.internal, LAST_NEW)", "self.internal.U[0] == OLD.U[0]"],
         raises={"ValueError": None}, exc_ensures={"*": UNCHANGED}, canary="same(self.internal, OLD)")
IAND = mk("__iand__", params={"self": "obj:KnotVector", "other": "any"},
          ensures=["same(result, self)", "same(self.internal, LAST_NEW)"], raises={"ValueError": None}, exc_ensures={"*": UNCHANGED},
          canary="same(self.internal, OLD)")

# ---- affine maps -----------------------------------------------------------------------------------------
AFFINE_POST = ["same(result, self)", "len(self.internal.U) == len(U)", "self.internal.p == p", "self.internal.n == n"]
SHIFT = mk("shift", params={"self": "obj:KnotVector", "value": "real"}, spec={"ctor_hint": hint_same_degree},
           ensures=AFFINE_POST + ["all(self.internal.U[i] == U[i] + value for i in range(len(U)))"],
           raises={}, exc_ensures={"*": UNCHANGED}, canary="self.internal.U[0] == U[0] + value + 1")
SCALE = mk("scale", params={"self": "obj:KnotVector", "value": "real"}, spec={"ctor_hint": hint_same_degree}, lemmas=[mul_mono],
           ensures=AFFINE_POST + ["value > 0", "all(self.internal.U[i] == U[i] * value for i in range(len(U)))"],
           raises={"AssertionError": "value <= 0"}, exc_ensures={"*": UNCHANGED}, canary="value < 0",
           covers=["value > 0", "value <= 0"])


def h_shift_method(eng, st, args, kw, node, exits):
    """KnotVector.shift by contract (proved: SHIFT): a number shifts every knot and keeps degree / npts; a non-number raises TypeError
    from the element-wise addition before anything is written."""
    obj, val = args
    if not isinstance(val, Num):
        eng.raise_exc(st, "TypeError", z3.BoolVal(True), node.lineno, exits)
        raise E._DeadPath()
    old = internal_of(obj)
    U = old.fields["_seq"]
    r = E.fresh_seq("shifted")
    i = fresh_int("i")
    st.assume(r.n == U.n)
    st.assume(z3.ForAll([i], z3.Implies(z3.And(i >= 0, i < U.n), z3.Select(r.arr, i) == z3.Select(U.arr, i) + val.real())))
    p, n = old.fields["_ImmutableKnotVector__degree"].z, old.fields["_ImmutableKnotVector__npts"].z
    new = Obj("ImmutableKnotVector", {"_seq": r, "_ImmutableKnotVector__degree": Num(p, True), "_ImmutableKnotVector__npts": Num(n, True)})
    for f in wf_z3(r.arr, r.n, p, n):
        st.assume(f)
    obj.fields[FIELD] = new
    st.env["LAST_NEW"] = new
    return obj


def h_insert_method(eng, st, args, kw, node, exits):
    obj, nodes = args
    new = h_add_ikv(eng, st, [internal_of(obj), nodes], kw, node, exits)
    obj.fields[FIELD] = new
    st.env["LAST_NEW"] = new
    return obj


def h_remove_method(eng, st, args, kw, node, exits):
    obj, nodes = args
    new = h_sub_ikv(eng, st, [internal_of(obj), nodes], kw, node, exits)
    obj.fields[FIELD] = new
    st.env["LAST_NEW"] = new
    return obj


def h_scale_method(eng, st, args, kw, node, exits):
    obj, val = args
    eng.raise_exc(st, "AssertionError", val.real() <= 0, node.lineno, exits)
    old = internal_of(obj)
    U = old.fields["_seq"]
    r = E.fresh_seq("scaled")
    i = fresh_int("i")
    st.assume(r.n == U.n)
    st.assume(z3.ForAll([i], z3.Implies(z3.And(i >= 0, i < U.n), z3.Select(r.arr, i) == z3.Select(U.arr, i) * val.real())))
    p, n = old.fields["_ImmutableKnotVector__degree"].z, old.fields["_ImmutableKnotVector__npts"].z
    new = Obj("ImmutableKnotVector", {"_seq": r, "_ImmutableKnotVector__degree": Num(p, True), "_ImmutableKnotVector__npts": Num(n, True)})
    for f in wf_z3(r.arr, r.n, p, n):
        st.assume(f)
    obj.fields[FIELD] = new
    st.env["LAST_NEW"] = new
    return obj


METHOD_CALLS = dict(FACADE_CALLS)
METHOD_CALLS.update({"method:KnotVector.shift": CallSpec(h_shift_method), "method:KnotVector.insert": CallSpec(h_insert_method),
                     "method:KnotVector.remove": CallSpec(h_remove_method), "method:KnotVector.scale": CallSpec(h_scale_method)})

NORMALIZE = mk("normalize", params={"self": "obj:KnotVector"}, calls=METHOD_CALLS, spec={"ctor_hint": hint_same_degree}, lemmas=[div_mono_by("umax")],
               ensures=AFFINE_POST + ["self.internal.U[0] == 0", "self.internal.U[len(U) - 1] == 1",
                                      "all(self.internal.U[i] == (U[i] - U[0]) / (U[len(U) - 1] - U[0]) for i in range(len(U)))"],
               raises={}, canary="self.internal.U[0] == 1")
IADD_NUMBER = mk("__iadd__[number]", params={"self": "obj:KnotVector", "other": "real"}, calls=METHOD_CALLS,
                 ensures=["same(result, self)", "all(self.internal.U[i] == U[i] + other for i in range(len(U)))", "self.internal.p == p"],
                 raises={}, exc_ensures={"*": UNCHANGED}, canary="same(self.internal, OLD)")
IADD_NODES = mk("__iadd__[nodes]", params={"self": "obj:KnotVector", "other": "seq"}, calls=METHOD_CALLS,
                ensures=["same(result, self)", "len(self.internal.U) == len(U) + len(other)"],
                raises={"ValueError": None}, exc_ensures={"*": UNCHANGED}, canary="same(self.internal, OLD)")
ISUB_NUMBER = mk("__isub__[number]", params={"self": "obj:KnotVector", "other": "real"}, calls=METHOD_CALLS,
                 ensures=["same(result, self)", "all(self.internal.U[i] == U[i] - other for i in range(len(U)))"],
                 raises={}, exc_ensures={"*": UNCHANGED}, canary="same(self.internal, OLD)")
ISUB_NODES = mk("__isub__[nodes]", params={"self": "obj:KnotVector", "other": "seq"}, calls=METHOD_CALLS,
                ensures=["same(result, self)", "len(self.internal.U) == len(U) - len(other)"],
                raises={"ValueError": None}, exc_ensures={"*": UNCHANGED}, canary="same(self.internal, OLD)")
IMUL = mk("__imul__", params={"self": "obj:KnotVector", "other": "real"}, calls=METHOD_CALLS,
          ensures=["same(result, self)", "other > 0", "all(self.internal.U[i] == U[i] * other for i in range(len(U)))"],
          raises={"AssertionError": "other <= 0"}, exc_ensures={"*": UNCHANGED}, canary="same(self.internal, OLD)")

ALL = [
    (SET_INTERNAL_INSTANCE, "knotspace", "KnotVector.internal", "internal.setter"),
    (INSERT, "knotspace", "KnotVector.insert", None),
    (REMOVE, "knotspace", "KnotVector.remove", None),
    (IOR, "knotspace", "KnotVector.__ior__", None),
    (IAND, "knotspace", "KnotVector.__iand__", None),
    (SHIFT, "knotspace", "KnotVector.shift", None),
    (SCALE, "knotspace", "KnotVector.scale", None),
    (NORMALIZE, "knotspace", "KnotVector.normalize", None),
    (IADD_NUMBER, "knotspace", "KnotVector.__iadd__", None),
    (IADD_NODES, "knotspace", "KnotVector.__iadd__", None),
    (ISUB_NUMBER, "knotspace", "KnotVector.__isub__", None),
    (ISUB_NODES, "knotspace", "KnotVector.__isub__", None),
    (IMUL, "knotspace", "KnotVector.__imul__", None),
]


# ---- degree setter, convert -------------------------------------------------------------------------
SET_DEGREE = mk("degree.setter", params={"self": "obj:KnotVector", "value": "int"}, calls=METHOD_CALLS,
                ensures=["implies(value == p, same(self.internal, OLD))",
                         "implies(value > p, len(self.internal.U) > len(U))", "implies(value < p, len(self.internal.U) < len(U))"],
                raises={"ValueError": None}, exc_ensures={"*": UNCHANGED}, canary="same(self.internal, OLD)",
                covers=["value == p", "value == p + 2", "value == p - 1"])

ALL.append((SET_DEGREE, "knotspace", "KnotVector.degree", "degree.setter"))

CONVERT = mk("convert", params={"self": "obj:KnotVector", "cls": "convtype", "tolerance": "real"},
             ensures=["same(result, self)", "same(self.internal, LAST_NEW)", "len(self.internal.U) == len(U)"],
             raises={"ValueError": None}, exc_ensures={"*": UNCHANGED},
             loops={0: dict(invariant=["0 <= it0 and it0 <= len(U)", "len(new_vector) == it0", "same(self.internal, OLD)"], decreases="len(U) - it0")},
             canary="same(self.internal, OLD)")
ITRUEDIV = mk("__itruediv__", params={"self": "obj:KnotVector", "other": "real"}, calls=METHOD_CALLS,
              ensures=["same(result, self)", "other > 0", "all(self.internal.U[i] == U[i] * (1 / other) for i in range(len(U)))"],
              raises={"AssertionError": "other <= 0", "ZeroDivisionError": "other == 0"}, exc_ensures={"*": UNCHANGED}, canary="same(self.internal, OLD)")
ALL += [(CONVERT, "knotspace", "KnotVector.convert", None), (ITRUEDIV, "knotspace", "KnotVector.__itruediv__", None)]
