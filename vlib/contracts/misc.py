"""Sidecar contracts (engine V) for small pure helpers of heavy.py / functions.py."""
from __future__ import annotations

import z3

from ..pyvc import engine as E
from ..pyvc.engine import CallSpec, Contract, IntC, Num, Obj, Seq, Tup, fresh_int, fresh_seq
from .kv import KV_CALLS, setup_self


# ---- heavy.BasisFunction.horner_method --------------------------------------------------
def horner_setup(eng, st):
    """Ghost: H(k) = sum_{i>=k} coefs[i] * value^(i-k), defined by its recursion (the polynomial value is H(0))."""
    H = z3.Function("H", z3.IntSort(), z3.RealSort())
    c, x = st.env["coefs"], st.env["value"]
    k = z3.Int("hk")
    st.assume(H(c.n) == 0)
    st.assume(z3.ForAll([k], z3.Implies(z3.And(k >= 0, k < c.n), H(k) == z3.Select(c.arr, k) + x.z * H(k + 1)), patterns=[H(k)]))
    eng.c.spec["H"] = lambda se, kk: Num(H(kk.z), False)


HORNER = Contract(
    "heavy.BasisFunction.horner_method",
    params={"coefs": "seq", "value": "real"},
    setup=horner_setup,
    ensures=["result == H(0)"],
    raises={},
    loops={0: dict(invariant=["0 <= it0 and it0 <= len(coefs)", "soma == H(len(coefs) - it0)"], decreases="len(coefs) - it0")},
    covers=["len(coefs) == 0", "len(coefs) == 3"],
    canary="result == H(1)",
)


# ---- heavy.NodeSample.closed_linspace / open_linspace -----------------------------------------
def div_mono(eng, st):
    a, b, d = z3.Reals("la lb ld")
    return z3.ForAll([a, b, d], z3.Implies(z3.And(d > 0, a < b), a / d < b / d))


CLOSED_LINSPACE = Contract(
    "heavy.NodeSample.closed_linspace",
    params={"npts": "int", "cls": "type"},
    ensures=["len(result) == npts",
             "all(result[i] == real(i) / real(npts - 1) for i in range(npts))",
             "result[0] == 0 and result[npts - 1] == 1",
             "all(result[i] < result[i + 1] for i in range(npts - 1))"],
    raises={"AssertionError": "npts <= 1"},
    lemmas=[div_mono],
    covers=["npts == 2", "npts == 7"],
    canary="result[0] == 1",
)

OPEN_LINSPACE = Contract(
    "heavy.NodeSample.open_linspace",
    params={"npts": "int", "cls": "type"},
    ensures=["len(result) == npts",
             "all(result[i] == real(2 * i + 1) / real(2 * npts) for i in range(npts))",
             "all(0 < result[i] and result[i] < 1 for i in range(npts))",
             "all(result[i] < result[i + 1] for i in range(npts - 1))"],
    raises={"AssertionError": "npts <= 0"},
    lemmas=[div_mono],
    covers=["npts == 1", "npts == 6"],
    canary="result[0] == 0",
)


# ---- heavy.Calculus.difference_vector ------------------------------------------------------------
def h_ctor_identity(eng, st, args, kw, node, exits):
    v = args[0]
    if isinstance(v, Obj) and v.cls == "ImmutableKnotVector":
        return v            # contract of __new__: an instance is returned unchanged (proved: heavy.ImmutableKnotVector.__new__)
    raise E.Unsupported("ImmutableKnotVector() of a non-instance here")


def h_np_zeros(eng, st, args, kw, node, exits):
    n = args[0]
    r = fresh_seq("zeros")
    r.is_list = True
    i = fresh_int("i")
    st.assume(r.n == z3.If(n.z > 0, n.z, 0))
    st.assume(z3.ForAll([i], z3.Implies(z3.And(i >= 0, i < r.n), z3.Select(r.arr, i) == 0)))
    return r


def h_totuple(eng, st, args, kw, node, exits):
    v = args[0]
    return Seq(v.arr, v.n, False)


def closed_diff(se, k):
    U, p = se.st.env["U"], se.st.env["p"].z
    a, b = z3.Select(U.arr, k.z + p), z3.Select(U.arr, k.z)
    return Num(z3.If(a - b == 0, z3.RealVal(0), z3.ToReal(p) / (a - b)), False)


DIFFERENCE_VECTOR = Contract(
    "heavy.Calculus.difference_vector",
    params={"knotvector": "obj:ImmutableKnotVector"},
    setup=lambda eng, st: setup_self(eng, st) or st.env.__setitem__("knotvector", st.env["self"]),
    requires=[],
    spec={"closed": closed_diff},
    ensures=["len(result) == n", "all(result[i] == closed(i) for i in range(n))", "p > 0"],          # a normal return means the assertion passed (needed by its call-site contract)
    raises={"AssertionError": "p <= 0"},
    loops={0: dict(invariant=["0 <= it0 and it0 <= npts", "npts == n", "degree == p", "len(avals) == n",
                              "all(avals[k] == closed(k) for k in range(it0))",
                              "all(avals[k] == 0 for k in range(it0, n))"],
                   decreases="npts - it0")},
    calls=dict(KV_CALLS, **{"func:ImmutableKnotVector": CallSpec(h_ctor_identity),
                            "static:np.zeros": CallSpec(h_np_zeros), "func:totuple": CallSpec(h_totuple)}),
    consts={"np": E.Const(("module", "np"))},
    canary="result[1] == 0",
)


# ---- functions.IndexableFunction index validation ----------------------------------------------------
def fn_self(eng, st):
    npts, deg = z3.Int("self_npts"), z3.Int("self_degree")
    st.env["self"] = Obj("Function", {"npts": Num(npts, True), "degree": Num(deg, True)})
    st.assume(z3.And(deg >= 0, npts > deg))
    st.env["npts"], st.env["degree"] = Num(npts, True), Num(deg, True)


def mk_first(kind, raises, ensures, tag):
    return Contract("functions.IndexableFunction.__valid_first_index[%s]" % tag,
                    params={"self": "obj:Function", "index": kind}, setup=fn_self, ensures=ensures, raises=raises)


FIRST_INT = mk_first("int", {"IndexError": "index < -npts or index >= npts"}, ["-npts <= index and index < npts"], "int")
FIRST_SLICE = mk_first("opaque:slice", {}, ["True"], "slice")
FIRST_REAL = mk_first("real", {"TypeError": "True"}, ["False"], "float")
FIRST_STR = mk_first("str", {"TypeError": "True"}, ["False"], "str")


def mk_second(kind, raises, ensures, tag):
    return Contract("functions.IndexableFunction.__valid_second_index[%s]" % tag,
                    params={"self": "obj:Function", "index": kind}, setup=fn_self, ensures=ensures, raises=raises)


SECOND_INT = mk_second("int", {"IndexError": "index < 0 or index > degree"}, ["0 <= index and index <= degree"], "int")
SECOND_REAL = mk_second("real", {"TypeError": "True"}, ["False"], "float")
SECOND_SLICE = mk_second("opaque:slice", {"TypeError": "True"}, ["False"], "slice")

ALL = [
    (HORNER, "heavy", "BasisFunction.horner_method", None),
    (CLOSED_LINSPACE, "heavy", "NodeSample.closed_linspace", None),
    (OPEN_LINSPACE, "heavy", "NodeSample.open_linspace", None),
    (DIFFERENCE_VECTOR, "heavy", "Calculus.difference_vector", None),
    (FIRST_INT, "functions", "IndexableFunction.__valid_first_index", None),
    (FIRST_SLICE, "functions", "IndexableFunction.__valid_first_index", None),
    (FIRST_REAL, "functions", "IndexableFunction.__valid_first_index", None),
    (FIRST_STR, "functions", "IndexableFunction.__valid_first_index", None),
    (SECOND_INT, "functions", "IndexableFunction.__valid_second_index", None),
    (SECOND_REAL, "functions", "IndexableFunction.__valid_second_index", None),
    (SECOND_SLICE, "functions", "IndexableFunction.__valid_second_index", None),
]


# ---- heavy.Operations.degree_increase_bezier_once ------------------------------------------------
def h_np_zeros_any(eng, st, args, kw, node, exits):
    """np.zeros(n) -> list of zeros; np.zeros((r, c)) -> r x c zero matrix (dtype ignored: entries are exact numbers, A1)."""
    a = args[0]
    if isinstance(a, Tup) and len(a.items) == 2:
        return E.zero_mat(a.items[0].z, a.items[1].z)
    return h_np_zeros(eng, st, args, kw, node, exits)


def h_totuple_any(eng, st, args, kw, node, exits):
    v = args[0]
    if isinstance(v, E.Mat):
        return v
    return Seq(v.arr, v.n, False)


def bez_closed(se, r, c):
    p = se.st.env["p"].z
    q = z3.ToReal(r.z) / z3.ToReal(p + 1)
    return Num(z3.If(c.z == r.z - 1, q, z3.If(c.z == r.z, 1 - q, z3.RealVal(0))), False)


BEZIER_ONCE = Contract(
    "heavy.Operations.degree_increase_bezier_once",
    params={"knotvector": "obj:ImmutableKnotVector"},
    setup=lambda eng, st: setup_self(eng, st) or st.env.__setitem__("knotvector", st.env["self"]),
    spec={"bez": bez_closed},
    ensures=["all(all(result[r, c] == bez(r, c) for c in range(p + 1)) for r in range(p + 2))"],
    raises={},
    loops={0: dict(invariant=["1 <= it0 and it0 <= degree + 1", "degree == p", "one == 1",
                              "all(all(matrix[r, c] == bez(r, c) for c in range(p + 1)) for r in range(it0))",
                              "all(all(matrix[r, c] == 0 for c in range(p + 1)) for r in range(it0, p + 2))"],
                   decreases="degree + 1 - it0")},
    calls=dict(KV_CALLS, **{"func:ImmutableKnotVector": CallSpec(h_ctor_identity), "static:np.zeros": CallSpec(h_np_zeros_any),
                            "func:totuple": CallSpec(h_totuple_any)}),
    consts={"np": E.Const(("module", "np"))},
    canary="result[1, 1] == 0",
)

ALL.append((BEZIER_ONCE, "heavy", "Operations.degree_increase_bezier_once", None))


# ---- heavy.Operations.one_knot_insert_once (Boehm's single insertion matrix, all shapes) ----------------------------
def h_span(eng, st, args, kw, node, exits):
    """ImmutableKnotVector.span(node) by contract (proved: __span_single + valid): ValueError outside, else the span index."""
    o, x = args
    U, p, n = o.fields["_seq"], o.fields["_ImmutableKnotVector__degree"].z, o.fields["_ImmutableKnotVector__npts"].z
    xv = x.real()
    eng.raise_exc(st, "ValueError", z3.Or(xv < z3.Select(U.arr, p), xv > z3.Select(U.arr, n)), node.lineno, exits)
    k = fresh_int("span")
    st.assume(z3.And(p <= k, k <= n - 1))
    st.assume(z3.Or(z3.And(z3.Select(U.arr, k) <= xv, xv < z3.Select(U.arr, k + 1)), z3.And(xv == z3.Select(U.arr, n), k == n - 1)))
    return Num(k, True)


def h_mult(eng, st, args, kw, node, exits):
    """ImmutableKnotVector.mult(node), assumed contract under A3 (checked per shape by engine S in C03): the number of elements equal to node;
    in a sorted vector these are the block of indices that ends at the span index."""
    o, x = args
    U, p, n = o.fields["_seq"], o.fields["_ImmutableKnotVector__degree"].z, o.fields["_ImmutableKnotVector__npts"].z
    xv = x.real()
    eng.raise_exc(st, "ValueError", z3.Or(xv < z3.Select(U.arr, p), xv > z3.Select(U.arr, n)), node.lineno, exits)
    s = fresh_int("mult")
    i = fresh_int("i")
    lo = fresh_int("blo")
    st.assume(z3.And(0 <= s, s <= p + 1, 0 <= lo, lo + s <= U.n))
    st.assume(z3.ForAll([i], z3.Implies(z3.And(0 <= i, i < U.n), z3.And(lo <= i, i < lo + s) == (z3.Select(U.arr, i) == xv)),
                        patterns=[z3.Select(U.arr, i)]))
    st.assume(z3.Implies(s > 0, z3.And(z3.Select(U.arr, lo) == xv, z3.Select(U.arr, lo + s - 1) == xv)))   # end points of the block
    st.env["MULT_LO"] = Num(lo, True)
    return Num(s, True)


def _alpha(se, r):
    U, p, x = se.st.env["U"], se.st.env["p"].z, se.st.env["node"].z
    return (x - z3.Select(U.arr, r)) / (z3.Select(U.arr, r + p) - z3.Select(U.arr, r))


def boehm_stage(stage):
    """Matrix entries after the given stage: 0/1/2 = inside loop 0/1/2 with counter `it`, 3 = final."""
    def f(se, r, c, it=None):
        env = se.st.env
        k, s, p = env["oldspan"].z, env["oldmult"].z, env["p"].z
        r_, c_ = r.z, c.z
        itz = it.z if it is not None else None
        diag = z3.And(c_ == r_, r_ <= k - p) if stage > 0 else z3.And(c_ == r_, r_ < itz)
        if stage == 0:
            sub = z3.BoolVal(False)
        elif stage == 1:
            sub = z3.And(c_ == r_ - 1, r_ >= k - s + 1, r_ <= itz)
        else:
            sub = z3.And(c_ == r_ - 1, r_ >= k - s + 1)
        base = z3.If(z3.Or(diag, sub), z3.RealVal(1), z3.RealVal(0))
        if stage < 2:
            return Num(base, False)
        hi = itz if stage == 2 else k + 1
        inband = z3.And(r_ >= k - p + 1, r_ < hi)
        a = _alpha(se, r_)
        return Num(z3.If(inband, z3.If(c_ == r_, a, z3.If(c_ == r_ - 1, 1 - a, z3.RealVal(0))), base), False)
    return f


ALLM = "all(all(matrix[r, c] == %s for c in range(oldnpts)) for r in range(oldnpts + 1))"
COMMON_INV = ["oldnpts == n", "degree == p", "one == 1", "p <= oldspan and oldspan <= n - 1", "0 <= oldmult and oldmult <= p",
              "U[oldspan] <= node and node < U[oldspan + 1]",
              "all(U[i] == node for i in range(oldspan - oldmult + 1, oldspan + 1))"]

INSERT_ONCE = Contract(
    "heavy.Operations.one_knot_insert_once",
    params={"knotvector": "obj:ImmutableKnotVector", "node": "real"},
    setup=lambda eng, st: setup_self(eng, st) or st.env.__setitem__("knotvector", st.env["self"]),
    # interior node whose multiplicity is at most p (no p+1 consecutive elements equal to it): the insertion is admissible
    requires=["U[p] < node", "node < U[n]", "all(not (U[i] == node and U[i + p] == node) for i in range(n + 1))"],
    spec={"st0": boehm_stage(0), "st1": boehm_stage(1), "st2": boehm_stage(2), "boehm": boehm_stage(3)},
    ensures=[(ALLM % "boehm(r, c)").replace("matrix", "result")],
    raises={},
    loops={
        0: dict(invariant=COMMON_INV + ["0 <= it0 and it0 <= oldspan - degree + 1", ALLM % "st0(r, c, it0)"], decreases="oldspan - degree + 1 - it0"),
        1: dict(invariant=COMMON_INV + ["oldspan - oldmult <= it1 and it1 <= oldnpts", ALLM % "st1(r, c, it1)"], decreases="oldnpts - it1"),
        2: dict(invariant=COMMON_INV + ["oldspan - degree + 1 <= it2 and it2 <= oldspan + 1", ALLM % "st2(r, c, it2)"], decreases="oldspan + 1 - it2"),
    },
    calls=dict(KV_CALLS, **{"func:ImmutableKnotVector": CallSpec(h_ctor_identity), "static:np.zeros": CallSpec(h_np_zeros_any),
                            "func:totuple": CallSpec(h_totuple_any), "method:ImmutableKnotVector.span": CallSpec(h_span),
                            "method:ImmutableKnotVector.mult": CallSpec(h_mult)}),
    consts={"np": E.Const(("module", "np"))},
    canary="result[0, 0] == 0",
)

ALL.append((INSERT_ONCE, "heavy", "Operations.one_knot_insert_once", None))


# ---- functions.IndexableFunction.__getitem__ -----------------------------------------------------------------
def h_valid_first(eng, st, args, kw, node, exits):
    """__valid_first_index by contract (proved above for each argument kind)."""
    o, i = args
    if isinstance(i, Num) and i.is_int:
        npts = o.fields["npts"].z
        eng.raise_exc(st, "IndexError", z3.Or(i.z < -npts, i.z >= npts), node.lineno, exits)
        return E.NONE
    if isinstance(i, E.Opaque) and i.pytype == "slice":
        return E.NONE
    eng.raise_exc(st, "TypeError", z3.BoolVal(True), node.lineno, exits)
    raise E._DeadPath()


def h_valid_second(eng, st, args, kw, node, exits):
    o, j = args
    if isinstance(j, Num) and j.is_int:
        deg = o.fields["degree"].z
        eng.raise_exc(st, "IndexError", z3.Or(j.z < 0, j.z > deg), node.lineno, exits)
        return E.NONE
    eng.raise_exc(st, "TypeError", z3.BoolVal(True), node.lineno, exits)
    raise E._DeadPath()


def h_evaluator(eng, st, args, kw, node, exits):
    """FunctionEvaluator(self, i, j): remembered as the ghost pair (i, j) so the postcondition can say which table row / sub-degree was selected."""
    return Tup([args[1], args[2]])


GETITEM_CALLS = {"method:Function._IndexableFunction__valid_first_index": CallSpec(h_valid_first),
                 "method:Function._IndexableFunction__valid_second_index": CallSpec(h_valid_second),
                 "func:FunctionEvaluator": CallSpec(h_evaluator),
                 "getattr:Function.degree": CallSpec(lambda eng, st, a, kw, node, exits: a[0].fields["degree"]),
                 "getattr:Function.npts": CallSpec(lambda eng, st, a, kw, node, exits: a[0].fields["npts"])}


def mk_getitem(kind, ensures, raises, tag, canary=None):
    return Contract("functions.IndexableFunction.__getitem__[%s]" % tag, params={"self": "obj:Function", "index": kind}, setup=fn_self,
                    ensures=ensures, raises=raises, calls=GETITEM_CALLS, canary=canary)


GETITEM = [
    mk_getitem("int", ["result[0] == index and result[1] == degree", "-npts <= index and index < npts"],
               {"IndexError": "index < -npts or index >= npts"}, "f[i]", canary="result[1] == 0 and degree > 0"),
    mk_getitem("tup:int,int", ["result[0] == index[0] and result[1] == index[1]", "-npts <= index[0] and index[0] < npts", "0 <= index[1] and index[1] <= degree"],
               {"IndexError": "index[0] < -npts or index[0] >= npts or index[1] < 0 or index[1] > degree"}, "f[i,j]", canary="result[1] == degree and index[1] < degree"),
    mk_getitem("tup:opaque:slice,int", ["result[1] == index[1]", "0 <= index[1] and index[1] <= degree"],
               {"IndexError": "index[1] < 0 or index[1] > degree"}, "f[:,j]"),
    mk_getitem("tup:int,int,int", ["False"], {"IndexError": "True"}, "f[i,j,k]"),
    mk_getitem("tup:int,real", ["False"], {"IndexError": "index[0] < -npts or index[0] >= npts", "TypeError": "True"}, "f[i,1.5]"),
    mk_getitem("opaque:slice", ["result[1] == degree"], {}, "f[:]"),
    mk_getitem("str", ["False"], {"TypeError": "True"}, "f['a']"),
]
for c in GETITEM:
    ALL.append((c, "functions", "IndexableFunction.__getitem__", None))


# ---- heavy.Calculus.difference_matrix -------------------------------------------------------------------------------
def h_difference_vector(eng, st, args, kw, node, exits):
    """Calculus.difference_vector by contract (proved above): AssertionError for degree 0, else a_i = p/(U[i+p]-U[i]) or 0."""
    o = args[0]
    U, p, n = o.fields["_seq"], o.fields["_ImmutableKnotVector__degree"].z, o.fields["_ImmutableKnotVector__npts"].z
    eng.raise_exc(st, "AssertionError", p <= 0, node.lineno, exits)
    r = fresh_seq("avals")
    i = fresh_int("i")
    st.assume(r.n == n)
    d = z3.Select(U.arr, i + p) - z3.Select(U.arr, i)
    st.assume(z3.ForAll([i], z3.Implies(z3.And(i >= 0, i < n), z3.Select(r.arr, i) == z3.If(d == 0, z3.RealVal(0), z3.ToReal(p) / d)),
                        patterns=[z3.Select(r.arr, i)]))
    return r


def h_np_diag(eng, st, args, kw, node, exits):
    v = args[0]
    m = E.Mat(E.fresh("diag", E.MATSORT), v.n, v.n)
    i, j = fresh_int("i"), fresh_int("j")
    st.assume(z3.ForAll([i, j], z3.Implies(z3.And(i >= 0, i < v.n, j >= 0, j < v.n),
                                           z3.Select(z3.Select(m.arr, i), j) == z3.If(i == j, z3.Select(v.arr, i), z3.RealVal(0)))))
    return m


def dm_closed(se, r, c, it=None):
    a = se.st.env["avals"]
    lim = it.z if it is not None else None
    sup = z3.And(c.z == r.z + 1) if lim is None else z3.And(c.z == r.z + 1, r.z < lim)
    return Num(z3.If(c.z == r.z, z3.Select(a.arr, r.z), z3.If(sup, -z3.Select(a.arr, r.z + 1), z3.RealVal(0))), False)


DIFFERENCE_MATRIX = Contract(
    "heavy.Calculus.difference_matrix",
    params={"knotvector": "obj:ImmutableKnotVector"},
    setup=lambda eng, st: setup_self(eng, st) or st.env.__setitem__("knotvector", st.env["self"]),
    spec={"dm": dm_closed, "closed": closed_diff},
    ensures=["all(all(result[r, c] == dm(r, c) for c in range(n)) for r in range(n))", "all(avals[i] == closed(i) for i in range(n))", "len(avals) == n"],
    raises={"AssertionError": "p <= 0"},
    loops={0: dict(invariant=["0 <= it0 and it0 <= npts - 1 or npts == 0", "npts == n", "len(avals) == n",
                              "all(all(matrix[r, c] == dm(r, c, it0) for c in range(n)) for r in range(n))"], decreases="npts - it0")},
    calls=dict(KV_CALLS, **{"func:ImmutableKnotVector": CallSpec(h_ctor_identity), "static:Calculus.difference_vector": CallSpec(h_difference_vector),
                            "static:np.diag": CallSpec(h_np_diag), "func:totuple": CallSpec(h_totuple_any)}),
    consts={"np": E.Const(("module", "np")), "Calculus": E.Const(("module", "Calculus"))},
    canary="result[0, 1] == 0",
)
ALL.append((DIFFERENCE_MATRIX, "heavy", "Calculus.difference_matrix", None))


# ---- heavy.Calculus.derivate_nonrational_bezier (reduce=True): the closed form of the Bezier derivative, all degrees ------------------------------
def dbez_closed(se, r, c):
    U = se.st.env["U"]
    p = se.st.env["p"].z
    L = z3.Select(U.arr, U.n - 1) - z3.Select(U.arr, 0)
    return Num(z3.If(c.z == r.z, -z3.ToReal(p) / L, z3.If(c.z == r.z + 1, z3.ToReal(p) / L, z3.RealVal(0))), False)


def dbez_partial(se, r, c, upto):
    p = se.st.env["p"].z
    return Num(z3.If(r.z < upto.z, z3.If(c.z == r.z, -z3.ToReal(p), z3.If(c.z == r.z + 1, z3.ToReal(p), z3.RealVal(0))), z3.RealVal(0)), False)


DERIV_BEZIER = Contract(
    "heavy.Calculus.derivate_nonrational_bezier[reduce=True]",
    params={"knotvector": "obj:ImmutableKnotVector", "reduce": "bool"},
    setup=lambda eng, st: (setup_self(eng, st), st.env.__setitem__("knotvector", st.env["self"]), st.assume(st.env["reduce"].z)),
    spec={"dbez": dbez_closed, "part": dbez_partial},
    # Q_i = p (P_(i+1) - P_i) / (umax - umin): row i has -p/L at column i and p/L at column i+1, for EVERY degree
    ensures=["all(all(result[r, c] == dbez(r, c) for c in range(p + 1)) for r in range(p))"],
    raises={"AssertionError": "p <= 0"},
    loops={0: dict(invariant=["0 <= it0 and it0 <= degree", "degree == p", "all(all(matrix[r, c] == part(r, c, it0) for c in range(p + 1)) for r in range(p))"],
                   decreases="degree - it0")},
    calls=dict(KV_CALLS, **{"func:ImmutableKnotVector": CallSpec(h_ctor_identity), "static:np.zeros": CallSpec(h_np_zeros_any), "func:totuple": CallSpec(h_totuple_any)}),
    consts={"np": E.Const(("module", "np")), "Operations": E.Const(("module", "Operations"))},
    canary="result[0, 0] == 0",
)
ALL.append((DERIV_BEZIER, "heavy", "Calculus.derivate_nonrational_bezier", None))


# ---- heavy.Math.factorial / comb: exact integer arithmetic for every argument --------------------------------------------------
FACT = z3.Function("FACT", z3.IntSort(), z3.IntSort())       # ghost: n! by its recursion


def fact_axioms(eng, st):
    k = z3.Int("fk")
    st.assume(z3.ForAll([k], z3.Implies(k < 2, FACT(k) == 1), patterns=[FACT(k)]))
    st.assume(z3.ForAll([k], z3.Implies(k >= 2, FACT(k) == k * FACT(k - 1)), patterns=[FACT(k)]))
    st.assume(z3.ForAll([k], FACT(k) >= 1, patterns=[FACT(k)]))


def h_factorial(eng, st, args, kw, node, exits):
    return Num(FACT(args[0].z), True)        # by the contract FACTORIAL proved below


FACTORIAL = Contract(
    "heavy.Math.factorial", params={"number": "int"}, setup=fact_axioms, spec={"fact": lambda se, k: Num(FACT(k.z), True)},
    ensures=["result == fact(number)", "result >= 1"], raises={},
    loops={0: dict(invariant=["2 <= it0 and it0 <= number + 1", "prod == fact(it0 - 1)"], decreases="number + 1 - it0")},
    covers=["number == 5"], canary="result == fact(number) + 1")
COMB = Contract(
    "heavy.Math.comb", params={"upper": "int", "lower": "int"}, setup=fact_axioms, spec={"fact": lambda se, k: Num(FACT(k.z), True)},
    consts={"Math": E.Const(("module", "Math"))}, calls={"static:Math.factorial": CallSpec(h_factorial)},
    # exactly the quotient of the factorials in exact integer arithmetic (that this quotient is the binomial coefficient is arithmetic, not code)
    ensures=["result == fact(upper) // (fact(lower) * fact(upper - lower))"], raises={}, canary="result == 0")
ALL += [(FACTORIAL, "heavy", "Math.factorial", None), (COMB, "heavy", "Math.comb", None)]
