"""Sidecar contracts (engine V) for the public queries of heavy.ImmutableKnotVector: valid / span / mult on a scalar and on a sequence of ANY length.
The single-node workers (__valid_single, __span_single: proved in kv.py; __mult_single: counted occurrences, A10) enter by their contracts; the recursion
through `map(self.span, nodes)` / `self.valid(node)` is resolved by the scalar contract of the same function."""
from __future__ import annotations

import z3

from ..pyvc import engine as E
from ..pyvc.engine import BoolV, CallSpec, Contract, Num, Obj, Seq, Tup, fresh_int
from .kv import KV_CALLS, kv_self, setup_self

SPAN = z3.Function("SPAN_OF", z3.RealSort(), z3.IntSort())       # ghost: the span index of a node (defined by the proved contract of __span_single)
MULT = z3.Function("MULT_OF", z3.RealSort(), z3.IntSort())


def _U(o):
    return o.fields["_seq"], o.fields["_ImmutableKnotVector__degree"].z, o.fields["_ImmutableKnotVector__npts"].z


def inside(o, x):
    U, p, n = _U(o)
    return z3.And(z3.Select(U.arr, p) <= x, x <= z3.Select(U.arr, n))


def span_spec(o, x, r):
    U, p, n = _U(o)
    return z3.And(p <= r, r <= n - 1, z3.Or(z3.And(z3.Select(U.arr, r) <= x, x < z3.Select(U.arr, r + 1)), z3.And(x == z3.Select(U.arr, n), r == n - 1)))


def h_valid_single(eng, st, args, kw, node, exits):
    o, x = args
    return BoolV(inside(o, x.real()))                        # VALID_SINGLE (proved)


def h_span_single(eng, st, args, kw, node, exits):
    o, x = args
    eng.vc(st, inside(o, x.real()), "call:__span_single:node-in-interval@L%d" % node.lineno, node.lineno)       # its precondition
    r = SPAN(x.real())
    st.assume(span_spec(o, x.real(), r))                     # SPAN_SINGLE (proved)
    return Num(r, True)


def h_mult_single(eng, st, args, kw, node, exits):
    o, x = args
    U, p, n = _U(o)
    st.assume(z3.And(MULT(x.real()) >= 0, MULT(x.real()) <= U.n))
    return Num(MULT(x.real()), True)


def h_valid_rec(eng, st, args, kw, node, exits):
    """self.valid(x) by the contract proved here (VALID_SCALAR / VALID_SEQ)."""
    o, x = args
    if isinstance(x, Num):
        return BoolV(inside(o, x.real()))
    if isinstance(x, Seq):
        i = fresh_int("i")
        return BoolV(z3.ForAll([i], z3.Implies(z3.And(i >= 0, i < x.n), inside(o, z3.Select(x.arr, i)))))
    raise E.Unsupported("valid(%r)" % (x,))


def h_bound(name):
    return lambda eng, st, a, kw, node, exits: E.Const(("boundmethod", name, a[0]))


def h_map(eng, st, args, kw, node, exits):
    """map(self.span, nodes) / map(self.mult, nodes): a number is not iterable (TypeError, as tuple(map(f, 3)) raises); on a sequence the scalar contract of the
    same function applies to every element, in order (each element is in the interval: obligation)."""
    f, xs = args
    if not (isinstance(f, E.Const) and isinstance(f.py, tuple) and f.py[0] == "boundmethod"):
        raise E.Unsupported("map(%r, ...)" % (f,))
    if isinstance(xs, Num):
        eng.raise_exc(st, "TypeError", z3.BoolVal(True), node.lineno, exits)
        raise E._DeadPath()
    o = f.py[2]
    i = fresh_int("i")
    eng.vc(st, z3.ForAll([i], z3.Implies(z3.And(i >= 0, i < xs.n), inside(o, z3.Select(xs.arr, i)))), "call:map:%s:every-node-in-interval@L%d" % (f.py[1], node.lineno), node.lineno)
    r = E.fresh_seq("mapped")
    st.assume(r.n == xs.n)
    if f.py[1] == "span":
        st.assume(z3.ForAll([i], z3.Implies(z3.And(i >= 0, i < xs.n), z3.And(z3.Select(r.arr, i) == z3.ToReal(SPAN(z3.Select(xs.arr, i))),
                                                                             span_spec(o, z3.Select(xs.arr, i), SPAN(z3.Select(xs.arr, i))))), patterns=[z3.Select(r.arr, i)]))
    else:
        st.assume(z3.ForAll([i], z3.Implies(z3.And(i >= 0, i < xs.n), z3.Select(r.arr, i) == z3.ToReal(MULT(z3.Select(xs.arr, i)))), patterns=[z3.Select(r.arr, i)]))
    return r


CALLS = dict(KV_CALLS)
CALLS.update({
    "method:ImmutableKnotVector._ImmutableKnotVector__valid_single": CallSpec(h_valid_single), "method:ImmutableKnotVector._ImmutableKnotVector__span_single": CallSpec(h_span_single),
    "method:ImmutableKnotVector._ImmutableKnotVector__mult_single": CallSpec(h_mult_single), "method:ImmutableKnotVector.valid": CallSpec(h_valid_rec),
    "getattr:ImmutableKnotVector.span": CallSpec(h_bound("span")), "getattr:ImmutableKnotVector.mult": CallSpec(h_bound("mult")), "func:map": CallSpec(h_map),
    "func:tuple": CallSpec(lambda eng, st, a, kw, node, exits: a[0] if isinstance(a[0], Seq) else (_ for _ in ()).throw(E.Unsupported("tuple"))),
})
SPEC = {"span_of": lambda se, x: Num(SPAN(x.real()), True), "mult_of": lambda se, x: Num(MULT(x.real()), True)}
INSIDE = "U[p] <= %s and %s <= U[n]"

VALID_SCALAR = Contract("heavy.ImmutableKnotVector.valid[scalar]", params={"self": "obj:ImmutableKnotVector", "nodes": "real"}, setup=setup_self, calls=CALLS,
                        ensures=["iff(result, " + INSIDE % ("nodes", "nodes") + ")"], raises={}, result_kind="bool", canary="result")
VALID_SEQ = Contract("heavy.ImmutableKnotVector.valid[sequence]", params={"self": "obj:ImmutableKnotVector", "nodes": "seq"}, setup=setup_self, calls=CALLS,
                     loops={0: dict(invariant=["0 <= it0 and it0 <= len(nodes)", "all(" + INSIDE % ("nodes[k]", "nodes[k]") + " for k in range(it0))"], decreases="len(nodes) - it0")},
                     ensures=["iff(result, all(" + INSIDE % ("nodes[k]", "nodes[k]") + " for k in range(len(nodes))))"], raises={}, result_kind="bool",
                     covers=["len(nodes) == 0", "len(nodes) == 3"], canary="result")
SPAN_SCALAR = Contract("heavy.ImmutableKnotVector.span[scalar]", params={"self": "obj:ImmutableKnotVector", "nodes": "real"}, setup=setup_self, calls=CALLS, spec=SPEC,
                       ensures=["p <= result and result <= n - 1", "(U[result] <= nodes and nodes < U[result + 1]) or (nodes == U[n] and result == n - 1)"],
                       raises={"ValueError": "not (" + INSIDE % ("nodes", "nodes") + ")"}, result_kind="num", canary="result == p")
SPAN_SEQ = Contract("heavy.ImmutableKnotVector.span[sequence]", params={"self": "obj:ImmutableKnotVector", "nodes": "seq"}, setup=setup_self, calls=CALLS, spec=SPEC,
                    ensures=["len(result) == len(nodes)",
                             "all(p <= result[k] and result[k] <= n - 1 and result[k] == span_of(nodes[k]) for k in range(len(nodes)))",
                             "all((U[span_of(nodes[k])] <= nodes[k] and nodes[k] < U[span_of(nodes[k]) + 1]) or (nodes[k] == U[n] and span_of(nodes[k]) == n - 1) for k in range(len(nodes)))"],
                    raises={"ValueError": "not all(" + INSIDE % ("nodes[k]", "nodes[k]") + " for k in range(len(nodes)))"}, result_kind="seq",
                    covers=["len(nodes) == 2"], canary="len(result) == len(nodes) + 1")
MULT_SCALAR = Contract("heavy.ImmutableKnotVector.mult[scalar]", params={"self": "obj:ImmutableKnotVector", "nodes": "real"}, setup=setup_self, calls=CALLS, spec=SPEC,
                       ensures=["result == mult_of(nodes)"], raises={"ValueError": "not (" + INSIDE % ("nodes", "nodes") + ")"}, result_kind="num", canary="result == mult_of(nodes) + 1")
MULT_SEQ = Contract("heavy.ImmutableKnotVector.mult[sequence]", params={"self": "obj:ImmutableKnotVector", "nodes": "seq"}, setup=setup_self, calls=CALLS, spec=SPEC,
                    ensures=["len(result) == len(nodes)", "all(result[k] == mult_of(nodes[k]) for k in range(len(nodes)))"],
                    raises={"ValueError": "not all(" + INSIDE % ("nodes[k]", "nodes[k]") + " for k in range(len(nodes)))"}, result_kind="seq",
                    canary="len(result) == len(nodes) + 1")

ALL = [(VALID_SCALAR, "heavy", "ImmutableKnotVector.valid", None), (VALID_SEQ, "heavy", "ImmutableKnotVector.valid", None),
       (SPAN_SCALAR, "heavy", "ImmutableKnotVector.span", None), (SPAN_SEQ, "heavy", "ImmutableKnotVector.span", None),
       (MULT_SCALAR, "heavy", "ImmutableKnotVector.mult", None), (MULT_SEQ, "heavy", "ImmutableKnotVector.mult", None)]
for _c, _m, _q, _v in ALL:
    _c.tag = _c.name[_c.name.index("["):]
