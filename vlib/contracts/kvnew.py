"""Sidecar contracts (engine V) for the constructor: heavy.ImmutableKnotVector.__is_valid and __new__.
accepted  <=>  well-formed clamped vector (the set of C03), for vectors of every length."""
from __future__ import annotations

import z3

from ..pyvc import engine as E
from ..pyvc.engine import BoolV, CallSpec, Contract, Num, Obj, Seq, Tup, fresh_int, fresh_real
from .kv import KV_CALLS, sorted_z3, wf_z3


def wf_and(arr, length, d):
    return z3.And(*wf_z3(arr, length, d, length - d - 1))


def WFspec(se, v, d):
    if not isinstance(d, Num):          # degree not inferred yet on this exit (result is False there)
        return BoolV(z3.BoolVal(False))
    return BoolV(wf_and(v.arr, v.n, d.z))


def WFpart(k):
    def f(se, v, d):
        if not isinstance(d, Num):
            return BoolV(z3.BoolVal(False))
        return BoolV(wf_z3(v.arr, v.n, d.z, v.n - d.z - 1)[k])
    return f


NPARTS = 9
PARTS = {"WF%d" % k: WFpart(k) for k in range(NPARTS)}


def h_count(eng, st, args, kw, node, exits):
    """tuple.count(x) on a SORTED tuple (obligation at the call site): the occurrences of x are one contiguous block [lo, hi)."""
    v, x = args
    eng.vc(st, sorted_z3(v.arr, v.n), "call:count:argument-sorted@L%d" % node.lineno, node.lineno)
    lo, hi = fresh_int("lo"), fresh_int("hi")
    i = fresh_int("i")
    xv = E.to_real(x)
    st.assume(z3.And(0 <= lo, lo <= hi, hi <= v.n))
    st.assume(z3.ForAll([i], z3.Implies(z3.And(0 <= i, i < v.n), z3.And(lo <= i, i < hi) == (z3.Select(v.arr, i) == xv)),
                        patterns=[z3.Select(v.arr, i)]))
    # consequences of the block description, stated for its end points (they also name the terms v[lo], v[hi-1] for the solver)
    st.assume(z3.Implies(hi > lo, z3.And(z3.Select(v.arr, lo) == xv, z3.Select(v.arr, hi - 1) == xv)))
    return Num(hi - lo, True)


def h_get_unique(eng, st, args, kw, node, exits):
    """__get_unique(seq), assumed contract under A3 (checked per shape by engine S): the strictly increasing sequence of the distinct values of seq."""
    a = args[0]
    k = E.fresh_seq("uniq")
    i, j = fresh_int("i"), fresh_int("j")
    f = z3.Function("uniq_src!%d" % next(E._fresh), z3.IntSort(), z3.IntSort())
    g = z3.Function("uniq_dst!%d" % next(E._fresh), z3.IntSort(), z3.IntSort())
    st.assume(k.n >= 0)
    st.assume(z3.ForAll([i], z3.Implies(z3.And(0 <= i, i < k.n - 1), z3.Select(k.arr, i) < z3.Select(k.arr, i + 1))))
    st.assume(z3.ForAll([j], z3.Implies(z3.And(0 <= j, j < k.n), z3.And(0 <= f(j), f(j) < a.n, z3.Select(a.arr, f(j)) == z3.Select(k.arr, j))),
                        patterns=[z3.Select(k.arr, j)]))
    st.assume(z3.ForAll([i], z3.Implies(z3.And(0 <= i, i < a.n), z3.And(0 <= g(i), g(i) < k.n, z3.Select(k.arr, g(i)) == z3.Select(a.arr, i))),
                        patterns=[z3.Select(a.arr, i)]))
    return k


VALID_CALLS = {"seq.count": CallSpec(h_count), "static:ImmutableKnotVector.__get_unique": CallSpec(h_get_unique)}


def setup_dstar(eng, st):
    st.env["dstar"] = Num(z3.Int("dstar"), True)      # arbitrary: a statement about dstar is a statement about every degree


# clause 8 of WF (no value occurs more than degree+1 times: v[i] < v[i+degree+1]) is proved for an arbitrary index i0 with ghost hints
CLAUSE8 = dict(when="result", var="i0", lo="0", hi="len(vector) - degree - 1", body="vector[i0] < vector[i0 + degree + 1]",
                   hints=["i0", "i0 + degree + 1", "max(i0, degree)", "max(i0, degree) - degree"])

NOBLOCK = "all(all(not (vector[a] == knots[j] and vector[a + degree + 1] == knots[j]) for a in range(len(vector) - degree - 1)) for j in range(%s))"

IS_VALID_NONE = Contract(
    "heavy.ImmutableKnotVector.__is_valid[degree=None]",
    params={"vector": "seq", "degree": "none"}, setup=setup_dstar, spec=dict(PARTS, WF=WFspec),
    # accepted => well-formed for the inferred degree (the local variable at the return), one obligation per clause of the definition;
    # well-formed for ANY degree (dstar is arbitrary) => accepted
    ensures=["implies(result, WF%d(vector, degree))" % k for k in range(NPARTS - 1)] + [CLAUSE8, "implies(WF(vector, dstar), result)"],
    raises={},
    loops={
        0: dict(invariant=["0 <= it0 and it0 <= len(vector)"], decreases="len(vector) - it0"),
        1: dict(invariant=["0 <= it1 and it1 <= lenght - 1", "lenght == len(vector)", "lenght >= 2",
                           "all(all(vector[a] <= vector[b] for b in range(a, it1 + 1)) for a in range(it1 + 1))"], decreases="lenght - it1"),
        2: dict(invariant=["0 <= degree and degree + 2 <= lenght", "lenght == len(vector)", "all(vector[k] == vector[0] for k in range(degree + 1))",
                           "all(all(vector[a] <= vector[b] for b in range(a, lenght)) for a in range(lenght))"], decreases="lenght - degree"),
        3: dict(invariant=["0 <= it3 and it3 <= len(knots)", "lenght == len(vector)", "npts == lenght - degree - 1", "0 <= degree and degree < npts",
                           "all(all(vector[a] <= vector[b] for b in range(a, lenght)) for a in range(lenght))",
                           NOBLOCK % "it3"], decreases="len(knots) - it3"),
    },
    calls=VALID_CALLS, consts={"ImmutableKnotVector": E.Const(("module", "ImmutableKnotVector"))},
    covers=["len(vector) == 2", "len(vector) == 7"], canary="not result",
)

IS_VALID_INT = Contract(
    "heavy.ImmutableKnotVector.__is_valid[degree=int]",
    params={"vector": "seq", "degree": "int"}, spec=dict(PARTS, WF=WFspec),
    ensures=["implies(result, WF%d(vector, degree))" % k for k in range(NPARTS - 1)] + [CLAUSE8, "implies(WF(vector, degree), result)"],
    raises={},
    loops={
        0: IS_VALID_NONE.loops[0], 1: IS_VALID_NONE.loops[1],
        2: dict(invariant=["0 <= it2 and it2 <= len(knots)", "lenght == len(vector)", "npts == lenght - degree - 1", "degree < npts",
                           "all(all(vector[a] <= vector[b] for b in range(a, lenght)) for a in range(lenght))",
                           NOBLOCK % "it2"], decreases="len(knots) - it2"),
    },
    requires=["degree >= 0"],
    calls=VALID_CALLS, consts={"ImmutableKnotVector": E.Const(("module", "ImmutableKnotVector"))},
    covers=["len(vector) == 4 and degree == 1"], canary="result",
)

ALL = [
    (IS_VALID_NONE, "heavy", "ImmutableKnotVector.__is_valid", None),
    (IS_VALID_INT, "heavy", "ImmutableKnotVector.__is_valid", None),
]


# --------------------------------------------------------------------------------------
# __new__
# --------------------------------------------------------------------------------------
def h_is_valid_none(eng, st, args, kw, node, exits):
    """__is_valid(vector, None) by contract (proved above): True => well-formed for some degree dd; well-formed for any degree => True."""
    v = args[0]
    b = E.fresh("valid", z3.BoolSort())
    dd = fresh_int("dd")
    st.assume(z3.Implies(b, wf_and(v.arr, v.n, dd)))
    st.assume(z3.Implies(wf_and(v.arr, v.n, st.env["dstar"].z), b))
    st.env["dd"] = Num(dd, True)
    return BoolV(b)


def h_is_valid_int(eng, st, args, kw, node, exits):
    v, d = args
    b = E.fresh("valid", z3.BoolSort())
    st.assume(b == wf_and(v.arr, v.n, d.z))
    return BoolV(b)


def h_super_new(eng, st, args, kw, node, exits):
    """tuple.__new__(cls, elements): the new instance holds exactly these elements (fields are assigned afterwards)."""
    seq = args[1]
    return Obj("ImmutableKnotVector", {"_seq": Seq(seq.arr, seq.n)})


def same_seq(se, a, b):
    return BoolV(z3.And(a.n == b.n, a.arr == b.arr))


NEW_COMMON = dict(PARTS, WF=WFspec, same_seq=same_seq)
NEW_POST = ["same_seq(result.U, knotvector)", "result.n == len(knotvector) - result.p - 1"] + \
           ["WF%d(result.U, result.p)" % k for k in range(NPARTS)]

NEW_NONE = Contract(
    "heavy.ImmutableKnotVector.__new__[degree=None]",
    params={"cls": "any", "knotvector": "seq", "degree": "none"}, setup=setup_dstar, spec=NEW_COMMON,
    ensures=NEW_POST,
    raises={"ValueError": "not WF(knotvector, dstar)"},       # dstar arbitrary: raised only if the vector is well-formed for NO degree
    loops={0: dict(invariant=["0 <= degree and degree <= dd", "all(knotvector[k] == knotvector[0] for k in range(degree + 1))"], decreases="dd - degree")},
    calls={"call:cls.__is_valid": CallSpec(h_is_valid_none), "call:super(ImmutableKnotVector, cls).__new__": CallSpec(h_super_new)},
    covers=["len(knotvector) == 5"], canary="result.p == 0",
)

NEW_INT = Contract(
    "heavy.ImmutableKnotVector.__new__[degree=int]",
    params={"cls": "any", "knotvector": "seq", "degree": "int"}, spec=NEW_COMMON, requires=["degree >= 0"],
    ensures=NEW_POST + ["result.p == degree"],
    raises={"ValueError": "not WF(knotvector, degree)"},
    calls={"call:cls.__is_valid": CallSpec(h_is_valid_int), "call:super(ImmutableKnotVector, cls).__new__": CallSpec(h_super_new)},
    covers=["len(knotvector) == 6 and degree == 2"], canary="result.p == degree + 1",
)


def setup_instance(eng, st):
    from .kv import kv_self
    st.env["knotvector"] = kv_self(eng, st, name="given")


NEW_INSTANCE = Contract(
    "heavy.ImmutableKnotVector.__new__[instance]",
    params={"cls": "any", "knotvector": "obj:ImmutableKnotVector", "degree": "none"}, setup=setup_instance,
    ensures=["same(result, knotvector)"], raises={}, calls={}, canary="not same(result, knotvector)",
)

ALL += [
    (NEW_NONE, "heavy", "ImmutableKnotVector.__new__", None),
    (NEW_INT, "heavy", "ImmutableKnotVector.__new__", None),
    (NEW_INSTANCE, "heavy", "ImmutableKnotVector.__new__", None),
]
