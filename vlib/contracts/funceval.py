"""Sidecar contracts (engine V) for functions.FunctionEvaluator.eval: which row(s) of the table and which shape the caller gets, for ALL parameters.
The table itself (`__eval`: entry [i][j] = F_{i,j}(node_j)) is used by contract; its values are the subject of the per-shape runs of C02."""
from __future__ import annotations

import z3

from ..pyvc import engine as E
from ..pyvc.engine import BoolV, CallSpec, Contract, NoneV, Num, Obj, Seq, Tup, fresh_int

TABLE = z3.Function("BASIS_TABLE", z3.IntSort(), z3.RealSort(), z3.RealSort())      # ghost: value of basis function i at a parameter


def setup(first):
    def f(eng, st):
        npts = z3.Int("npts")
        st.assume(npts >= 1)
        fields = {"npts": Num(npts, True)}
        if first == "int":
            i = z3.Int("first_index")
            st.assume(z3.And(i >= -npts, i < npts))          # established by IndexableFunction.__getitem__ (contract FIRST_INDEX_*)
            fields["_FunctionEvaluator__first_index"] = Num(i, True)
        else:
            a, b = z3.Int("slice_start"), z3.Int("slice_stop")
            fields["_FunctionEvaluator__first_index"] = Obj("SliceValue", {"start": Num(a, True) if first != "slice-open" else NoneV(),
                                                                           "stop": Num(b, True) if first == "slice" else NoneV(), "step": NoneV()})
        st.env["self"] = Obj("FunctionEvaluator", fields)
        st.env["npts"] = Num(npts, True)
    return f


def h_eval_private(eng, st, args, kw, node, exits):
    """self.__eval(nodes) by contract: ValueError for a node outside the interval, otherwise the npts x len(nodes) table, entry [i][j] = BASIS_TABLE(i, nodes[j])."""
    o, nodes = args
    if isinstance(nodes, Tup) and all(isinstance(x, Num) for x in nodes.items):
        arr = z3.K(z3.IntSort(), z3.RealVal(0))
        for k, x in enumerate(nodes.items):
            arr = z3.Store(arr, k, x.real())
        nodes = Seq(arr, z3.IntVal(len(nodes.items)), False)
    if not isinstance(nodes, Seq):
        raise E.Unsupported("__eval(%r)" % (nodes,))
    eng.raise_exc(st, "ValueError", E.fresh("outside", z3.BoolSort()), node.lineno, exits)
    m = E.Mat(z3.Array("table!%d" % next(E._fresh), z3.IntSort(), z3.ArraySort(z3.IntSort(), z3.RealSort())), o.fields["npts"].z, nodes.n)
    i, j = fresh_int("i"), fresh_int("j")
    st.assume(z3.ForAll([i, j], z3.Implies(z3.And(i >= 0, i < m.r, j >= 0, j < m.c), z3.Select(z3.Select(m.arr, i), j) == TABLE(i, z3.Select(nodes.arr, j))),
                        patterns=[z3.Select(z3.Select(m.arr, i), j)]))
    return m


def h_iter_probe(eng, st, args, kw, node, exits):
    v = args[0]
    if isinstance(v, Seq):
        return E.NONE
    eng.raise_exc(st, "TypeError", z3.BoolVal(True), node.lineno, exits)      # iter(number) raises TypeError
    raise E._DeadPath()


CALLS = {"method:FunctionEvaluator._FunctionEvaluator__eval": CallSpec(h_eval_private), "func:iter": CallSpec(h_iter_probe),
         "func:tuple": CallSpec(lambda eng, st, a, kw, node, exits: Seq(a[0].arr, a[0].n, False))}
SPEC = {"table": lambda se, i, x: Num(TABLE(i.z, x.real()), False), "norm": lambda se, i, n: Num(z3.If(i.z < 0, i.z + n.z, i.z), True),
        "first": lambda se, o: o.fields["_FunctionEvaluator__first_index"]}

INT_SCALAR = Contract("functions.FunctionEvaluator.eval[int index, scalar]", params={"self": "obj:FunctionEvaluator", "nodes": "real"}, setup=setup("int"), calls=CALLS, spec=SPEC,
                      ensures=["result == table(norm(first(self), npts), old(nodes))"], raises={"ValueError": None}, result_kind="num",
                      canary="result == table(norm(first(self), npts), old(nodes)) + 1")
INT_SEQ = Contract("functions.FunctionEvaluator.eval[int index, sequence]", params={"self": "obj:FunctionEvaluator", "nodes": "seq"}, setup=setup("int"), calls=CALLS, spec=SPEC,
                   ensures=["len(result) == len(nodes)", "all(result[j] == table(norm(first(self), npts), nodes[j]) for j in range(len(nodes)))"],
                   raises={"ValueError": None}, result_kind="seq", covers=["len(nodes) == 1", "len(nodes) == 0"], canary="len(result) == len(nodes) + 1")


def slice_scalar(kind):
    return Contract("functions.FunctionEvaluator.eval[%s, scalar]" % kind, params={"self": "obj:FunctionEvaluator", "nodes": "real"}, setup=setup(kind), calls=CALLS, spec=SPEC,
                    ensures=["len(result) == SLICE_N", "0 <= SLICE_LO and SLICE_LO + SLICE_N <= npts",
                             "all(result[k] == table(SLICE_LO + k, old(nodes)) for k in range(SLICE_N))"],          # rows lo .. lo + n - 1 of the SAME table, in order
                    raises={"ValueError": None}, result_kind="seq", canary="len(result) == SLICE_N + 1")


ALL = [(INT_SCALAR, "functions", "FunctionEvaluator.eval", None), (INT_SEQ, "functions", "FunctionEvaluator.eval", None)] + \
      [(slice_scalar(k), "functions", "FunctionEvaluator.eval", None) for k in ("slice", "slice-open", "slice-from")]
for _c, _m, _q, _v in ALL:
    _c.tag = _c.name[_c.name.index("["):]
