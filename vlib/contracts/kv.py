"""Sidecar contracts for heavy.ImmutableKnotVector (engine V).  /repo is not edited."""
from __future__ import annotations

import z3

from ..pyvc import engine as E
from ..pyvc.engine import CallSpec, Contract, IntC, Num, Obj, Seq, fresh_int


# --------------------------------------------------------------------------------------
# spec predicates (z3 level)
# --------------------------------------------------------------------------------------
def sorted_z3(arr, n):
    i, j = z3.Ints("si sj")
    return z3.ForAll([i, j], z3.Implies(z3.And(0 <= i, i <= j, j < n), z3.Select(arr, i) <= z3.Select(arr, j)))


def wf_z3(arr, length, p, n):
    """WF(U, p) with len(U) = n + p + 1: the set of C03."""
    i = z3.Int("wi")
    U = lambda k: z3.Select(arr, k)
    return [
        length == n + p + 1, p >= 0, n > p,
        sorted_z3(arr, length),
        z3.ForAll([i], z3.Implies(z3.And(0 <= i, i <= p), U(i) == U(0))),
        U(p) < U(p + 1),
        z3.ForAll([i], z3.Implies(z3.And(n <= i, i <= n + p), U(i) == U(n + p))),
        U(n - 1) < U(n),
        z3.ForAll([i], z3.Implies(z3.And(0 <= i, i < n), U(i) < U(i + p + 1))),
    ]


def kv_self(eng, st, name="self"):
    """`self` is an ImmutableKnotVector: a tuple with private degree/npts, under the class
    invariant established by __new__ (proved separately) and preserved by immutability (frame check)."""
    U = Seq(z3.Array(name + "_U", z3.IntSort(), z3.RealSort()), z3.Int(name + "_len"))
    p, n = z3.Int(name + "_p"), z3.Int(name + "_n")
    o = Obj("ImmutableKnotVector", {"_seq": U, "_ImmutableKnotVector__degree": Num(p, True),
                                    "_ImmutableKnotVector__npts": Num(n, True)})
    st.env[name] = o
    for f in wf_z3(U.arr, U.n, p, n):
        st.assume(f)
    st.env["U"] = U
    st.env["p"] = Num(p, True)
    st.env["n"] = Num(n, True)
    return o


def h_getitem(eng, st, args, kw, node, exits):
    obj, idx = args
    U = obj.fields["_seq"]
    if not (isinstance(idx, Num) and idx.is_int):
        raise E.Unsupported("non-int index into a knot vector")
    eng.raise_exc(st, "IndexError", z3.Not(z3.And(idx.z >= -U.n, idx.z < U.n)), node.lineno, exits)
    ii = z3.simplify(z3.If(idx.z < 0, idx.z + U.n, idx.z))
    return Num(z3.Select(U.arr, ii), False)


def h_degree(eng, st, args, kw, node, exits):
    return args[0].fields["_ImmutableKnotVector__degree"]


def h_npts(eng, st, args, kw, node, exits):
    return args[0].fields["_ImmutableKnotVector__npts"]


def h_limits(eng, st, args, kw, node, exits):
    o = args[0]
    U = o.fields["_seq"]
    p = o.fields["_ImmutableKnotVector__degree"].z
    n = o.fields["_ImmutableKnotVector__npts"].z
    return E.Tup([Num(z3.Select(U.arr, p), False), Num(z3.Select(U.arr, n), False)])


KV_CALLS = {
    "getitem:ImmutableKnotVector": CallSpec(h_getitem),
    "getattr:ImmutableKnotVector.degree": CallSpec(h_degree),
    "getattr:ImmutableKnotVector.npts": CallSpec(h_npts),
    "getattr:ImmutableKnotVector.limits": CallSpec(h_limits),
    "len:ImmutableKnotVector": CallSpec(lambda eng, st, a, kw, node, exits: Num(a[0].fields["_seq"].n, True)),
    "iter:ImmutableKnotVector": CallSpec(lambda eng, st, a, kw, node, exits: a[0].fields["_seq"]),
}


def setup_self(eng, st):
    kv_self(eng, st)


# --------------------------------------------------------------------------------------
SPAN_SINGLE = Contract(
    "heavy.ImmutableKnotVector.__span_single",
    params={"self": "obj:ImmutableKnotVector", "node": "real"},
    setup=setup_self,
    requires=["U[p] <= node", "node <= U[n]"],
    ensures=["p <= result and result <= n - 1",
             "(U[result] <= node and node < U[result + 1]) or (node == U[n] and result == n - 1)"],
    raises={},
    loops={0: dict(invariant=["p <= low", "low < mid", "mid < high", "high <= n + 1",
                              "mid == (low + high) // 2",
                              "U[low] <= node", "high == n + 1 or node < U[high]", "node < U[n]"],
                   decreases="high - low")},
    covers=["node == U[p]", "node == U[n]", "U[p] < node and node < U[n]"],
    canary="result == p",
    calls=KV_CALLS,
)

VALID_SINGLE = Contract(
    "heavy.ImmutableKnotVector.__valid_single",
    params={"self": "obj:ImmutableKnotVector", "node": "real"},
    setup=setup_self,
    requires=[],
    ensures=["iff(result, U[p] <= node and node <= U[n])"],
    raises={},
    covers=["node < U[p]", "node > U[n]", "U[p] <= node and node <= U[n]"],
    canary="result",
    calls=KV_CALLS,
)

LIMITS = Contract(
    "heavy.ImmutableKnotVector.limits",
    params={"self": "obj:ImmutableKnotVector"},
    setup=setup_self,
    ensures=["result[0] == U[p] and result[1] == U[n]", "result[0] == U[0] and result[1] == U[len(U) - 1]",
             "result[0] < result[1]"],
    raises={},
    canary="result[0] == result[1]",
    calls={k: v for k, v in KV_CALLS.items() if "limits" not in k},
)

DEGREE = Contract(
    "heavy.ImmutableKnotVector.degree",
    params={"self": "obj:ImmutableKnotVector"}, setup=setup_self,
    ensures=["result == p"], raises={}, canary="result == p + 1",
    calls={"getitem:ImmutableKnotVector": KV_CALLS["getitem:ImmutableKnotVector"]},
)

NPTS = Contract(
    "heavy.ImmutableKnotVector.npts",
    params={"self": "obj:ImmutableKnotVector"}, setup=setup_self,
    ensures=["result == n", "result == len(U) - p - 1"], raises={}, canary="result == p",
    calls={"getitem:ImmutableKnotVector": KV_CALLS["getitem:ImmutableKnotVector"]},
)

ALL = [
    (SPAN_SINGLE, "heavy", "ImmutableKnotVector.__span_single", None),
    (VALID_SINGLE, "heavy", "ImmutableKnotVector.__valid_single", None),
    (LIMITS, "heavy", "ImmutableKnotVector.limits", None),
    (DEGREE, "heavy", "ImmutableKnotVector.degree", None),
    (NPTS, "heavy", "ImmutableKnotVector.npts", None),
]


# --------------------------------------------------------------------------------------
# the constructor as a callee (its own body is checked per shape by engine S and exhaustively by engine B in C03;
# the V proof of __is_valid/__new__ is not done, so at proof level this is an ASSUMED contract: A10)
# --------------------------------------------------------------------------------------
ACC = z3.Function("ACCEPTS", z3.ArraySort(z3.IntSort(), z3.RealSort()), z3.IntSort(), z3.BoolSort())


def new_kv(st, seq, prefix="kvnew"):
    p, n = fresh_int(prefix + "_p"), fresh_int(prefix + "_n")
    o = Obj("ImmutableKnotVector", {"_seq": Seq(seq.arr, seq.n), "_ImmutableKnotVector__degree": Num(p, True),
                                    "_ImmutableKnotVector__npts": Num(n, True)})
    for f in wf_z3(seq.arr, seq.n, p, n):
        st.assume(f)
    return o


def ctor(eng, st, seq, node, exits, hint_p=None, label="ImmutableKnotVector"):
    """ImmutableKnotVector(seq): returns an instance whose elements are seq and which is well-formed for its (inferred) degree,
    or raises ValueError exactly when seq is not well-formed for any degree.  With hint_p: obligation WF(seq, hint_p) => no raise, degree hint_p."""
    if isinstance(seq, Obj) and seq.cls == "ImmutableKnotVector":
        return seq
    if not isinstance(seq, Seq):
        raise E.Unsupported("ImmutableKnotVector() of %r" % (seq,))
    if hint_p is not None:
        n = seq.n - hint_p - 1
        for k, f in enumerate(wf_z3(seq.arr, seq.n, hint_p, n)):
            eng.vc(st, f, "call:%s:wellformed-for-degree-hint:%d@L%s" % (label, k, node.lineno), node.lineno)
        o = Obj("ImmutableKnotVector", {"_seq": Seq(seq.arr, seq.n), "_ImmutableKnotVector__degree": Num(hint_p, True),
                                        "_ImmutableKnotVector__npts": Num(n, True)})
        for f in wf_z3(seq.arr, seq.n, hint_p, n):
            st.assume(f)
        return o
    eng.raise_exc(st, "ValueError", z3.Not(ACC(seq.arr, seq.n)), node.lineno, exits)
    return new_kv(st, seq)


def h_class_call(eng, st, args, kw, node, exits):
    hint = eng.c.spec.get("ctor_hint")
    return ctor(eng, st, args[0], node, exits, hint(eng, st, args[0]) if hint else None)


def h_sorted(eng, st, args, kw, node, exits):
    """sorted(list): assumed builtin contract — same length, non-decreasing, a permutation of the argument (the permutation is not
    expressed in first-order form; the result is remembered as the ghost value SORTED_OF_ARG)."""
    a = args[0]
    r = E.fresh_seq("sorted")
    r.is_list = True
    st.assume(r.n == a.n)
    st.assume(sorted_z3(r.arr, r.n))
    st.env["SORTED_RESULT"] = r
    st.env["SORTED_ARG"] = a
    return r


def same_seq(se, a, b):
    return E.BoolV(z3.And(a.n == b.n, a.arr == b.arr))


ADD = Contract(
    "heavy.ImmutableKnotVector.__add__",
    params={"self": "obj:ImmutableKnotVector", "nodes": "seq"},
    setup=setup_self,
    spec={"same_seq": same_seq},
    ensures=["all(U[p] <= nodes[k] and nodes[k] <= U[n] for k in range(len(nodes)))", "len(result.U) == len(U) + len(nodes)",
             "all(result.U[i] <= result.U[i + 1] for i in range(len(result.U) - 1))",
             "same_seq(result.U, SORTED_RESULT)", "len(SORTED_ARG) == len(U) + len(nodes)",
             "all(SORTED_ARG[i] == U[i] for i in range(len(U)))", "all(SORTED_ARG[len(U) + k] == nodes[k] for k in range(len(nodes)))"],
    raises={"ValueError": None},
    loops={0: dict(invariant=["0 <= it0 and it0 <= len(nodes)", "umin == U[p] and umax == U[n]",
                              "all(U[p] <= nodes[k] and nodes[k] <= U[n] for k in range(it0))"], decreases="len(nodes) - it0")},
    calls=dict(KV_CALLS, **{"call:self.__class__": CallSpec(h_class_call), "sorted": CallSpec(h_sorted)}),
    covers=["len(nodes) == 0", "len(nodes) == 2"],
    canary="len(result.U) == len(U)",
)

SUB = Contract(
    "heavy.ImmutableKnotVector.__sub__",
    params={"self": "obj:ImmutableKnotVector", "nodes": "seq"},
    setup=setup_self,
    spec={"same_seq": same_seq},
    ensures=["len(result.U) == len(U) - len(nodes)", "same_seq(result.U, lista)",
             "all(result.U[i] <= result.U[i + 1] for i in range(len(result.U) - 1))"],
    raises={"ValueError": None},
    loops={0: dict(invariant=["0 <= it0 and it0 <= len(nodes)", "len(lista) == len(U) - it0",
                              "all(all(lista[i] <= lista[j] for j in range(i, len(lista))) for i in range(len(lista)))"],
                   decreases="len(nodes) - it0")},
    calls=dict(KV_CALLS, **{"call:self.__class__": CallSpec(h_class_call)}),
    covers=["len(nodes) == 1"],
    canary="len(result.U) == len(U)",
)

ALL += [
    (ADD, "heavy", "ImmutableKnotVector.__add__", None),
    (SUB, "heavy", "ImmutableKnotVector.__sub__", None),
]
