"""Sidecar contracts (engine V) for shape / dispatch / consistency facts of curves.Curve that do not depend on the numeric kernels:
the kernels are used by their *shape* contracts (a matrix with so many rows and columns), which engine S checks per shape."""
from __future__ import annotations

import z3

from ..pyvc import engine as E
from ..pyvc.engine import BoolV, CallSpec, Contract, NoneV, Num, Obj, Seq, Tup, fresh_int, fresh_real


def curve_self(eng, st):
    """A curve under its representation invariant: len(ctrlpoints) == npts == len(knotvector) - degree - 1."""
    npts = z3.Int("self_npts")
    P = Seq(z3.Array("self_P", z3.IntSort(), z3.RealSort()), z3.Int("self_P_len"))
    st.assume(z3.And(npts >= 1, P.n == npts))
    st.env["self"] = Obj("Curve", {"_BaseCurve__ctrlpoints": P, "npts": Num(npts, True)})
    st.env["npts"] = Num(npts, True)
    st.env["P"] = P


def h_private_eval(eng, st, args, kw, node, exits):
    """Curve.__eval(nodes) by contract (values checked per shape by engine S in C01): ValueError if a node is outside the interval,
    otherwise one point per node, in order; VAL is the ghost 'value of the curve at' function."""
    o, nodes = args
    if isinstance(nodes, Tup) and all(isinstance(x, Num) for x in nodes.items):
        arr = z3.K(z3.IntSort(), z3.RealVal(0))
        for k, x in enumerate(nodes.items):
            arr = z3.Store(arr, k, x.real())
        nodes = Seq(arr, z3.IntVal(len(nodes.items)), False)
    if not isinstance(nodes, Seq):
        raise E.Unsupported("__eval of %r" % (nodes,))
    eng.raise_exc(st, "ValueError", E.fresh("outside", z3.BoolSort()), node.lineno, exits)
    r = E.fresh_seq("points")
    i = fresh_int("i")
    st.assume(r.n == nodes.n)
    st.assume(z3.ForAll([i], z3.Implies(z3.And(i >= 0, i < nodes.n), z3.Select(r.arr, i) == VAL(z3.Select(nodes.arr, i))), patterns=[z3.Select(r.arr, i)]))
    return r


VAL = z3.Function("CURVE_VALUE", z3.RealSort(), z3.RealSort())


def h_tuple_or_typeerror(eng, st, args, kw, node, exits):
    v = args[0]
    if isinstance(v, Seq):
        return Seq(v.arr, v.n, False)
    eng.raise_exc(st, "TypeError", z3.BoolVal(True), node.lineno, exits)      # tuple(number) raises TypeError
    raise E._DeadPath()


def h_valid_noop(eng, st, args, kw, node, exits):
    return BoolV(E.fresh("valid", z3.BoolSort()))


EVAL_CALLS = {
    "getattr:Curve.ctrlpoints": CallSpec(lambda eng, st, a, kw, node, exits: a[0].fields["_BaseCurve__ctrlpoints"]),
    "getattr:Curve.knotvector": CallSpec(lambda eng, st, a, kw, node, exits: Obj("KnotVectorView")),
    "method:KnotVectorView.valid": CallSpec(h_valid_noop),
    "method:Curve._Curve__eval": CallSpec(h_private_eval),
    "func:tuple": CallSpec(h_tuple_or_typeerror),
}

EVAL_SCALAR = Contract(
    "curves.Curve.eval[scalar]", params={"self": "obj:Curve", "nodes": "real"}, setup=curve_self, calls=EVAL_CALLS,
    spec={"value": lambda se, x: Num(VAL(x.real()), False)},
    ensures=["result == value(old(nodes))"],                      # a scalar argument yields ONE point: the value at that parameter
    raises={"ValueError": None}, canary="result == value(old(nodes) + 1)", result_kind="num",
)
EVAL_SEQ = Contract(
    "curves.Curve.eval[sequence]", params={"self": "obj:Curve", "nodes": "seq"}, setup=curve_self, calls=EVAL_CALLS,
    spec={"value": lambda se, x: Num(VAL(x.real()), False)},
    ensures=["len(result) == len(nodes)", "all(result[i] == value(nodes[i]) for i in range(len(nodes)))"],     # one point per node, in order, for EVERY length
    raises={"ValueError": None}, covers=["len(nodes) == 1", "len(nodes) == 0", "len(nodes) == 5"], canary="len(result) == len(nodes) + 1", result_kind="seq",
)

ALL = [
    (EVAL_SCALAR, "curves", "Curve.eval", None),
    (EVAL_SEQ, "curves", "Curve.eval", None),
]


# ======================================================================================
# C15 at shape level: the representation invariant of a curve and atomicity of refusals, for ALL curves and arguments.
#   INV(c):  ctrlpoints is None or len(ctrlpoints) == npts(knotvector);   weights is None or len(weights) == npts(knotvector)
# A knot vector is seen through (npts, degree) only; the numeric kernels are used by their shape contracts (rows/cols), which engine S
# checks per shape in C04-C07.  Every contract below has   ensures INV   and   on every exceptional exit: the three fields are unchanged.
# ======================================================================================
KVF, PF, WF_ = "_BaseCurve__knotvector", "_BaseCurve__ctrlpoints", "_BaseCurve__weights"


def new_kvobj(st, tag, npts=None, degree=None):
    n = npts if npts is not None else fresh_int(tag + "_npts")
    d = degree if degree is not None else fresh_int(tag + "_deg")
    st.assume(z3.And(d >= 0, n >= d + 1))
    return Obj("AbsKnotVector", {"npts": Num(n, True), "degree": Num(d, True)})


def curve_state(P, W, cls="BaseCurve"):
    """self with ctrlpoints present/absent (P) and weights present/absent (W), satisfying INV on entry."""
    def setup(eng, st):
        kv = new_kvobj(st, "self")
        f = {KVF: kv}
        if P:
            p = Seq(z3.Array("self_P", z3.IntSort(), z3.RealSort()), z3.Int("self_P_len"))
            st.assume(p.n == kv.fields["npts"].z)
            f[PF] = p
        else:
            f[PF] = NoneV()
        if W:
            w = Seq(z3.Array("self_W", z3.IntSort(), z3.RealSort()), z3.Int("self_W_len"))
            st.assume(w.n == kv.fields["npts"].z)
            f[WF_] = w
        else:
            f[WF_] = NoneV()
        st.env["self"] = Obj(cls, f)
    return setup


def _same_val(a, b):
    if isinstance(a, NoneV) or isinstance(b, NoneV):
        return z3.BoolVal(isinstance(a, NoneV) and isinstance(b, NoneV))
    if isinstance(a, Obj) or isinstance(b, Obj):
        return z3.BoolVal(a is b)
    if isinstance(a, Seq) and isinstance(b, Seq):
        return z3.And(a.n == b.n, a.arr == b.arr)
    return z3.BoolVal(False)


def sp_unchanged(se, o):
    old = se.eng.old_fields["self"]
    return BoolV(z3.And(*[_same_val(o.fields[k], old[k]) for k in (KVF, PF, WF_)]))


def sp_inv(se, o):
    n = o.fields[KVF].fields["npts"].z
    cs = []
    for k in (PF, WF_):
        v = o.fields[k]
        if isinstance(v, Seq):
            cs.append(v.n == n)
        elif not isinstance(v, NoneV):
            cs.append(z3.BoolVal(False))
    return BoolV(z3.And(*cs) if cs else z3.BoolVal(True))


def sp_field(k):
    return lambda se, o: o.fields[k]


def sp_same_seq(se, a, b):
    return BoolV(_same_val(a, b))


CSPEC = {"unchanged": sp_unchanged, "INV": sp_inv, "P": sp_field(PF), "W": sp_field(WF_), "KV": sp_field(KVF), "same_seq": sp_same_seq,
         "npts": lambda se, o: o.fields[KVF].fields["npts"], "deg": lambda se, o: o.fields[KVF].fields["degree"],
         "kv_npts": lambda se, k: k.fields["npts"], "kv_deg": lambda se, k: k.fields["degree"],
         "rows": lambda se, m: Num(m.r, True), "cols": lambda se, m: Num(m.c, True)}
ATOMIC = {"*": ["unchanged(self)"]}


def g_field_tuple(k):
    def h(eng, st, a, kw, node, exits):
        v = a[0].fields[k]
        return Seq(v.arr, v.n, False) if isinstance(v, Seq) else v      # the getters return tuple(field) or None
    return h


def h_knots_abs(eng, st, a, kw, node, exits):
    k = E.fresh_seq("knots")
    st.assume(k.n >= 2)
    return k


def h_noop(eng, st, a, kw, node, exits):
    return NoneV()


CURVE_GETTERS = {
    "getattr:BaseCurve.knotvector": CallSpec(lambda eng, st, a, kw, node, exits: a[0].fields[KVF]),
    "getattr:BaseCurve.npts": CallSpec(lambda eng, st, a, kw, node, exits: a[0].fields[KVF].fields["npts"]),
    "getattr:BaseCurve.degree": CallSpec(lambda eng, st, a, kw, node, exits: a[0].fields[KVF].fields["degree"]),
    "getattr:BaseCurve.ctrlpoints": CallSpec(g_field_tuple(PF)),
    "getattr:BaseCurve.weights": CallSpec(g_field_tuple(WF_)),
    "getattr:AbsKnotVector.npts": CallSpec(lambda eng, st, a, kw, node, exits: a[0].fields["npts"]),
    "getattr:AbsKnotVector.degree": CallSpec(lambda eng, st, a, kw, node, exits: a[0].fields["degree"]),
    "getattr:AbsKnotVector.knots": CallSpec(h_knots_abs),
    "func:iter": CallSpec(h_noop),
}

# ---- ctrlpoints.setter ------------------------------------------------------------------------------------------------
SETTER_LOOPS = {0: dict(invariant=["0 <= it0 and it0 <= len(newpoints)"], decreases="len(newpoints) - it0"),
                1: dict(invariant=["0 <= it1 and it1 <= len_it1"], decreases="len_it1 - it1"),
                2: dict(invariant=["0 <= it2 and it2 <= len(newpoints)"], decreases="len(newpoints) - it2")}


def ctrl_setter(P, W):
    return Contract(
        "curves.BaseCurve.ctrlpoints.setter[P=%d,W=%d]" % (P, W), params={"self": "obj:BaseCurve", "newpoints": "seq"}, setup=curve_state(P, W),
        spec=CSPEC, calls=CURVE_GETTERS, loops=SETTER_LOOPS,
        ensures=["len(newpoints) == npts(self)", "same_seq(P(self), newpoints)", "INV(self)", "same(KV(self), old(KV(self)))"],
        raises={"ValueError": "len(newpoints) != npts(self)"}, exc_ensures=ATOMIC,
        covers=["len(newpoints) == npts(self)", "len(newpoints) == npts(self) + 1"], canary="len(P(self)) == npts(self) + 1")


CTRL_SETTER_NONE = Contract(
    "curves.BaseCurve.ctrlpoints.setter[None]", params={"self": "obj:BaseCurve", "newpoints": "none"}, setup=curve_state(1, 1),
    spec=CSPEC, calls=CURVE_GETTERS, ensures=["is_none(P(self))", "INV(self)", "same(KV(self), old(KV(self)))"], raises={}, exc_ensures=ATOMIC,
    canary="not is_none(P(self))")

ALL += [(ctrl_setter(P, W), "curves", "BaseCurve.ctrlpoints", "ctrlpoints.setter") for P in (0, 1) for W in (0, 1)]
ALL += [(CTRL_SETTER_NONE, "curves", "BaseCurve.ctrlpoints", "ctrlpoints.setter")]


# ---- weights.setter ---------------------------------------------------------------------------------------------------
def h_tuple_any(eng, st, args, kw, node, exits):
    v = args[0]
    if isinstance(v, Obj) and v.cls == "AbsKnotVector":        # tuple(knotvector): its npts + degree + 1 values
        s = E.fresh_seq("vector")
        st.assume(s.n == v.fields["npts"].z + v.fields["degree"].z + 1)
        GHOST_VECTORS.append((s, v))
        return s
    if isinstance(v, NoneV):
        eng.raise_exc(st, "TypeError", z3.BoolVal(True), node.lineno, exits)
        raise E._DeadPath()
    return h_tuple_or_typeerror(eng, st, args, kw, node, exits)


GHOST_VECTORS = []      # (sequence value, the abstract knot vector it lists): lets a callee contract speak of npts(vector)


def kv_of_vector(seq):
    for s, v in reversed(GHOST_VECTORS):
        if s.n is seq.n or z3.eq(s.n, seq.n):
            return v
    raise E.Unsupported("a knot vector given as a plain sequence of unknown origin")


def h_find_roots(eng, st, args, kw, node, exits):
    """heavy.find_roots(vector, values) by ASSUMED contract (A5; float sampling code):
       * ValueError when len(values) != npts(vector)   (numpy refuses the product of the sampled basis matrix with the values; engine B checks
         this clause on the real function for every (degree, npts, length) of the bounded domain in C15),
       * otherwise some tuple of nodes (the zeros found)."""
    vec, vals = args
    kv = kv_of_vector(vec)
    eng.raise_exc(st, "ValueError", vals.n != kv.fields["npts"].z, node.lineno, exits)
    r = E.fresh_seq("roots")
    st.assume(r.n >= 0)
    return r


WEIGHT_CALLS = dict(CURVE_GETTERS)
WEIGHT_CALLS.update({"func:tuple": CallSpec(h_tuple_any), "call:heavy.find_roots": CallSpec(h_find_roots)})


def weight_setter(P, W):
    return Contract(
        "curves.BaseCurve.weights.setter[P=%d,W=%d]" % (P, W), params={"self": "obj:BaseCurve", "value": "seq"}, setup=curve_state(P, W),
        spec=CSPEC, calls=WEIGHT_CALLS, loops={0: dict(invariant=["0 <= it0 and it0 <= len_it0"], decreases="len_it0 - it0")},
        ensures=["same_seq(W(self), old(value))", "len(W(self)) == npts(self)", "INV(self)", "same(KV(self), old(KV(self)))", "same_seq(P(self), old(P(self)))"],
        raises={"ValueError": None}, exc_ensures=ATOMIC,
        covers=["len(value) == npts(self)", "len(value) == npts(self) + 1"], canary="len(W(self)) == npts(self) + 1")


WEIGHT_SETTER_NONE = Contract(
    "curves.BaseCurve.weights.setter[None]", params={"self": "obj:BaseCurve", "value": "none"}, setup=curve_state(1, 1),
    spec=CSPEC, calls=WEIGHT_CALLS, ensures=["is_none(W(self))", "INV(self)", "same(KV(self), old(KV(self)))", "same_seq(P(self), old(P(self)))"],
    raises={}, exc_ensures=ATOMIC, canary="not is_none(W(self))")

ALL += [(weight_setter(P, W), "curves", "BaseCurve.weights", "weights.setter") for P in (0, 1) for W in (0, 1)]
ALL += [(WEIGHT_SETTER_NONE, "curves", "BaseCurve.weights", "weights.setter")]


# ---- setters as seen from their callers (contracts proved above) ------------------------------------------------------------
def as_seq(v):
    return v


def h_set_ctrl(eng, st, args, kw, node, exits):
    """self.ctrlpoints = value  by the setter's contract: None clears; otherwise ValueError unless len(value) == npts, then the field is value."""
    o, v = args
    if isinstance(v, NoneV):
        o.fields[PF] = NoneV()
        return NoneV()
    if not isinstance(v, Seq):
        raise E.Unsupported("ctrlpoints = %r" % (v,))
    eng.raise_exc(st, "ValueError", v.n != o.fields[KVF].fields["npts"].z, node.lineno, exits)
    o.fields[PF] = Seq(v.arr, v.n, False)
    return NoneV()


def mk_set_weights(assume_no_roots):
    def h_set_weights(eng, st, args, kw, node, exits):
        """self.weights = value  by the setter's contract: None clears; ValueError when len(value) != npts or the weight function has a zero
        (find_roots), the curve unchanged; otherwise the field is value.   With assume_no_roots (A11) the zero test is assumed to pass."""
        o, v = args
        if isinstance(v, NoneV):
            o.fields[WF_] = NoneV()
            return NoneV()
        if not isinstance(v, Seq):
            raise E.Unsupported("weights = %r" % (v,))
        refused = v.n != o.fields[KVF].fields["npts"].z
        if not assume_no_roots:
            refused = z3.Or(refused, E.fresh("weight_function_has_a_zero", z3.BoolSort()))
        eng.raise_exc(st, "ValueError", refused, node.lineno, exits)
        o.fields[WF_] = Seq(v.arr, v.n, False)
        return NoneV()
    if assume_no_roots:
        h_set_weights.assumption = "A11"
    return h_set_weights


SETTER_CALLS = {"setattr:BaseCurve.ctrlpoints": CallSpec(h_set_ctrl), "setattr:BaseCurve.weights": CallSpec(mk_set_weights(False))}


# ---- update ------------------------------------------------------------------------------------------------------------------
def h_KnotVector(eng, st, args, kw, node, exits):
    """KnotVector(x): x a KnotVector -> a knot vector with the same content; x a sequence that lists a knot vector -> that knot vector
    (ValueError if the sequence is not a valid knot vector: its validity is not known at this level)."""
    v = args[0]
    if isinstance(v, Obj) and v.cls == "AbsKnotVector":
        return v
    if isinstance(v, Seq):
        kv = kv_of_vector(v)
        return kv
    raise E.Unsupported("KnotVector(%r)" % (v,))


def h_kv_eq(eng, st, args, kw, node, exits):
    a, b = args
    if a is b:
        return BoolV(z3.BoolVal(True))
    e = E.fresh("kv_equal", z3.BoolSort())
    st.assume(z3.Implies(e, z3.And(*[a.fields[k].z == b.fields[k].z for k in ("npts", "degree")])))
    return BoolV(e)


def h_limits(eng, st, args, kw, node, exits):
    o = args[0]
    if "lo" not in o.fields:
        o.fields["lo"], o.fields["hi"] = Num(fresh_real("umin"), False), Num(fresh_real("umax"), False)
    return Tup([o.fields["lo"], o.fields["hi"]])


def h_new_curve(eng, st, args, kw, node, exits):
    """self.__class__(knotvector): a new curve on that knot vector without control points and weights."""
    kv = h_KnotVector(eng, st, [args[0]], kw, node, exits)
    return Obj("BaseCurve", {KVF: kv, PF: NoneV(), WF_: NoneV()})


def h_fit_curve(eng, st, args, kw, node, exits):
    """temp.fit_curve(other, nodes) by contract (shape part proved below as FIT_CURVE; values: C11): ValueError possible (temp is a fresh object),
    otherwise temp gets npts(temp) control points, weights iff other has weights (npts(temp) of them), and a number is returned; other is unchanged."""
    t, other = args[0], args[1]
    eng.raise_exc(st, "ValueError", E.fresh("fit_refused", z3.BoolSort()), node.lineno, exits)
    n = t.fields[KVF].fields["npts"].z
    p = E.fresh_seq("fitted_points")
    st.assume(p.n == n)
    t.fields[PF] = p
    if isinstance(other.fields[WF_], Seq):
        w = E.fresh_seq("fitted_weights")
        st.assume(w.n == n)
        t.fields[WF_] = w
    err = fresh_real("fit_error")
    st.assume(err >= 0)
    return Num(err, False)


UPDATE_CALLS = dict(CURVE_GETTERS)
UPDATE_CALLS.update(SETTER_CALLS)
UPDATE_CALLS.update({
    "func:KnotVector": CallSpec(h_KnotVector), "compare:Eq:AbsKnotVector": CallSpec(h_kv_eq), "getattr:AbsKnotVector.limits": CallSpec(h_limits),
    "call:self.__class__": CallSpec(h_new_curve), "method:BaseCurve.fit_curve": CallSpec(h_fit_curve),
    "func:float": CallSpec(lambda eng, st, a, kw, node, exits: a[0]),
})
UPDATE_CALLS_A11 = dict(UPDATE_CALLS)
UPDATE_CALLS_A11["setattr:BaseCurve.weights"] = CallSpec(mk_set_weights(True))


def h_update_call(eng, st, args, kw, node, exits):
    """c.update(newknotvector, tolerance, nodes) by the contract proved as update_contract: ValueError with c unchanged, or c on the new knot
    vector with INV (control points / weights present exactly when they were)."""
    c = args[0]
    kv = h_KnotVector(eng, st, [args[1]], kw, node, exits)
    if isinstance(c.fields[PF], Seq) or isinstance(c.fields[WF_], Seq):     # without points and weights update never refuses (proved: raises={})
        eng.raise_exc(st, "ValueError", E.fresh("update_refused", z3.BoolSort()), node.lineno, exits)
    n = kv.fields["npts"].z
    c.fields[KVF] = kv
    for k, tag in ((PF, "updated_points"), (WF_, "updated_weights")):
        if isinstance(c.fields[k], Seq):
            s = E.fresh_seq(tag)
            st.assume(s.n == n)
            c.fields[k] = s
    return NoneV()


UPDATE_CALLS["method:BaseCurve.update"] = CallSpec(h_update_call)
UPDATE_CALLS_A11["method:BaseCurve.update"] = CallSpec(h_update_call)


def setup_update(P, W):
    base = curve_state(P, W)

    def setup(eng, st):
        base(eng, st)
        st.env["newknotvector"] = new_kvobj(st, "new")
    return setup


def update_contract(P, W, tol):
    return Contract(
        "curves.BaseCurve.update[P=%d,W=%d,tolerance=%s]" % (P, W, tol), setup=setup_update(P, W),
        params={"self": "obj:BaseCurve", "newknotvector": "obj:KnotVector", "tolerance": tol, "nodes": "any"},
        spec=CSPEC, calls=UPDATE_CALLS_A11 if (P and W) else UPDATE_CALLS,
        ensures=["INV(self)", "npts(self) == kv_npts(newknotvector)", "deg(self) == kv_deg(newknotvector)",
                 "iff(is_none(P(self)), is_none(old(P(self))))", "iff(is_none(W(self)), is_none(old(W(self))))"],
        raises={"ValueError": None} if (P or W) else {}, exc_ensures=ATOMIC, canary="npts(self) == kv_npts(newknotvector) + 1")


ALL += [(update_contract(P, W, tol), "curves", "BaseCurve.update", None) for P in (0, 1) for W in (0, 1) for tol in ("real", "none")]


# ---- apply -------------------------------------------------------------------------------------------------------------------
def h_np_dot(eng, st, args, kw, node, exits):
    """np.dot(matrix, vector): ValueError unless cols(matrix) == len(vector); a vector with rows(matrix) entries (values not modelled here)."""
    m, v = args
    if not (isinstance(m, E.Mat) and isinstance(v, Seq)):
        raise E.Unsupported("np.dot of %r and %r" % (m, v))
    eng.raise_exc(st, "ValueError", m.c != v.n, node.lineno, exits)
    r = E.fresh_seq("product")
    st.assume(r.n == m.r)
    return r


def h_set_kv(eng, st, args, kw, node, exits):
    """self.knotvector = value  by the setter's contract (KNOTVECTOR_SETTER below = update with default arguments)."""
    return h_update_call(eng, st, [args[0], args[1]], kw, node, exits)


def setup_apply(P, W):
    base = curve_state(P, W)

    def setup(eng, st):
        base(eng, st)
        new = new_kvobj(st, "new")
        st.env["newknotvector"] = new
        r, c = z3.Int("matrix_rows"), z3.Int("matrix_cols")
        arr = z3.Array("matrix", z3.IntSort(), z3.ArraySort(z3.IntSort(), z3.RealSort()))
        st.env["matrix"] = E.Mat(arr, r, c)
        # NO precondition on the matrix: apply is public, and a matrix of the wrong shape must be refused with the curve unchanged (C15; D34)
        st.assume(z3.And(r >= 0, c >= 0))
    return setup


APPLY_CALLS = dict(UPDATE_CALLS_A11)
APPLY_CALLS.update({"call:np.dot": CallSpec(h_np_dot), "setattr:BaseCurve.knotvector": CallSpec(h_set_kv)})

APPLY_LOOPS = {     # (the weighted points are built by a comprehension since the D38 repair: two loops are left, the rows of the matrix and the columns)
    0: dict(invariant=["0 <= it0 and it0 <= len_it0", "len(newctrlpoints) == it0", "len(oldctrlpoints) == npts(self)", "unchanged(self)"], decreases="len_it0 - it0"),
    1: dict(invariant=["0 <= it1 and it1 <= len_it1", "len(newctrlpoints) == it0 + 1", "len(oldctrlpoints) == npts(self)", "unchanged(self)"], decreases="len_it1 - it1"),
}


def apply_contract(P, W):
    return Contract(
        "curves.BaseCurve.apply[P=%d,W=%d]" % (P, W), setup=setup_apply(P, W),
        params={"self": "obj:BaseCurve", "newknotvector": "obj:KnotVector", "matrix": "any"},
        spec=CSPEC, calls=APPLY_CALLS, loops=APPLY_LOOPS if (P and W) else {},
        ensures=["INV(self)", "npts(self) == kv_npts(newknotvector)", "deg(self) == kv_deg(newknotvector)",
                 "iff(is_none(P(self)), is_none(old(P(self))))", "iff(is_none(W(self)), is_none(old(W(self))))"],
        # ValueError exactly for a matrix that does not map npts(self) values to npts(newknotvector) values (with A11 for the weights of P=W=1)
        raises=dict({"ZeroDivisionError": None} if (P and W) else {},
                    **({"ValueError": "rows(matrix) != kv_npts(newknotvector) or cols(matrix) != npts(self)"} if (P or W) else {})),
        exc_ensures=ATOMIC, canary="npts(self) == kv_npts(newknotvector) + 1")


ALL += [(apply_contract(P, W), "curves", "BaseCurve.apply", None) for P in (0, 1) for W in (0, 1)]


# ---- knotvector.setter -------------------------------------------------------------------------------------------------------
def kvsetter_contract(P, W):
    return Contract(
        "curves.BaseCurve.knotvector.setter[P=%d,W=%d]" % (P, W), setup=lambda eng, st: (curve_state(P, W)(eng, st), st.env.__setitem__("value", new_kvobj(st, "new"))),
        params={"self": "obj:BaseCurve", "value": "obj:KnotVector"}, spec=CSPEC, calls=UPDATE_CALLS,
        ensures=["INV(self)", "npts(self) == kv_npts(value)", "deg(self) == kv_deg(value)",
                 "iff(is_none(P(self)), is_none(old(P(self))))", "iff(is_none(W(self)), is_none(old(W(self))))"],
        raises={"ValueError": None} if (P or W) else {}, exc_ensures=ATOMIC, canary="npts(self) == kv_npts(value) + 1")


ALL += [(kvsetter_contract(P, W), "curves", "BaseCurve.knotvector", "knotvector.setter") for P in (0, 1) for W in (0, 1)]


# ---- the public mutators of Curve ------------------------------------------------------------------------------------------------
ADDED = []      # ghost: (old knot vector, the sequence added / removed, new knot vector)


def h_kv_add(eng, st, args, kw, node, exits):
    """knotvector + nodes (KnotVector.__add__ -> ImmutableKnotVector.__add__, contract kv.ADD): ValueError for a node outside the interval or an
    invalid result; otherwise a NEW knot vector with len + len(nodes) values.  Its degree is inferred from the end multiplicity, so it may DIFFER
    from the old degree (copies of the end knots); npts follows from the length."""
    kv, nodes = args
    if not isinstance(nodes, Seq):
        raise E.Unsupported("knotvector + %r" % (nodes,))
    if not kw.get("never_refused"):
        eng.raise_exc(st, "ValueError", E.fresh("sum_refused", z3.BoolSort()), node.lineno, exits)
    d = fresh_int("sum_deg")
    n = fresh_int("sum_npts")
    st.assume(n + d + 1 == kv.fields["npts"].z + kv.fields["degree"].z + 1 + nodes.n)
    new = new_kvobj(st, "sum", n, d)
    ADDED.append(("add", kv, nodes, new))
    return new


def h_kv_sub(eng, st, args, kw, node, exits):
    """knotvector - nodes: ValueError (a node that is not a knot, invalid result) or a NEW knot vector with len - len(nodes) values (degree inferred)."""
    kv, nodes = args
    if not isinstance(nodes, Seq):
        raise E.Unsupported("knotvector - %r" % (nodes,))
    eng.raise_exc(st, "ValueError", E.fresh("difference_refused", z3.BoolSort()), node.lineno, exits)
    d = fresh_int("dif_deg")
    n = fresh_int("dif_npts")
    st.assume(n + d + 1 == kv.fields["npts"].z + kv.fields["degree"].z + 1 - nodes.n)
    new = new_kvobj(st, "dif", n, d)
    ADDED.append(("sub", kv, nodes, new))
    return new


def h_op_knot_insert(eng, st, args, kw, node, exits):
    """heavy.Operations.knot_insert(oldvector, nodes) by its shape contract (values: C04, engine S per shape): for a LEGAL insertion (the sum
    oldvector + nodes is a knot vector of the same degree: obligation at the call site) the matrix has npts + len(nodes) rows and npts columns."""
    vec, nodes = args
    kv = kv_of_vector(vec)
    rec = [r for r in ADDED if r[0] == "add" and r[1] is kv and r[2] is nodes]
    if not rec:
        raise E.Unsupported("Operations.knot_insert on nodes whose sum with the vector was never formed")
    new = rec[-1][3]
    eng.vc(st, new.fields["degree"].z == kv.fields["degree"].z, "call:Operations.knot_insert:legal-insertion(same degree)@L%d" % node.lineno, node.lineno)
    r, c = fresh_int("T_rows"), fresh_int("T_cols")
    st.assume(z3.And(r == kv.fields["npts"].z + nodes.n, c == kv.fields["npts"].z))
    return E.Mat(z3.Array("T!%d" % next(E._fresh), z3.IntSort(), z3.ArraySort(z3.IntSort(), z3.RealSort())), r, c)


def h_apply_call(eng, st, args, kw, node, exits):
    """self.apply(newknotvector, matrix) by the contract proved as apply_contract; its precondition is an obligation of the caller."""
    c, newv, m = args
    kv = h_KnotVector(eng, st, [newv], kw, node, exits)
    if not isinstance(m, E.Mat):
        raise E.Unsupported("apply with %r" % (m,))
    if isinstance(c.fields[PF], Seq) or isinstance(c.fields[WF_], Seq):
        # apply itself refuses a matrix of the wrong shape with ValueError (proved: apply_contract); the library's own callers must never get there:
        # the shape is an obligation of the caller (then the ValueError exit of the proved contract is excluded, which the conformance check confirms)
        for goal, what in ((m.r == kv.fields["npts"].z, "rows(matrix)==npts(newknotvector)"), (m.c == c.fields[KVF].fields["npts"].z, "cols(matrix)==npts(self)")):
            eng.vc(st, goal, "call:apply:%s@L%d" % (what, node.lineno), node.lineno)
            st.assume(goal)
    if isinstance(c.fields[PF], Seq) and isinstance(c.fields[WF_], Seq):
        eng.raise_exc(st, "ZeroDivisionError", E.fresh("zero_control_weight", z3.BoolSort()), node.lineno, exits)
    c.fields[KVF] = kv
    for k, tag in ((PF, "applied_points"), (WF_, "applied_weights")):
        if isinstance(c.fields[k], Seq):
            s = E.fresh_seq(tag)
            st.assume(s.n == kv.fields["npts"].z)
            c.fields[k] = s
    return NoneV()


MUT_CALLS = dict(UPDATE_CALLS)
MUT_CALLS.update({
    "func:tuple": CallSpec(h_tuple_any), "binop:Add:AbsKnotVector": CallSpec(h_kv_add), "binop:Sub:AbsKnotVector": CallSpec(h_kv_sub),
    "call:heavy.Operations.knot_insert": CallSpec(h_op_knot_insert), "method:BaseCurve.apply": CallSpec(h_apply_call),
    "setattr:BaseCurve.knotvector": CallSpec(h_set_kv),
})
MUT_POST = ["INV(self)", "iff(is_none(P(self)), is_none(old(P(self))))", "iff(is_none(W(self)), is_none(old(W(self))))"]


def knot_insert_contract(P, W):
    return Contract(
        "curves.Curve.knot_insert[P=%d,W=%d]" % (P, W), setup=curve_state(P, W), params={"self": "obj:BaseCurve", "nodes": "seq"},
        spec=CSPEC, calls=MUT_CALLS,
        ensures=MUT_POST + ["npts(self) == old(npts(self)) + len(nodes)", "deg(self) == old(deg(self))"],
        raises=dict({"ValueError": None}, **({"ZeroDivisionError": None} if (P and W) else {})), exc_ensures=ATOMIC,
        covers=["len(nodes) == 2"], canary="npts(self) == old(npts(self))")


ALL += [(knot_insert_contract(P, W), "curves", "Curve.knot_insert", None) for P in (0, 1) for W in (0, 1)]


# ======================================================================================
# Native search for a failing input (used only to give a failed obligation of the contracts above a replayable input)
# ======================================================================================
def _starts(P, W):
    from fractions import Fraction as F
    vecs = [[F(0), F(1), F(3)], [F(0), F(0), F(3), F(3)], [F(0), F(0), F(1), F(3), F(3)], [F(0)] * 3 + [F(1), F(1)] + [F(3)] * 3, [F(0)] * 3 + [F(3)] * 3]
    out = []
    for U in vecs:
        p = U.count(U[0]) - 1
        n = len(U) - p - 1
        pts = [F((-2) ** i, i + 1) for i in range(n)] if P else None
        for ws in ([[F(i + 1) for i in range(n)], [F(1)] + [F(0)] * (1 if n > 2 else 0) + [F(1)] * (n - 1 - (1 if n > 2 else 0))] if W else [None]):
            out.append((U, pts, ws))
    return out


def _cstate(c):
    return (tuple(c.knotvector), c.ctrlpoints, c.weights)


def _cinv(c):
    n = len(tuple(c.knotvector)) - c.degree - 1
    if c.npts != n or (c.ctrlpoints is not None and len(c.ctrlpoints) != n) or (c.weights is not None and len(c.weights) != n):
        return "INV broken: npts=%s len(knotvector)-degree-1=%s len(ctrlpoints)=%s len(weights)=%s" % (
            c.npts, n, None if c.ctrlpoints is None else len(c.ctrlpoints), None if c.weights is None else len(c.weights))
    return None


def _calls(method):
    from fractions import Fraction as F
    from compmec.nurbs import KnotVector
    if method == "knot_insert":
        for nodes in ([F(1)], [F(1)] * 4, [F(0), F(3)], [F(0), F(0), F(3), F(3)], [F(9)], [F(1, 2), F(3, 2)], [F(0)], []):
            yield repr(nodes), (lambda c, nodes=nodes: c.knot_insert(nodes)), (lambda b, c, nodes=nodes: c.npts == b[0] + len(nodes) and c.degree == b[1])
    elif method == "knot_remove":
        for nodes in ([F(1)], [F(1), F(1)], [F(0)], [F(5, 7)], [F(0), F(3)]):
            for tol in (1e-9, None):
                yield repr((nodes, tol)), (lambda c, nodes=nodes, tol=tol: c.knot_remove(nodes, tol)), (lambda b, c, nodes=nodes: c.npts + c.degree == b[0] + b[1] - len(nodes))
    elif method == "degree_increase":
        for t in (1, 2, 0, -1):
            yield repr(t), (lambda c, t=t: c.degree_increase(t)), (lambda b, c, t=t: c.degree == b[1] + t)
    elif method == "degree_decrease":
        for t, tol in ((1, 1e-9), (1, None), (2, None), (5, None), (0, None)):
            yield repr((t, tol)), (lambda c, t=t, tol=tol: c.degree_decrease(t, tol)), (lambda b, c, t=t: c.degree == b[1] - t)
    elif method == "degree":
        for d in (0, 1, 2, 3, 4, -1):
            yield repr(d), (lambda c, d=d: setattr(c, "degree", d)), (lambda b, c, d=d: c.degree == d)
    elif method in ("knotvector", "update"):
        for V in ([F(0), F(0), F(3), F(3)], [F(0), F(0), F(2), F(3), F(3)], [F(0)] * 3 + [F(3)] * 3, [F(0), F(0), F(5), F(5)], [F(0), F(1), F(2), F(3)]):
            f = (lambda c, V=V: setattr(c, "knotvector", V)) if method == "knotvector" else (lambda c, V=V: c.update(V))
            yield repr(V), f, (lambda b, c, V=V: tuple(c.knotvector) == tuple(V))
            if method == "update":
                yield repr((V, None)), (lambda c, V=V: c.update(V, None)), (lambda b, c, V=V: tuple(c.knotvector) == tuple(V))
    elif method == "ctrlpoints":
        for k in (0, 1, -1):
            yield "npts%+d points" % k, (lambda c, k=k: setattr(c, "ctrlpoints", [F(7)] * (c.npts + k))), (lambda b, c: len(c.ctrlpoints) == c.npts)
        yield "None", (lambda c: setattr(c, "ctrlpoints", None)), (lambda b, c: c.ctrlpoints is None)
    elif method == "weights":
        for k in (0, 1, -1):
            yield "npts%+d weights" % k, (lambda c, k=k: setattr(c, "weights", [F(2)] * (c.npts + k))), (lambda b, c: len(c.weights) == c.npts)
        yield "None", (lambda c: setattr(c, "weights", None)), (lambda b, c: c.weights is None)
    elif method == "eval":
        def chk(c, arg, want_len):
            r = c(arg)
            ok = (isinstance(r, tuple) and len(r) == want_len) if want_len is not None else not isinstance(r, (tuple, list))
            if not ok:
                raise AssertionError("curve(%r) returned %r" % (arg, r))
        for arg, n in (([F(1)], 1), (F(1), None), ([F(0), F(3)], 2), ([], 0), ([F(3), F(1), F(0)], 3)):
            yield repr(arg), (lambda c, arg=arg, n=n: chk(c, arg, n)), (lambda b, c: True)
    elif method in ("knot_clean", "degree_clean", "clean"):
        for tol in (1e-9, 0, 10, -1):
            yield repr(tol), (lambda c, tol=tol: getattr(c, method)(tol)), (lambda b, c: c.npts + c.degree <= b[0] + b[1])
    elif method == "apply":
        from compmec.nurbs import heavy
        for nodes in ([F(1)], [F(2), F(2)], [F(1, 2), F(5, 2)]):
            def f(c, nodes=nodes):
                old = tuple(c.knotvector)
                try:
                    new = tuple(c.knotvector + nodes)
                    T = heavy.Operations.knot_insert(old, tuple(nodes))
                except Exception:
                    return          # not a legal insertion for this start curve: nothing to apply
                c.apply(new, T)
            yield "insertion matrix of %r" % (nodes,), f, (lambda b, c, nodes=nodes: c.npts in (b[0], b[0] + len(nodes)))


def concrete_search(method, P, W, allowed):
    """-> witness dict of the first real run that breaks 'INV after, unchanged on a raise, only the allowed exception classes', or None."""
    def search():
        from compmec.nurbs import Curve
        for si, (U, pts, ws) in enumerate(_starts(P, W)):
            for label, call, post in _calls(method):
                try:
                    c = Curve(list(U), None if pts is None else list(pts), None if ws is None else list(ws))
                except Exception:
                    continue
                before, b = _cstate(c), (c.npts, c.degree)
                try:
                    call(c)
                    raised = None
                except Exception as e:
                    raised = type(e).__name__
                msg = None
                if raised is not None and _cstate(c) != before:
                    msg = "raised %s and changed the curve" % raised
                elif raised is not None and raised not in allowed:
                    msg = "raised %s (allowed: %s)" % (raised, sorted(allowed))
                elif raised is None and _cinv(c):
                    msg = _cinv(c)
                elif raised is None and not post(b, c):
                    msg = "postcondition of %s fails: npts %s -> %s, degree %s -> %s" % (method, b[0], c.npts, b[1], c.degree)
                if msg:
                    return dict(kind="v.concrete", method=method, P=P, W=W, start=si, call=label, allowed=sorted(allowed), observed=msg,
                                U=[str(x) for x in U], ctrlpoints=None if pts is None else [str(x) for x in pts], weights=None if ws is None else [str(x) for x in ws])
        return None
    return search


def replay_concrete(w):
    """Re-run one recorded input of concrete_search on the real code."""
    from compmec.nurbs import Curve
    U, pts, ws = _starts(w["P"], w["W"])[w["start"]]
    for label, call, post in _calls(w["method"]):
        if label != w["call"]:
            continue
        c = Curve(list(U), None if pts is None else list(pts), None if ws is None else list(ws))
        before, b = _cstate(c), (c.npts, c.degree)
        try:
            call(c)
            raised = None
        except Exception as e:
            raised = type(e).__name__
        bad = (raised is not None and (_cstate(c) != before or raised not in w["allowed"])) or (raised is None and (bool(_cinv(c)) or not post(b, c)))
        return bad, "INV after the call; unchanged and one of %s on a raise" % w["allowed"], dict(raised=raised, before=before, after=_cstate(c), inv=_cinv(c))
    return False, "", "recorded call not found"


def _attach(c, method, P, W):
    c.tag = c.name[c.name.index("["):] if "[" in c.name else ""
    c.concrete = concrete_search(method, P, W, set(c.raises))
    return c


import re as _re
for _c in (EVAL_SCALAR, EVAL_SEQ):
    _c.concrete = concrete_search("eval", 1, 0, {"ValueError"})
for _c, _m, _q, _v in ALL:
    mm = _re.search(r"P=(\d),W=(\d)", _c.name)
    if mm and "eval" not in _c.name:
        _attach(_c, (_v or _q).split(".")[-2] if _v else _q.split(".")[-1], int(mm.group(1)), int(mm.group(2)))


# ---- knot_remove, degree_increase, degree_decrease, degree.setter ------------------------------------------------------------------
def h_knots_ghost(eng, st, a, kw, node, exits):
    """knotvector.knots: the K >= 2 distinct knot values (K is a ghost attribute of the abstract knot vector)."""
    kv = a[0]
    if "knots_seq" not in kv.fields:
        k = E.fresh_seq("knots")
        st.assume(k.n >= 2)
        kv.fields["knots_seq"] = k
    return kv.fields["knots_seq"]


def h_kv_add_elev(eng, st, args, kw, node, exits):
    """As h_kv_add; in addition, for nodes == t * knotvector.knots (t >= 1 further copies of EVERY knot) the inferred degree is degree + t:
    both end knots then occur degree + 1 + t times (constructor contract NEW_NONE: degree = end multiplicity - 1)."""
    kv, nodes = args
    o = getattr(nodes, "origin", None)
    elev = o is not None and o[0] == "rep" and o[1] is kv.fields.get("knots_seq")
    # copies of the knots lie in the interval and keep every interior multiplicity <= new degree + 1: such a sum is never refused
    new = h_kv_add(eng, st, args, {"never_refused": True} if elev else {}, node, exits)
    if elev:
        st.assume(z3.Implies(o[2].z >= 1, new.fields["degree"].z == kv.fields["degree"].z + o[2].z))
    return new


def h_op_degree_increase(eng, st, args, kw, node, exits):
    """heavy.Operations.degree_increase(vector, t) by its shape contract (values: C06, engine S per shape): npts + t * (K - 1) rows
    (one more control point per span and elevation), npts columns."""
    vec, t = args
    kv = kv_of_vector(vec)
    K = h_knots_ghost(eng, st, [kv], kw, node, exits).n
    r, c = fresh_int("E_rows"), fresh_int("E_cols")
    st.assume(z3.And(r == kv.fields["npts"].z + t.z * (K - 1), c == kv.fields["npts"].z))
    return E.Mat(z3.Array("E!%d" % next(E._fresh), z3.IntSort(), z3.ArraySort(z3.IntSort(), z3.RealSort())), r, c)


def h_copy_kv(eng, st, args, kw, node, exits):
    """copy(knotvector): a NEW mutable knot vector with the same content."""
    kv = args[0]
    return Obj("MutKnotVector", {"npts": kv.fields["npts"], "degree": kv.fields["degree"]})


def h_mut_degree_set(eng, st, args, kw, node, exits):
    """knotvector.degree = d (KnotVector.degree.setter, contract in facade.py): ValueError (d < 0, or a knot that cannot lose that many copies) with the
    object unchanged, or the object now has degree d and some number of points npts' >= d + 1."""
    kv, d = args
    eng.raise_exc(st, "ValueError", z3.Or(d.z < 0, E.fresh("degree_refused", z3.BoolSort())), node.lineno, exits)
    n = fresh_int("npts_after_degree_change")
    st.assume(n >= d.z + 1)
    kv.fields["degree"], kv.fields["npts"] = Num(d.z, True), Num(n, True)
    return NoneV()


def h_KnotVector2(eng, st, args, kw, node, exits):
    v = args[0]
    if isinstance(v, Obj) and v.cls == "MutKnotVector":          # the value it has NOW
        return new_kvobj(st, "snap", v.fields["npts"].z, v.fields["degree"].z)
    return h_KnotVector(eng, st, args, kw, node, exits)


def h_update_call2(eng, st, args, kw, node, exits):
    a = list(args)
    a[1] = h_KnotVector2(eng, st, [a[1]], kw, node, exits)
    return h_update_call(eng, st, a, kw, node, exits)


def h_method(name, P_and_W_only_zero_division=True):
    def h(eng, st, args, kw, node, exits):
        """self.degree_increase(t) / self.degree_decrease(t) by the contracts proved below: ValueError (ZeroDivisionError for weighted curves in
        degree_increase) with the curve unchanged, otherwise INV and degree +- t."""
        c, t = args[0], args[1]
        tol = kw.get("tolerance", args[2] if len(args) > 2 else None)
        if name == "degree_decrease" and isinstance(tol, Num):
            # proved (degree_decrease_contract, tolerance a number): AssertionError only when tolerance < 0; found missing here by the conformance check
            eng.raise_exc(st, "AssertionError", z3.And(tol.real() < 0, E.fresh("negative_tolerance", z3.BoolSort())), node.lineno, exits)
        eng.raise_exc(st, "ValueError", E.fresh(name + "_refused", z3.BoolSort()), node.lineno, exits)
        if name == "degree_increase" and isinstance(c.fields[PF], Seq) and isinstance(c.fields[WF_], Seq):
            eng.raise_exc(st, "ZeroDivisionError", E.fresh("zero_control_weight", z3.BoolSort()), node.lineno, exits)
        old = c.fields[KVF]
        d = old.fields["degree"].z + (t.z if name == "degree_increase" else -t.z)
        n = fresh_int("npts_after_" + name)
        kv = new_kvobj(st, name, n, d)
        c.fields[KVF] = kv
        for k, tag in ((PF, "points"), (WF_, "weights")):
            if isinstance(c.fields[k], Seq):
                s = E.fresh_seq(tag)
                st.assume(s.n == n)
                c.fields[k] = s
        return NoneV()
    return h


MUT2_CALLS = dict(MUT_CALLS)
MUT2_CALLS.update({
    "getattr:AbsKnotVector.knots": CallSpec(h_knots_ghost), "binop:Add:AbsKnotVector": CallSpec(h_kv_add_elev),
    "call:heavy.Operations.degree_increase": CallSpec(h_op_degree_increase),
    "func:copy": CallSpec(h_copy_kv), "getattr:MutKnotVector.degree": CallSpec(lambda eng, st, a, kw, node, exits: a[0].fields["degree"]),
    "setattr:MutKnotVector.degree": CallSpec(h_mut_degree_set), "getattr:MutKnotVector.knots": CallSpec(h_knots_abs),
    "method:BaseCurve.update": CallSpec(h_update_call2),
    "method:BaseCurve.degree_increase": CallSpec(h_method("degree_increase")), "method:BaseCurve.degree_decrease": CallSpec(h_method("degree_decrease")),
})
FLOAT_LOOP = {0: dict(invariant=["0 <= it0 and it0 <= len_it0"], decreases="len_it0 - it0")}


def knot_remove_contract(P, W, tol):
    return Contract(
        "curves.Curve.knot_remove[P=%d,W=%d,tolerance=%s]" % (P, W, tol), setup=curve_state(P, W),
        params={"self": "obj:BaseCurve", "nodes": "seq", "tolerance": tol}, spec=CSPEC, calls=MUT2_CALLS, loops=FLOAT_LOOP,
        ensures=MUT_POST + ["npts(self) + deg(self) == old(npts(self)) + old(deg(self)) - len(nodes)"],
        raises={"ValueError": None}, exc_ensures=ATOMIC, covers=["len(nodes) == 1"], canary="npts(self) + deg(self) == old(npts(self)) + old(deg(self))")


def degree_increase_contract(P, W):
    return Contract(
        "curves.Curve.degree_increase[P=%d,W=%d]" % (P, W), setup=curve_state(P, W), params={"self": "obj:BaseCurve", "times": "int"},
        spec=CSPEC, calls=MUT2_CALLS, ensures=MUT_POST + ["deg(self) == old(deg(self)) + times", "times >= 1"],
        raises=dict({"ValueError": "times <= 0"}, **({"ZeroDivisionError": None} if (P and W) else {})), exc_ensures=ATOMIC,
        covers=["times == 3"], canary="deg(self) == old(deg(self))")


def degree_decrease_contract(P, W, tol):
    return Contract(
        "curves.Curve.degree_decrease[P=%d,W=%d,tolerance=%s]" % (P, W, tol), setup=curve_state(P, W),
        params={"self": "obj:BaseCurve", "times": "int", "tolerance": tol}, spec=CSPEC, calls=MUT2_CALLS,
        ensures=MUT_POST + ["deg(self) == old(deg(self)) - times", "times >= 1"],
        raises={"ValueError": None, "AssertionError": "tolerance < 0"} if tol == "real" else {"ValueError": None}, exc_ensures=ATOMIC,
        covers=["times == 2"], canary="deg(self) == old(deg(self))")


def degree_setter_contract(P, W):
    return Contract(
        "curves.BaseCurve.degree.setter[P=%d,W=%d]" % (P, W), setup=curve_state(P, W), params={"self": "obj:BaseCurve", "value": "int"},
        spec=CSPEC, calls=MUT2_CALLS, ensures=MUT_POST + ["deg(self) == value"],
        raises=dict({"ValueError": None}, **({"ZeroDivisionError": None} if (P and W) else {})), exc_ensures=ATOMIC,
        covers=["value == 3"], canary="deg(self) == value + 1")


_new = []
_new += [(knot_remove_contract(P, W, tol), "curves", "Curve.knot_remove", None) for P in (0, 1) for W in (0, 1) for tol in ("real", "none")]
_new += [(degree_increase_contract(P, W), "curves", "Curve.degree_increase", None) for P in (0, 1) for W in (0, 1)]
_new += [(degree_decrease_contract(P, W, tol), "curves", "Curve.degree_decrease", None) for P in (0, 1) for W in (0, 1) for tol in ("real", "none")]
_new += [(degree_setter_contract(P, W), "curves", "BaseCurve.degree", "degree.setter") for P in (0, 1) for W in (0, 1)]
for _c, _m, _q, _v in _new:
    mm = _re.search(r"P=(\d),W=(\d)", _c.name)
    _attach(_c, (_v or _q).split(".")[-2] if _v else _q.split(".")[-1], int(mm.group(1)), int(mm.group(2)))
ALL += _new


# ---- knot_clean, degree_clean: loops that call a mutator until it refuses --------------------------------------------------------
def h_knot_remove_call(eng, st, args, kw, node, exits):
    """self.knot_remove(nodes, tolerance) by the contract proved as knot_remove_contract: ValueError with the curve unchanged, or INV and
    npts + degree smaller by len(nodes)."""
    c, nodes = args[0], args[1]
    if isinstance(nodes, Tup):
        k = len(nodes.items)
    elif isinstance(nodes, Seq):
        k = nodes.n
    else:
        raise E.Unsupported("knot_remove(%r)" % (nodes,))
    eng.raise_exc(st, "ValueError", E.fresh("removal_refused", z3.BoolSort()), node.lineno, exits)
    old = c.fields[KVF]
    d, n = fresh_int("deg_after_removal"), fresh_int("npts_after_removal")
    st.assume(n + d == old.fields["npts"].z + old.fields["degree"].z - k)
    c.fields[KVF] = new_kvobj(st, "removed", n, d)
    for f, tag in ((PF, "points"), (WF_, "weights")):
        if isinstance(c.fields[f], Seq):
            s = E.fresh_seq(tag)
            st.assume(s.n == n)
            c.fields[f] = s
    return NoneV()


def h_set_of(eng, st, args, kw, node, exits):
    """set(x): an abstract finite set (only its size is kept: at most len(x) elements)."""
    v = args[0]
    n = fresh_int("set_size")
    if isinstance(v, Tup):
        st.assume(z3.And(n >= 0, n <= len(v.items)))
    elif isinstance(v, Seq):
        st.assume(z3.And(n >= 0, n <= v.n))
    else:
        raise E.Unsupported("set(%r)" % (v,))
    return Obj("AbsSet", {"n": Num(n, True)})


def h_set_minus(eng, st, args, kw, node, exits):
    a = args[0]
    n = fresh_int("set_size")
    st.assume(z3.And(n >= 0, n <= a.fields["n"].z))
    return Obj("AbsSet", {"n": Num(n, True)})


def h_tuple_any2(eng, st, args, kw, node, exits):
    v = args[0]
    if isinstance(v, Obj) and v.cls == "AbsSet":
        s = E.fresh_seq("elements")
        st.assume(s.n == v.fields["n"].z)
        return s
    return h_tuple_any(eng, st, args, kw, node, exits)


CLEAN_CALLS = dict(MUT2_CALLS)
CLEAN_CALLS.update({"method:BaseCurve.knot_remove": CallSpec(h_knot_remove_call), "func:set": CallSpec(h_set_of),
                    "binop:Sub:AbsSet": CallSpec(h_set_minus), "func:tuple": CallSpec(h_tuple_any2)})
# invariant of both loops: the curve keeps INV, its kind (points / weights present) and its knot vector stays a knot vector (npts > degree >= 0)
CLEAN_INV = ["INV(self)", "deg(self) >= 0 and npts(self) >= deg(self) + 1", "npts(self) + deg(self) <= old(npts(self)) + old(deg(self))",
             "iff(is_none(P(self)), is_none(old(P(self))))", "iff(is_none(W(self)), is_none(old(W(self))))"]


KIND_KEPT = ["iff(is_none(P(self)), is_none(old(P(self))))", "iff(is_none(W(self)), is_none(old(W(self))))"]


def knot_clean_contract(P, W):
    return Contract(
        "curves.Curve.knot_clean[P=%d,W=%d]" % (P, W), setup=curve_state(P, W),
        params={"self": "obj:BaseCurve", "tolerance": "real", "nodes": "none"}, spec=CSPEC, calls=CLEAN_CALLS,
        # loop 0 probes the nodes (float(knot): nothing changes; since the D52 repair), loop 1 walks the nodes, loop 2 removes one knot until it is refused
        loops={0: dict(invariant=["0 <= it0 and it0 <= len_it0", "unchanged(self)"], decreases="len_it0 - it0"),
               1: dict(invariant=["0 <= it1 and it1 <= len_it1"] + CLEAN_INV, decreases="len_it1 - it1"),
               2: dict(invariant=CLEAN_INV, decreases="npts(self) + deg(self)")},          # each successful removal lowers npts + degree: the inner loop terminates
        ensures=["INV(self)", "npts(self) + deg(self) <= old(npts(self)) + old(deg(self))", "tolerance >= 0"] + KIND_KEPT,
        raises={"AssertionError": "tolerance < 0"}, exc_ensures=ATOMIC, canary="npts(self) + deg(self) > old(npts(self)) + old(deg(self))")


def degree_clean_contract(P, W):
    return Contract(
        "curves.Curve.degree_clean[P=%d,W=%d]" % (P, W), setup=curve_state(P, W),
        params={"self": "obj:BaseCurve", "tolerance": "real"}, spec=CSPEC, calls=CLEAN_CALLS,
        loops={0: dict(invariant=[x if "npts(self) + deg(self) <=" not in x else "deg(self) <= old(deg(self))" for x in CLEAN_INV], decreases="deg(self)")},         # each successful reduction lowers the degree, which stays >= 0
        ensures=["INV(self)", "deg(self) <= old(deg(self))", "tolerance >= 0"] + KIND_KEPT,
        raises={"AssertionError": "tolerance < 0"}, exc_ensures=ATOMIC, canary="deg(self) > old(deg(self))")


_new = [(knot_clean_contract(P, W), "curves", "Curve.knot_clean", None) for P in (0, 1) for W in (0, 1)]
_new += [(degree_clean_contract(P, W), "curves", "Curve.degree_clean", None) for P in (0, 1) for W in (0, 1)]
for _c, _m, _q, _v in _new:
    mm = _re.search(r"P=(\d),W=(\d)", _c.name)
    _attach(_c, _q.split(".")[-1], int(mm.group(1)), int(mm.group(2)))
ALL += _new


def h_clean_call(name):
    def h(eng, st, args, kw, node, exits):
        """self.degree_clean(tolerance=…) / self.knot_clean(tolerance=…) by the contracts proved above: AssertionError for a negative tolerance
        (curve unchanged), otherwise INV with a degree / npts + degree that did not grow."""
        c = args[0]
        tol = kw.get("tolerance", args[1] if len(args) > 1 else None)
        if tol is not None:
            # proved: AssertionError only when tolerance < 0, and a normal return implies tolerance >= 0: raised exactly when tolerance < 0
            eng.raise_exc(st, "AssertionError", tol.real() < 0, node.lineno, exits)
        old = c.fields[KVF]
        d, n = fresh_int("deg_after_" + name), fresh_int("npts_after_" + name)
        st.assume(d <= old.fields["degree"].z if name == "degree_clean" else n + d <= old.fields["npts"].z + old.fields["degree"].z)
        c.fields[KVF] = new_kvobj(st, name, n, d)
        for f, tag in ((PF, "points"), (WF_, "weights")):
            if isinstance(c.fields[f], Seq):
                s = E.fresh_seq(tag)
                st.assume(s.n == n)
                c.fields[f] = s
        return NoneV()
    return h


CLEAN2_CALLS = dict(CLEAN_CALLS)
CLEAN2_CALLS.update({"method:BaseCurve.degree_clean": CallSpec(h_clean_call("degree_clean")), "method:BaseCurve.knot_clean": CallSpec(h_clean_call("knot_clean"))})


def clean_contract(P, W):
    return Contract(
        "curves.Curve.clean[P=%d,W=%d]" % (P, W), setup=curve_state(P, W), params={"self": "obj:BaseCurve", "tolerance": "real"},
        spec=CSPEC, calls=CLEAN2_CALLS, ensures=["INV(self)", "iff(is_none(P(self)), is_none(old(P(self))))", "iff(is_none(W(self)), is_none(old(W(self))))"],
        raises={"AssertionError": "tolerance < 0"}, exc_ensures=ATOMIC, canary="not INV(self)")


# (with control points AND weights clean() goes on into float / numpy simplification code: outside the subset, decided by the bounded histories)
_new = [(clean_contract(P, W), "curves", "Curve.clean", None) for P, W in ((0, 0), (0, 1), (1, 0))]
for _c, _m, _q, _v in _new:
    mm = _re.search(r"P=(\d),W=(\d)", _c.name)
    _attach(_c, "clean", int(mm.group(1)), int(mm.group(2)))
ALL += _new


# ---- fit_points: shape, atomicity -------------------------------------------------------------------------------------------------
def h_lstsq_fit_function(eng, st, args, kw, node, exits):
    """heavy.LeastSquare.fit_function(knotvector, nodes, weights) by its shape contract (values: C12): a matrix with npts rows and len(nodes) columns;
    AssertionError / ValueError / ZeroDivisionError possible (fewer nodes than npts, singular normal matrix)."""
    vec, nodes = args[0], args[1]
    kv = kv_of_vector(vec)
    for cls in ("AssertionError", "ValueError", "ZeroDivisionError"):
        eng.raise_exc(st, cls, E.fresh("fit_matrix_refused", z3.BoolSort()), node.lineno, exits)
    r, c = fresh_int("L_rows"), fresh_int("L_cols")
    st.assume(z3.And(r == kv.fields["npts"].z, c == nodes.n))
    return E.Mat(z3.Array("L!%d" % next(E._fresh), z3.IntSort(), z3.ArraySort(z3.IntSort(), z3.RealSort())), r, c)


def h_closed_linspace(eng, st, args, kw, node, exits):
    """NodeSample.closed_linspace(n, cls) by the contract proved in misc.CLOSED_LINSPACE: n values."""
    n = args[0]
    s = E.fresh_seq("linspace")
    st.assume(s.n == n.z)
    return s


FIT_CALLS = dict(MUT_CALLS)
FIT_CALLS.update({"call:heavy.LeastSquare.fit_function": CallSpec(h_lstsq_fit_function), "call:heavy.NodeSample.closed_linspace": CallSpec(h_closed_linspace),
                  "call:np.dot": CallSpec(h_np_dot), "func:tuple": CallSpec(h_tuple_any)})


def fit_points_contract(P, W, given):
    return Contract(
        "curves.Curve.fit_points[P=%d,W=%d,nodes=%s]" % (P, W, "given" if given else "None"), setup=curve_state(P, W),
        params={"self": "obj:BaseCurve", "points": "seq", "nodes": "seq" if given else "none"}, spec=CSPEC, calls=FIT_CALLS,
        consts={"Fraction": E.Const(("builtin", "Fraction")), "heavy": E.Const(("module", "heavy"))},
        ensures=["INV(self)", "not is_none(P(self))", "len(P(self)) == npts(self)", "same(KV(self), old(KV(self)))", "same_seq(W(self), old(W(self)))",
                 "len(points) >= npts(self)"],
        raises={"AssertionError": None, "ValueError": None, "ZeroDivisionError": None}, exc_ensures=ATOMIC,
        covers=["len(points) == npts(self) + 2"], canary="len(P(self)) == npts(self) + 1")


_new = [(fit_points_contract(P, W, g), "curves", "Curve.fit_points", None) for P in (0, 1) for W in (0, 1) for g in (0, 1)]
for _c, _m, _q, _v in _new:
    _c.tag = _c.name[_c.name.index("["):]
ALL += _new


def h_fit_points_call(eng, st, args, kw, node, exits):
    """self.fit_points(values, nodes) by the contract proved above: AssertionError / ValueError / ZeroDivisionError with the curve unchanged, or npts control
    points on the same knot vector, weights untouched."""
    c = args[0]
    for cls in ("AssertionError", "ValueError", "ZeroDivisionError"):
        eng.raise_exc(st, cls, E.fresh("fit_refused", z3.BoolSort()), node.lineno, exits)
    s = E.fresh_seq("fitted_points")
    st.assume(s.n == c.fields[KVF].fields["npts"].z)
    c.fields[PF] = s
    return NoneV()


# ---- norm(object, L=0): the infinity norm used by BaseCurve.__eq__ ------------------------------------------------------------------------
def h_norm_scalar(eng, st, args, kw, node, exits):
    """norm(item, L) on a number, by the contract NORM_SCALAR: abs(item)."""
    x = args[0]
    if not isinstance(x, Num):
        raise E.Unsupported("norm of a nested sequence")
    if len(args) > 1:
        eng.vc(st, args[1].z == 0, "call:norm:L==0@L%d" % node.lineno, node.lineno)     # NORM_SCALAR is proved for the infinity norm only
    return Num(z3.If(x.real() >= 0, x.real(), -x.real()), False)


NORM_SPEC = {"absv": lambda se, x: Num(z3.If(x.real() >= 0, x.real(), -x.real()), False)}
NORM_SCALAR = Contract("curves.norm[scalar]", params={"object": "real", "L": "int"}, requires=["L == 0"], spec=NORM_SPEC, calls={"func:norm": CallSpec(h_norm_scalar)},
                       ensures=["result == absv(object)"], raises={}, result_kind="num", canary="result == absv(object) + 1")
NORM_SEQ = Contract(
    "curves.norm[sequence of numbers]", params={"object": "seq", "L": "int"}, requires=["L == 0"], spec=NORM_SPEC, calls={"func:norm": CallSpec(h_norm_scalar)},
    loops={0: dict(invariant=["0 <= it0 and it0 <= len(object)", "soma >= 0", "all(soma >= absv(object[k]) for k in range(it0))",
                              "soma == 0 or any(soma == absv(object[k]) for k in range(it0))"], decreases="len(object) - it0")},
    # the infinity norm: an upper bound of every |x_k| that is attained (0 for the empty sequence) - for sequences of every length
    ensures=["all(result >= absv(object[k]) for k in range(len(object)))", "result >= 0",
             "result == 0 or any(result == absv(object[k]) for k in range(len(object)))"],
    raises={}, result_kind="num", covers=["len(object) == 3"], canary="result == 0")
_new = [(NORM_SCALAR, "curves", "norm", None), (NORM_SEQ, "curves", "norm", None)]
for _c, _m, _q, _v in _new:
    _c.tag = _c.name[_c.name.index("["):]
ALL += _new


# ======================================================================================
# C08 at the level of control points: copy and the operators with a SCALAR operand, for curves with any number of control points
# (that the curve with control points s + P_i is the curve s + C(u) is the partition of unity - arithmetic, decided per shape by engine S)
# ======================================================================================
def h_copy_any(eng, st, args, kw, node, exits):
    v = args[0]
    if isinstance(v, (Num, BoolV)):
        return v                                             # copy of a number: an equal number (A2)
    if isinstance(v, Obj) and v.cls == "AbsKnotVector":
        return new_kvobj(st, "copied", v.fields["npts"].z, v.fields["degree"].z)      # a NEW knot vector object with the same content
    if isinstance(v, Obj) and v.cls == "BaseCurve":
        # copy(curve) by the contract proved as DEEPCOPY_CURVE: a new curve on a new knot-vector object with equal control points and weights
        kv = new_kvobj(st, "copied", v.fields[KVF].fields["npts"].z, v.fields[KVF].fields["degree"].z)
        f = {KVF: kv}
        for k in (PF, WF_):
            x = v.fields[k]
            f[k] = Seq(x.arr, x.n, False) if isinstance(x, Seq) else NoneV()
        return Obj("BaseCurve", f)
    raise E.Unsupported("copy(%r)" % (v,))


def h_isinstance_curve(eng, st, args, kw, node, exits):
    v = args[0]
    return BoolV(z3.BoolVal(isinstance(v, Obj) and v.cls == "BaseCurve"))


def h_neg_curve(eng, st, args, kw, node, exits):
    """-curve by the contract proved as NEG: a new curve with control points -P_i (ValueError without control points)."""
    c = args[0]
    if not isinstance(c.fields[PF], Seq):
        eng.raise_exc(st, "ValueError", z3.BoolVal(True), node.lineno, exits)
        raise E._DeadPath()
    r = h_copy_any(eng, st, [c], kw, node, exits)
    p = E.fresh_seq("negated")
    i = fresh_int("i")
    st.assume(p.n == c.fields[PF].n)
    st.assume(z3.ForAll([i], z3.Implies(z3.And(i >= 0, i < p.n), z3.Select(p.arr, i) == -z3.Select(c.fields[PF].arr, i)), patterns=[z3.Select(p.arr, i)]))
    r.fields[PF] = p
    return r


def h_add_curve_scalar(eng, st, args, kw, node, exits):
    """curve + s (s a number) by the contract proved as ADD_SCALAR."""
    c, s_ = args
    if not isinstance(s_, Num):
        raise E.Unsupported("curve + %r" % (s_,))
    if not isinstance(c.fields[PF], Seq):
        eng.raise_exc(st, "ValueError", z3.BoolVal(True), node.lineno, exits)
        raise E._DeadPath()
    r = h_copy_any(eng, st, [c], kw, node, exits)
    p = E.fresh_seq("shifted")
    i = fresh_int("i")
    st.assume(p.n == c.fields[PF].n)
    st.assume(z3.ForAll([i], z3.Implies(z3.And(i >= 0, i < p.n), z3.Select(p.arr, i) == s_.real() + z3.Select(c.fields[PF].arr, i)), patterns=[z3.Select(p.arr, i)]))
    r.fields[PF] = p
    return r


def sp_eq_elems(se, a, b):
    if isinstance(a, NoneV) or isinstance(b, NoneV):
        return BoolV(z3.BoolVal(isinstance(a, NoneV) and isinstance(b, NoneV)))
    i = fresh_int("i")
    return BoolV(z3.And(a.n == b.n, z3.ForAll([i], z3.Implies(z3.And(i >= 0, i < a.n), z3.Select(a.arr, i) == z3.Select(b.arr, i)))))


CSPEC["eq_elems"] = sp_eq_elems
OP_CALLS = dict(CURVE_GETTERS)
OP_CALLS.update(SETTER_CALLS)
# the weights a copy receives are those of the operand, whose weight function has no zero: the zero test of the setter passes (A11)
OP_CALLS["setattr:BaseCurve.weights"] = CallSpec(mk_set_weights(True))
OP_CALLS.update({"getattr:BaseCurve.__class__": CallSpec(lambda eng, st, a, kw, node, exits: E.Const(("class", "BaseCurve"))),
                 "rbinop:Add:BaseCurve": CallSpec(h_add_curve_scalar),
                 "func:copy": CallSpec(h_copy_any), "func:isinstance": CallSpec(h_isinstance_curve), "call:self.__class__": CallSpec(h_new_curve),
                 "func:KnotVector": CallSpec(h_KnotVector), "unary:USub:BaseCurve": CallSpec(h_neg_curve), "binop:Add:BaseCurve": CallSpec(h_add_curve_scalar),
                 "method:BaseCurve.__add__": CallSpec(h_add_curve_scalar)})
NEWCURVE = ["not same(result, self)", "not same(KV(result), KV(self))", "unchanged(self)", "npts(result) == npts(self)", "deg(result) == deg(self)", "INV(result)",
            "eq_elems(W(result), W(self))"]


def op_contract(name, qual, params, elem, raises=None, W=0):
    return Contract(
        "curves.BaseCurve.%s[W=%d]" % (name, W), setup=curve_state(1, W), params=dict({"self": "obj:BaseCurve"}, **params), spec=CSPEC, calls=OP_CALLS,
        ensures=NEWCURVE + ["len(P(result)) == len(P(self))", "all(P(result)[i] == %s for i in range(len(P(self))))" % elem],
        raises=raises or {}, exc_ensures=ATOMIC, canary="same(result, self)")


_ops = []
for _W in (0, 1):
    _ops += [
        (op_contract("__deepcopy__", None, {"memo": "any"}, "P(self)[i]", W=_W), "curves", "BaseCurve.__deepcopy__", None),
        (op_contract("__neg__", None, {}, "0 - P(self)[i]", W=_W), "curves", "BaseCurve.__neg__", None),
        (op_contract("__add__[scalar]", None, {"other": "real"}, "other + P(self)[i]", W=_W), "curves", "BaseCurve.__add__", None),
        (op_contract("__radd__[scalar]", None, {"other": "real"}, "other + P(self)[i]", W=_W), "curves", "BaseCurve.__radd__", None),
        (op_contract("__sub__[scalar]", None, {"other": "real"}, "P(self)[i] - other", W=_W), "curves", "BaseCurve.__sub__", None),
        (op_contract("__rsub__[scalar]", None, {"other": "real"}, "other - P(self)[i]", W=_W), "curves", "BaseCurve.__rsub__", None),
        (op_contract("__mul__[scalar]", None, {"other": "real"}, "P(self)[i] * other", W=_W), "curves", "BaseCurve.__mul__", None),
        (op_contract("__rmul__[scalar]", None, {"other": "real"}, "other * P(self)[i]", W=_W), "curves", "BaseCurve.__rmul__", None),
        (op_contract("__truediv__[scalar]", None, {"other": "real"}, "P(self)[i] / other", raises={"ZeroDivisionError": "other == 0"}, W=_W), "curves", "BaseCurve.__truediv__", None),
    ]
for _c, _m, _q, _v in _ops:
    _c.tag = _c.name[_c.name.index("["):] if "[" in _c.name else ""
    _c.name = _c.name
ALL += _ops


# ======================================================================================
# Call-site contracts of functions that are under contract themselves.  For every handler registered (in any contract above) under one of these
# keys, pyvc/conform.py discharges that the handler assumes nothing the callee's contract did not prove (pre / exc / post / kind obligations):
# the facts a caller's proof takes from such a call are then consequences of obligations discharged from the callee's source, not assumptions.
# ======================================================================================
# key -> (prefix of the callee's contract names, number of positional arguments given to the handler, parameters passed by keyword)
CALLEE_OF = {
    "setattr:BaseCurve.ctrlpoints": ("curves.BaseCurve.ctrlpoints.setter", None, None),
    "setattr:BaseCurve.weights": ("curves.BaseCurve.weights.setter", None, None),
    "method:BaseCurve.update": ("curves.BaseCurve.update", 2, None),
    "setattr:BaseCurve.knotvector": ("curves.BaseCurve.knotvector.setter", None, None),
    "method:BaseCurve.apply": ("curves.BaseCurve.apply", None, None),
    "method:BaseCurve.degree_increase": ("curves.Curve.degree_increase", 2, None),
    "method:BaseCurve.degree_decrease": ("curves.Curve.degree_decrease", 3, None),
    "method:BaseCurve.knot_remove": ("curves.Curve.knot_remove", 2, None),
    "method:BaseCurve.knot_clean": ("curves.Curve.knot_clean", 1, ["tolerance"]),
    "method:BaseCurve.degree_clean": ("curves.Curve.degree_clean", 1, ["tolerance"]),
    "method:BaseCurve.fit_points": ("curves.Curve.fit_points", None, None),
    "func:copy": ("curves.BaseCurve.__deepcopy__", 1, None),
    "unary:USub:BaseCurve": ("curves.BaseCurve.__neg__", None, None),
    "binop:Add:BaseCurve": ("curves.BaseCurve.__add__[scalar]", None, None),
    "method:BaseCurve.__add__": ("curves.BaseCurve.__add__[scalar]", None, None),
    "rbinop:Add:BaseCurve": ("curves.BaseCurve.__radd__[scalar]", None, None),
    "func:norm": ("curves.norm[scalar]", None, None),
}
# handlers that are ASSUMPTIONS by design (not derived from the callee's contract): listed, never counted as discharged
ASSUMED_HANDLERS = {"h_set_weights[assume_no_roots]": "A11: the zero test of the weight setter passes for weights produced by the library from admissible weights"}


def callsite_pairs(contracts=None):
    """(key, handler, callee contract, module, qualname, variant, nargs, kw) for every distinct handler the given contracts (default: all)
    register under a key of CALLEE_OF."""
    out, seen, assumed = [], set(), []
    for c, _m, _q, _v in (contracts if contracts is not None else ALL):
        for key, spec in c.calls.items():
            if key not in CALLEE_OF:
                continue
            h = spec._h
            if key == "func:copy" and h is not h_copy_any:
                continue                # copy(knotvector): another callee (facade2: KnotVector.__deepcopy__)
            if (key, id(h)) in seen:
                continue
            seen.add((key, id(h)))
            if getattr(h, "assumption", None):
                assumed.append((key, h.assumption))
                continue
            prefix, nargs, kw = CALLEE_OF[key]
            hit = [(cc, m, q, v) for cc, m, q, v in ALL if cc.name.startswith(prefix)]
            assert hit, prefix
            for cc, m, q, v in hit:
                out.append(("%s via %s" % (key, getattr(h, "__name__", "handler")), h, cc, m, q, v, nargs, kw))
    return out, assumed


CONFORM, CONFORM_ASSUMED = callsite_pairs()
for _pair in CONFORM:
    try:
        _pair[1].checked_against_callee = True
    except AttributeError:
        pass


def callsite_tasks(selected):
    """Conformance tasks for every call-site contract the selected contracts may use (their `calls` tables)."""
    from ..pyvc.driver import verify_callsite
    return [(verify_callsite, pair) for pair in callsite_pairs(selected)[0]]


def with_callees(quals):
    """The contracts of the given functions and, transitively, of every function under contract that their `calls` tables name: a caller's proof
    rests on the callee's contract, so a check that verifies the caller verifies the callee (and the call-site contract between them) as well."""
    chosen = [t for t in ALL if t[2] in quals]
    names = {t[0].name for t in chosen}
    grew = True
    while grew:
        grew = False
        for c, _m, _q, _v in list(chosen):
            for key, spec in c.calls.items():
                if key in CALLEE_OF and not (key == "func:copy" and spec._h is not h_copy_any):
                    for t in ALL:
                        if t[0].name.startswith(CALLEE_OF[key][0]) and t[0].name not in names:
                            names.add(t[0].name)
                            chosen.append(t)
                            grew = True
    return chosen


def tasks_for(quals):
    from ..pyvc.driver import verify
    chosen = with_callees(quals)
    return [(verify, t) for t in chosen] + callsite_tasks(chosen)
