"""Sidecar contracts (engine V) for shape / dispatch / consistency facts of curves.Curve that do not depend on the numeric kernels:
the kernels are used by their *shape* contracts (a matrix with so many rows and columns), which engine S checks per shape."""
from __future__ import annotations

import z3

from ..pyvc import engine as E
from ..pyvc.engine import BoolV, CallSpec, Contract, NoneV, Num, Obj, Seq, Tup, fresh_int, fresh_real


def curve_self(eng, st):
    """A curve under its representation invariant: len(ctrlpoints) == npts == len(knotvector) - degree - 1."""
    npts = z3.Int("self_npts")
    P = Seq(z3.Array("self_P", z3.IntSort(), z3.RealSort()), z3.Int("self_P_len"))
    st.assume(z3.And(npts >= 1, P.n == npts))
    st.env["self"] = Obj("Curve", {"_BaseCurve__ctrlpoints": P, "npts": Num(npts, True)})
    st.env["npts"] = Num(npts, True)
    st.env["P"] = P


def h_private_eval(eng, st, args, kw, node, exits):
    """Curve.__eval(nodes) by contract (values checked per shape by engine S in C01): ValueError if a node is outside the interval,
    otherwise one point per node, in order; VAL is the ghost 'value of the curve at' function."""
    o, nodes = args
    if isinstance(nodes, Tup) and all(isinstance(x, Num) for x in nodes.items):
        arr = z3.K(z3.IntSort(), z3.RealVal(0))
        for k, x in enumerate(nodes.items):
            arr = z3.Store(arr, k, x.real())
        nodes = Seq(arr, z3.IntVal(len(nodes.items)), False)
    if not isinstance(nodes, Seq):
        raise E.Unsupported("__eval of %r" % (nodes,))
    eng.raise_exc(st, "ValueError", E.fresh("outside", z3.BoolSort()), node.lineno, exits)
    r = E.fresh_seq("points")
    i = fresh_int("i")
    st.assume(r.n == nodes.n)
    st.assume(z3.ForAll([i], z3.Implies(z3.And(i >= 0, i < nodes.n), z3.Select(r.arr, i) == VAL(z3.Select(nodes.arr, i))), patterns=[z3.Select(r.arr, i)]))
    return r


VAL = z3.Function("CURVE_VALUE", z3.RealSort(), z3.RealSort())


def h_tuple_or_typeerror(eng, st, args, kw, node, exits):
    v = args[0]
    if isinstance(v, Seq):
        return Seq(v.arr, v.n, False)
    eng.raise_exc(st, "TypeError", z3.BoolVal(True), node.lineno, exits)      # tuple(number) raises TypeError
    raise E._DeadPath()


def h_valid_noop(eng, st, args, kw, node, exits):
    return BoolV(E.fresh("valid", z3.BoolSort()))


EVAL_CALLS = {
    "getattr:Curve.ctrlpoints": CallSpec(lambda eng, st, a, kw, node, exits: a[0].fields["_BaseCurve__ctrlpoints"]),
    "getattr:Curve.knotvector": CallSpec(lambda eng, st, a, kw, node, exits: Obj("KnotVectorView")),
    "method:KnotVectorView.valid": CallSpec(h_valid_noop),
    "method:Curve._Curve__eval": CallSpec(h_private_eval),
    "func:tuple": CallSpec(h_tuple_or_typeerror),
}

EVAL_SCALAR = Contract(
    "curves.Curve.eval[scalar]", params={"self": "obj:Curve", "nodes": "real"}, setup=curve_self, calls=EVAL_CALLS,
    spec={"value": lambda se, x: Num(VAL(x.real()), False)},
    ensures=["result == value(old(nodes))"],                      # a scalar argument yields ONE point: the value at that parameter
    raises={"ValueError": None}, canary="result == value(old(nodes) + 1)", result_kind="num",
)
EVAL_SEQ = Contract(
    "curves.Curve.eval[sequence]", params={"self": "obj:Curve", "nodes": "seq"}, setup=curve_self, calls=EVAL_CALLS,
    spec={"value": lambda se, x: Num(VAL(x.real()), False)},
    ensures=["len(result) == len(nodes)", "all(result[i] == value(nodes[i]) for i in range(len(nodes)))"],     # one point per node, in order, for EVERY length
    raises={"ValueError": None}, covers=["len(nodes) == 1", "len(nodes) == 0", "len(nodes) == 5"], canary="len(result) == len(nodes) + 1", result_kind="seq",
)

ALL = [
    (EVAL_SCALAR, "curves", "Curve.eval", None),
    (EVAL_SEQ, "curves", "Curve.eval", None),
]


# ======================================================================================
# C15 at shape level: the representation invariant of a curve and atomicity of refusals, for ALL curves and arguments.
#   INV(c):  ctrlpoints is None or len(ctrlpoints) == npts(knotvector);   weights is None or len(weights) == npts(knotvector)
# A knot vector is seen through (npts, degree) only; the numeric kernels are used by their shape contracts (rows/cols), which engine S
# checks per shape in C04-C07.  Every contract below has   ensures INV   and   on every exceptional exit: the three fields are unchanged.
# ======================================================================================
KVF, PF, WF_ = "_BaseCurve__knotvector", "_BaseCurve__ctrlpoints", "_BaseCurve__weights"


def new_kvobj(st, tag, npts=None, degree=None):
    n = npts if npts is not None else fresh_int(tag + "_npts")
    d = degree if degree is not None else fresh_int(tag + "_deg")
    st.assume(z3.And(d >= 0, n >= d + 1))
    return Obj("AbsKnotVector", {"npts": Num(n, True), "degree": Num(d, True)})


def curve_state(P, W, cls="BaseCurve"):
    """self with ctrlpoints present/absent (P) and weights present/absent (W), satisfying INV on entry."""
    def setup(eng, st):
        kv = new_kvobj(st, "self")
        f = {KVF: kv}
        if P:
            p = Seq(z3.Array("self_P", z3.IntSort(), z3.RealSort()), z3.Int("self_P_len"))
            st.assume(p.n == kv.fields["npts"].z)
            f[PF] = p
        else:
            f[PF] = NoneV()
        if W:
            w = Seq(z3.Array("self_W", z3.IntSort(), z3.RealSort()), z3.Int("self_W_len"))
            st.assume(w.n == kv.fields["npts"].z)
            f[WF_] = w
        else:
            f[WF_] = NoneV()
        st.env["self"] = Obj(cls, f)
    return setup


def _same_val(a, b):
    if isinstance(a, NoneV) or isinstance(b, NoneV):
        return z3.BoolVal(isinstance(a, NoneV) and isinstance(b, NoneV))
    if isinstance(a, Obj) or isinstance(b, Obj):
        return z3.BoolVal(a is b)
    if isinstance(a, Seq) and isinstance(b, Seq):
        return z3.And(a.n == b.n, a.arr == b.arr)
    return z3.BoolVal(False)


def sp_unchanged(se, o):
    old = se.eng.old_fields["self"]
    return BoolV(z3.And(*[_same_val(o.fields[k], old[k]) for k in (KVF, PF, WF_)]))


def sp_inv(se, o):
    n = o.fields[KVF].fields["npts"].z
    cs = []
    for k in (PF, WF_):
        v = o.fields[k]
        if isinstance(v, Seq):
            cs.append(v.n == n)
        elif not isinstance(v, NoneV):
            cs.append(z3.BoolVal(False))
    return BoolV(z3.And(*cs) if cs else z3.BoolVal(True))


def sp_field(k):
    return lambda se, o: o.fields[k]


def sp_same_seq(se, a, b):
    return BoolV(_same_val(a, b))


CSPEC = {"unchanged": sp_unchanged, "INV": sp_inv, "P": sp_field(PF), "W": sp_field(WF_), "KV": sp_field(KVF), "same_seq": sp_same_seq,
         "npts": lambda se, o: o.fields[KVF].fields["npts"], "deg": lambda se, o: o.fields[KVF].fields["degree"],
         "kv_npts": lambda se, k: k.fields["npts"], "kv_deg": lambda se, k: k.fields["degree"]}
ATOMIC = {"*": ["unchanged(self)"]}


def g_field_tuple(k):
    def h(eng, st, a, kw, node, exits):
        v = a[0].fields[k]
        return Seq(v.arr, v.n, False) if isinstance(v, Seq) else v      # the getters return tuple(field) or None
    return h


def h_knots_abs(eng, st, a, kw, node, exits):
    k = E.fresh_seq("knots")
    st.assume(k.n >= 2)
    return k


def h_noop(eng, st, a, kw, node, exits):
    return NoneV()


CURVE_GETTERS = {
    "getattr:BaseCurve.knotvector": CallSpec(lambda eng, st, a, kw, node, exits: a[0].fields[KVF]),
    "getattr:BaseCurve.npts": CallSpec(lambda eng, st, a, kw, node, exits: a[0].fields[KVF].fields["npts"]),
    "getattr:BaseCurve.degree": CallSpec(lambda eng, st, a, kw, node, exits: a[0].fields[KVF].fields["degree"]),
    "getattr:BaseCurve.ctrlpoints": CallSpec(g_field_tuple(PF)),
    "getattr:BaseCurve.weights": CallSpec(g_field_tuple(WF_)),
    "getattr:AbsKnotVector.npts": CallSpec(lambda eng, st, a, kw, node, exits: a[0].fields["npts"]),
    "getattr:AbsKnotVector.degree": CallSpec(lambda eng, st, a, kw, node, exits: a[0].fields["degree"]),
    "getattr:AbsKnotVector.knots": CallSpec(h_knots_abs),
    "func:iter": CallSpec(h_noop),
}

# ---- ctrlpoints.setter ------------------------------------------------------------------------------------------------
SETTER_LOOPS = {0: dict(invariant=["0 <= it0 and it0 <= len(newpoints)"], decreases="len(newpoints) - it0"),
                1: dict(invariant=["0 <= it1 and it1 <= len_it1"], decreases="len_it1 - it1"),
                2: dict(invariant=["0 <= it2 and it2 <= len(newpoints)"], decreases="len(newpoints) - it2")}


def ctrl_setter(P, W):
    return Contract(
        "curves.BaseCurve.ctrlpoints.setter[P=%d,W=%d]" % (P, W), params={"self": "obj:BaseCurve", "newpoints": "seq"}, setup=curve_state(P, W),
        spec=CSPEC, calls=CURVE_GETTERS, loops=SETTER_LOOPS,
        ensures=["len(newpoints) == npts(self)", "same_seq(P(self), newpoints)", "INV(self)", "same(KV(self), old(KV(self)))"],
        raises={"ValueError": "len(newpoints) != npts(self)"}, exc_ensures=ATOMIC,
        covers=["len(newpoints) == npts(self)", "len(newpoints) == npts(self) + 1"], canary="len(P(self)) == npts(self) + 1")


CTRL_SETTER_NONE = Contract(
    "curves.BaseCurve.ctrlpoints.setter[None]", params={"self": "obj:BaseCurve", "newpoints": "none"}, setup=curve_state(1, 1),
    spec=CSPEC, calls=CURVE_GETTERS, ensures=["is_none(P(self))", "INV(self)", "same(KV(self), old(KV(self)))"], raises={}, exc_ensures=ATOMIC,
    canary="not is_none(P(self))")

ALL += [(ctrl_setter(P, W), "curves", "BaseCurve.ctrlpoints", "ctrlpoints.setter") for P in (0, 1) for W in (0, 1)]
ALL += [(CTRL_SETTER_NONE, "curves", "BaseCurve.ctrlpoints", "ctrlpoints.setter")]


# ---- weights.setter ---------------------------------------------------------------------------------------------------
def h_tuple_any(eng, st, args, kw, node, exits):
    v = args[0]
    if isinstance(v, Obj) and v.cls == "AbsKnotVector":        # tuple(knotvector): its npts + degree + 1 values
        s = E.fresh_seq("vector")
        st.assume(s.n == v.fields["npts"].z + v.fields["degree"].z + 1)
        GHOST_VECTORS.append((s, v))
        return s
    if isinstance(v, NoneV):
        eng.raise_exc(st, "TypeError", z3.BoolVal(True), node.lineno, exits)
        raise E._DeadPath()
    return h_tuple_or_typeerror(eng, st, args, kw, node, exits)


GHOST_VECTORS = []      # (sequence value, the abstract knot vector it lists): lets a callee contract speak of npts(vector)


def kv_of_vector(seq):
    for s, v in reversed(GHOST_VECTORS):
        if s.n is seq.n or z3.eq(s.n, seq.n):
            return v
    raise E.Unsupported("a knot vector given as a plain sequence of unknown origin")


def h_find_roots(eng, st, args, kw, node, exits):
    """heavy.find_roots(vector, values) by ASSUMED contract (A5; float sampling code):
       * ValueError when len(values) != npts(vector)   (numpy refuses the product of the sampled basis matrix with the values; engine B checks
         this clause on the real function for every (degree, npts, length) of the bounded domain in C15),
       * otherwise some tuple of nodes (the zeros found)."""
    vec, vals = args
    kv = kv_of_vector(vec)
    eng.raise_exc(st, "ValueError", vals.n != kv.fields["npts"].z, node.lineno, exits)
    r = E.fresh_seq("roots")
    st.assume(r.n >= 0)
    return r


WEIGHT_CALLS = dict(CURVE_GETTERS)
WEIGHT_CALLS.update({"func:tuple": CallSpec(h_tuple_any), "call:heavy.find_roots": CallSpec(h_find_roots)})


def weight_setter(P, W):
    return Contract(
        "curves.BaseCurve.weights.setter[P=%d,W=%d]" % (P, W), params={"self": "obj:BaseCurve", "value": "seq"}, setup=curve_state(P, W),
        spec=CSPEC, calls=WEIGHT_CALLS, loops={0: dict(invariant=["0 <= it0 and it0 <= len_it0"], decreases="len_it0 - it0")},
        ensures=["same_seq(W(self), old(value))", "len(W(self)) == npts(self)", "INV(self)", "same(KV(self), old(KV(self)))", "same_seq(P(self), old(P(self)))"],
        raises={"ValueError": None}, exc_ensures=ATOMIC,
        covers=["len(value) == npts(self)", "len(value) == npts(self) + 1"], canary="len(W(self)) == npts(self) + 1")


WEIGHT_SETTER_NONE = Contract(
    "curves.BaseCurve.weights.setter[None]", params={"self": "obj:BaseCurve", "value": "none"}, setup=curve_state(1, 1),
    spec=CSPEC, calls=WEIGHT_CALLS, ensures=["is_none(W(self))", "INV(self)", "same(KV(self), old(KV(self)))", "same_seq(P(self), old(P(self)))"],
    raises={}, exc_ensures=ATOMIC, canary="not is_none(W(self))")

ALL += [(weight_setter(P, W), "curves", "BaseCurve.weights", "weights.setter") for P in (0, 1) for W in (0, 1)]
ALL += [(WEIGHT_SETTER_NONE, "curves", "BaseCurve.weights", "weights.setter")]


# ---- setters as seen from their callers (contracts proved above) ------------------------------------------------------------
def as_seq(v):
    return v


def h_set_ctrl(eng, st, args, kw, node, exits):
    """self.ctrlpoints = value  by the setter's contract: None clears; otherwise ValueError unless len(value) == npts, then the field is value."""
    o, v = args
    if isinstance(v, NoneV):
        o.fields[PF] = NoneV()
        return NoneV()
    if not isinstance(v, Seq):
        raise E.Unsupported("ctrlpoints = %r" % (v,))
    eng.raise_exc(st, "ValueError", v.n != o.fields[KVF].fields["npts"].z, node.lineno, exits)
    o.fields[PF] = Seq(v.arr, v.n, False)
    return NoneV()


def mk_set_weights(assume_no_roots):
    def h_set_weights(eng, st, args, kw, node, exits):
        """self.weights = value  by the setter's contract: None clears; ValueError when len(value) != npts or the weight function has a zero
        (find_roots), the curve unchanged; otherwise the field is value.   With assume_no_roots (A11) the zero test is assumed to pass."""
        o, v = args
        if isinstance(v, NoneV):
            o.fields[WF_] = NoneV()
            return NoneV()
        if not isinstance(v, Seq):
            raise E.Unsupported("weights = %r" % (v,))
        refused = v.n != o.fields[KVF].fields["npts"].z
        if not assume_no_roots:
            refused = z3.Or(refused, E.fresh("weight_function_has_a_zero", z3.BoolSort()))
        eng.raise_exc(st, "ValueError", refused, node.lineno, exits)
        o.fields[WF_] = Seq(v.arr, v.n, False)
        return NoneV()
    return h_set_weights


SETTER_CALLS = {"setattr:BaseCurve.ctrlpoints": CallSpec(h_set_ctrl), "setattr:BaseCurve.weights": CallSpec(mk_set_weights(False))}


# ---- update ------------------------------------------------------------------------------------------------------------------
def h_KnotVector(eng, st, args, kw, node, exits):
    """KnotVector(x): x a KnotVector -> a knot vector with the same content; x a sequence that lists a knot vector -> that knot vector
    (ValueError if the sequence is not a valid knot vector: its validity is not known at this level)."""
    v = args[0]
    if isinstance(v, Obj) and v.cls == "AbsKnotVector":
        return v
    if isinstance(v, Seq):
        kv = kv_of_vector(v)
        return kv
    raise E.Unsupported("KnotVector(%r)" % (v,))


def h_kv_eq(eng, st, args, kw, node, exits):
    a, b = args
    if a is b:
        return BoolV(z3.BoolVal(True))
    e = E.fresh("kv_equal", z3.BoolSort())
    st.assume(z3.Implies(e, z3.And(*[a.fields[k].z == b.fields[k].z for k in ("npts", "degree")])))
    return BoolV(e)


def h_limits(eng, st, args, kw, node, exits):
    o = args[0]
    if "lo" not in o.fields:
        o.fields["lo"], o.fields["hi"] = Num(fresh_real("umin"), False), Num(fresh_real("umax"), False)
    return Tup([o.fields["lo"], o.fields["hi"]])


def h_new_curve(eng, st, args, kw, node, exits):
    """self.__class__(knotvector): a new curve on that knot vector without control points and weights."""
    kv = h_KnotVector(eng, st, [args[0]], kw, node, exits)
    return Obj("BaseCurve", {KVF: kv, PF: NoneV(), WF_: NoneV()})


def h_fit_curve(eng, st, args, kw, node, exits):
    """temp.fit_curve(other, nodes) by contract (shape part proved below as FIT_CURVE; values: C11): ValueError possible (temp is a fresh object),
    otherwise temp gets npts(temp) control points, weights iff other has weights (npts(temp) of them), and a number is returned; other is unchanged."""
    t, other = args[0], args[1]
    eng.raise_exc(st, "ValueError", E.fresh("fit_refused", z3.BoolSort()), node.lineno, exits)
    n = t.fields[KVF].fields["npts"].z
    p = E.fresh_seq("fitted_points")
    st.assume(p.n == n)
    t.fields[PF] = p
    if isinstance(other.fields[WF_], Seq):
        w = E.fresh_seq("fitted_weights")
        st.assume(w.n == n)
        t.fields[WF_] = w
    err = fresh_real("fit_error")
    st.assume(err >= 0)
    return Num(err, False)


UPDATE_CALLS = dict(CURVE_GETTERS)
UPDATE_CALLS.update(SETTER_CALLS)
UPDATE_CALLS.update({
    "func:KnotVector": CallSpec(h_KnotVector), "compare:Eq:AbsKnotVector": CallSpec(h_kv_eq), "getattr:AbsKnotVector.limits": CallSpec(h_limits),
    "call:self.__class__": CallSpec(h_new_curve), "method:BaseCurve.fit_curve": CallSpec(h_fit_curve),
    "func:float": CallSpec(lambda eng, st, a, kw, node, exits: a[0]),
})
UPDATE_CALLS_A11 = dict(UPDATE_CALLS)
UPDATE_CALLS_A11["setattr:BaseCurve.weights"] = CallSpec(mk_set_weights(True))


def h_update_call(eng, st, args, kw, node, exits):
    """c.update(newknotvector, tolerance, nodes) by the contract proved as update_contract: ValueError with c unchanged, or c on the new knot
    vector with INV (control points / weights present exactly when they were)."""
    c = args[0]
    kv = h_KnotVector(eng, st, [args[1]], kw, node, exits)
    if isinstance(c.fields[PF], Seq) or isinstance(c.fields[WF_], Seq):     # without points and weights update never refuses (proved: raises={})
        eng.raise_exc(st, "ValueError", E.fresh("update_refused", z3.BoolSort()), node.lineno, exits)
    n = kv.fields["npts"].z
    c.fields[KVF] = kv
    for k, tag in ((PF, "updated_points"), (WF_, "updated_weights")):
        if isinstance(c.fields[k], Seq):
            s = E.fresh_seq(tag)
            st.assume(s.n == n)
            c.fields[k] = s
    return NoneV()


UPDATE_CALLS["method:BaseCurve.update"] = CallSpec(h_update_call)
UPDATE_CALLS_A11["method:BaseCurve.update"] = CallSpec(h_update_call)


def setup_update(P, W):
    base = curve_state(P, W)

    def setup(eng, st):
        base(eng, st)
        st.env["newknotvector"] = new_kvobj(st, "new")
    return setup


def update_contract(P, W, tol):
    return Contract(
        "curves.BaseCurve.update[P=%d,W=%d,tolerance=%s]" % (P, W, tol), setup=setup_update(P, W),
        params={"self": "obj:BaseCurve", "newknotvector": "obj:KnotVector", "tolerance": tol, "nodes": "any"},
        spec=CSPEC, calls=UPDATE_CALLS_A11 if (P and W) else UPDATE_CALLS,
        ensures=["INV(self)", "npts(self) == kv_npts(newknotvector)", "deg(self) == kv_deg(newknotvector)",
                 "iff(is_none(P(self)), is_none(old(P(self))))", "iff(is_none(W(self)), is_none(old(W(self))))"],
        raises={"ValueError": None} if (P or W) else {}, exc_ensures=ATOMIC, canary="npts(self) == kv_npts(newknotvector) + 1")


ALL += [(update_contract(P, W, tol), "curves", "BaseCurve.update", None) for P in (0, 1) for W in (0, 1) for tol in ("real", "none")]


# ---- apply -------------------------------------------------------------------------------------------------------------------
def h_np_dot(eng, st, args, kw, node, exits):
    """np.dot(matrix, vector): ValueError unless cols(matrix) == len(vector); a vector with rows(matrix) entries (values not modelled here)."""
    m, v = args
    if not (isinstance(m, E.Mat) and isinstance(v, Seq)):
        raise E.Unsupported("np.dot of %r and %r" % (m, v))
    eng.raise_exc(st, "ValueError", m.c != v.n, node.lineno, exits)
    r = E.fresh_seq("product")
    st.assume(r.n == m.r)
    return r


def h_set_kv(eng, st, args, kw, node, exits):
    """self.knotvector = value  by the setter's contract (KNOTVECTOR_SETTER below = update with default arguments)."""
    return h_update_call(eng, st, [args[0], args[1]], kw, node, exits)


def setup_apply(P, W):
    base = curve_state(P, W)

    def setup(eng, st):
        base(eng, st)
        new = new_kvobj(st, "new")
        st.env["newknotvector"] = new
        r, c = z3.Int("matrix_rows"), z3.Int("matrix_cols")
        arr = z3.Array("matrix", z3.IntSort(), z3.ArraySort(z3.IntSort(), z3.RealSort()))
        st.env["matrix"] = E.Mat(arr, r, c)
        # precondition of apply (the callers' obligation): the matrix maps the old control points to those of the new knot vector
        st.assume(z3.And(r == new.fields["npts"].z, c == st.env["self"].fields[KVF].fields["npts"].z))
    return setup


APPLY_CALLS = dict(UPDATE_CALLS_A11)
APPLY_CALLS.update({"call:np.dot": CallSpec(h_np_dot), "setattr:BaseCurve.knotvector": CallSpec(h_set_kv)})

APPLY_LOOPS = {
    0: dict(invariant=["0 <= it0 and it0 <= len_it0", "len(oldctrlpoints) == npts(self)"], decreases="len_it0 - it0"),
    1: dict(invariant=["0 <= it1 and it1 <= len_it1", "len(newctrlpoints) == it1", "len(oldctrlpoints) == npts(self)", "unchanged(self)"], decreases="len_it1 - it1"),
    2: dict(invariant=["0 <= it2 and it2 <= len_it2", "len(newctrlpoints) == it1 + 1", "len(oldctrlpoints) == npts(self)", "unchanged(self)"], decreases="len_it2 - it2"),
}


def apply_contract(P, W):
    return Contract(
        "curves.BaseCurve.apply[P=%d,W=%d]" % (P, W), setup=setup_apply(P, W),
        params={"self": "obj:BaseCurve", "newknotvector": "obj:KnotVector", "matrix": "any"},
        spec=CSPEC, calls=APPLY_CALLS, loops=APPLY_LOOPS if (P and W) else {},
        ensures=["INV(self)", "npts(self) == kv_npts(newknotvector)", "deg(self) == kv_deg(newknotvector)",
                 "iff(is_none(P(self)), is_none(old(P(self))))", "iff(is_none(W(self)), is_none(old(W(self))))"],
        raises={"ZeroDivisionError": None} if (P and W) else {}, exc_ensures=ATOMIC, canary="npts(self) == kv_npts(newknotvector) + 1")


ALL += [(apply_contract(P, W), "curves", "BaseCurve.apply", None) for P in (0, 1) for W in (0, 1)]
