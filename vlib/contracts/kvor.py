"""Sidecar contract (engine V) for heavy.ImmutableKnotVector.__or__: the MULTIPLICITY RULE of the union, for knot vectors of every length and degree.
Proved: at the point where the result vector is assembled, for every distinct knot x of either operand
    all_mults[x] == max(cand_self(x), cand_other(x)),   cand_v(x) = mult_v(x) + max(p, q) - degree_v  if x is a knot of v, else 0
(the lower continuity order wins).  The assembly itself (`[knot] * mult` per knot, sorted, constructor) is left to the per-shape runs of engine S."""
from __future__ import annotations

import z3

from ..pyvc import engine as E
from ..pyvc.engine import BoolV, CallSpec, Contract, Num, Obj, Seq, Tup, fresh_int, fresh_real
from .kv import KV_CALLS, ctor, kv_self, new_kv, sorted_z3, wf_z3

R, I = z3.RealSort(), z3.IntSort()
GH = {}      # ghost functions of the current run


def setup(eng, st):
    a = kv_self(eng, st, name="self")
    b = kv_self(eng, st, name="other")
    st.env["US"], st.env["UO"] = a.fields["_seq"], b.fields["_seq"]
    st.env["ps"], st.env["po"] = a.fields["_ImmutableKnotVector__degree"], b.fields["_ImmutableKnotVector__degree"]
    GH.clear()
    i = z3.Int("gi")
    x = z3.Real("gx")
    for tag, o in (("s", a), ("o", b)):
        U = o.fields["_seq"]
        p = o.fields["_ImmutableKnotVector__degree"].z
        MULT, IN, W = z3.Function("MULT_" + tag, R, I), z3.Function("IN_" + tag, R, z3.BoolSort()), z3.Function("W_" + tag, R, I)
        GH[id(o)] = dict(MULT=MULT, IN=IN, W=W, U=U, p=p, tag=tag)
        # IN_v(x) <=> x is an element of v (witness function W_v instead of an existential)
        st.assume(z3.ForAll([i], z3.Implies(z3.And(i >= 0, i < U.n), IN(z3.Select(U.arr, i))), patterns=[z3.Select(U.arr, i)]))
        st.assume(z3.ForAll([x], z3.Implies(IN(x), z3.And(W(x) >= 0, W(x) < U.n, z3.Select(U.arr, W(x)) == x)), patterns=[IN(x)]))
        # contract of mult() on a knot of the vector: between 1 and degree + 1 (proved per shape by engine S; A10)
        st.assume(z3.ForAll([x], z3.Implies(IN(x), z3.And(MULT(x) >= 1, MULT(x) <= p + 1)), patterns=[MULT(x)]))
    GH["POS"] = z3.Function("POS", R, I)


def h_knots(eng, st, args, kw, node, exits):
    """v.knots (assumed contract, A10; checked per shape by engine S): the strictly increasing distinct values of v - every element of v is one of
    them and each of them is an element of v."""
    o = args[0]
    g = GH[id(o)]
    U = g["U"]
    k = E.fresh_seq("knots_" + g["tag"])
    i, j = fresh_int("i"), fresh_int("j")
    dst = z3.Function("kdst_%s!%d" % (g["tag"], next(E._fresh)), I, I)
    st.assume(k.n >= 2)
    st.assume(z3.ForAll([j], z3.Implies(z3.And(0 <= j, j < k.n - 1), z3.Select(k.arr, j) < z3.Select(k.arr, j + 1))))
    st.assume(z3.ForAll([j], z3.Implies(z3.And(0 <= j, j < k.n), g["IN"](z3.Select(k.arr, j))), patterns=[z3.Select(k.arr, j)]))
    st.assume(z3.ForAll([i], z3.Implies(z3.And(0 <= i, i < U.n), z3.And(0 <= dst(i), dst(i) < k.n, z3.Select(k.arr, dst(i)) == z3.Select(U.arr, i))),
                        patterns=[z3.Select(U.arr, i)]))
    return k


def h_list(eng, st, args, kw, node, exits):
    v = args[0]
    return Seq(v.arr, v.n, True)


def h_unique(eng, st, args, kw, node, exits):
    """__get_unique (assumed contract under A3, as in kvnew): strictly increasing, same set of values.  Ghost: POS(x) = position of x in the result
    (well defined because the result is strictly increasing)."""
    a = args[0]
    k = E.fresh_seq("all_knots")
    i, j = fresh_int("i"), fresh_int("j")
    f = z3.Function("uniq_src!%d" % next(E._fresh), I, I)
    g = z3.Function("uniq_dst!%d" % next(E._fresh), I, I)
    st.assume(k.n >= 0)
    st.assume(z3.ForAll([i], z3.Implies(z3.And(0 <= i, i < k.n - 1), z3.Select(k.arr, i) < z3.Select(k.arr, i + 1))))
    st.assume(z3.ForAll([j], z3.Implies(z3.And(0 <= j, j < k.n), z3.And(0 <= f(j), f(j) < a.n, z3.Select(a.arr, f(j)) == z3.Select(k.arr, j))),
                        patterns=[z3.Select(k.arr, j)]))
    st.assume(z3.ForAll([i], z3.Implies(z3.And(0 <= i, i < a.n), z3.And(0 <= g(i), g(i) < k.n, z3.Select(k.arr, g(i)) == z3.Select(a.arr, i))),
                        patterns=[z3.Select(a.arr, i)]))
    st.assume(z3.ForAll([j], z3.Implies(z3.And(0 <= j, j < k.n), GH["POS"](z3.Select(k.arr, j)) == j), patterns=[z3.Select(k.arr, j)]))
    k.is_list = True
    return k


def h_mult(eng, st, args, kw, node, exits):
    o, x = args
    return Num(GH[id(o)]["MULT"](x.real()), True)


def h_sorted_any(eng, st, args, kw, node, exits):
    r = E.fresh_seq("sorted")
    st.assume(r.n == args[0].n)
    return r


def h_ctor_any(eng, st, args, kw, node, exits):
    v = args[0]
    if isinstance(v, Obj):
        return v
    eng.raise_exc(st, "ValueError", E.fresh("not_a_knot_vector", z3.BoolSort()), node.lineno, exits)
    return new_kv(st, v, "union")


def cand(tag):
    def f(se, x):
        g = [v for k, v in GH.items() if isinstance(v, dict) and v["tag"] == tag][0]
        maxdeg = z3.If(GH_p("s") >= GH_p("o"), GH_p("s"), GH_p("o"))
        return Num(z3.If(g["IN"](x.real()), g["MULT"](x.real()) + maxdeg - g["p"], 0), True)
    return f


def GH_p(tag):
    return [v for k, v in GH.items() if isinstance(v, dict) and v["tag"] == tag][0]["p"]


def gh_fn(name, tag=None):
    def f(se, x):
        if name == "POS":
            return Num(GH["POS"](x.real()), True)
        g = [v for k, v in GH.items() if isinstance(v, dict) and v["tag"] == tag][0]
        r = g[name](x.real())
        return BoolV(r) if name == "IN" else Num(r, True)
    return f


SPEC = {"isint": lambda se, x: BoolV(z3.IsInt(x.real())), "candS": cand("s"), "candO": cand("o"), "POS": gh_fn("POS"), "INS": gh_fn("IN", "s"), "INO": gh_fn("IN", "o"), "WS": gh_fn("W", "s"), "WO": gh_fn("W", "o")}

CALLS = dict(KV_CALLS)
CALLS.update({
    "getattr:ImmutableKnotVector.knots": CallSpec(h_knots), "func:list": CallSpec(h_list), "static:ImmutableKnotVector.__get_unique": CallSpec(h_unique),
    "method:ImmutableKnotVector.mult": CallSpec(h_mult), "func:ImmutableKnotVector": CallSpec(h_ctor_any), "func:sorted": CallSpec(h_sorted_any),
    "func:tuple": CallSpec(lambda eng, st, a, kw, node, exits: a[0]),
})

BOUND = "all(0 <= all_mults[j] and all_mults[j] <= max(candS(all_knots[j]), candO(all_knots[j])) for j in range(len(all_knots)))"
SHAPE = "len(all_mults) == len(all_knots)"
DONE_S = "all(all_mults[POS(US[i])] >= candS(US[i]) for i in range(%s))"
DONE_O = "all(all_mults[POS(UO[i])] >= candO(UO[i]) for i in range(%s))"
MAXDEG = "maxdegree == max(ps, po)"

OR = Contract(
    "heavy.ImmutableKnotVector.__or__[multiplicity-rule]",
    params={"self": "obj:ImmutableKnotVector", "other": "obj:ImmutableKnotVector"}, setup=setup, spec=SPEC, calls=CALLS,
    consts={"ImmutableKnotVector": E.Const(("module", "ImmutableKnotVector"))},
    ensures=[dict(when="True", var="j0", lo="0", hi="len(all_knots)", body="all_mults[j0] == max(candS(all_knots[j0]), candO(all_knots[j0]))",
                  hints=["j0", "WS(all_knots[j0])", "WO(all_knots[j0])"]),
             "len(all_mults) == len(all_knots)"],
    # TypeError: `[knot] * mult` needs an int and the value model keeps list entries as reals - not excluded at this level (engine S runs the assembly)
    raises={"ValueError": None, "TypeError": None},
    loops={
        0: dict(invariant=["0 <= it0 and it0 <= len(US)", SHAPE, MAXDEG, BOUND, DONE_S % "it0"], decreases="len(US) - it0"),
        1: dict(invariant=["0 <= it1 and it1 <= len(UO)", SHAPE, MAXDEG, BOUND, DONE_S % "len(US)", DONE_O % "it1"], decreases="len(UO) - it1"),
        2: dict(invariant=["0 <= it2 and it2 <= len_it2", SHAPE, "all(all_mults[j] == max(candS(all_knots[j]), candO(all_knots[j])) for j in range(len(all_knots)))"],
                decreases="len_it2 - it2"),
    },
    canary="all_mults[0] == 0",
)

ALL = [(OR, "heavy", "ImmutableKnotVector.__or__", None)]


# ======================================================================================
# __and__: per-knot MINIMUM of the multiplicities over the knots common to both operands
# ======================================================================================
def h_set(eng, st, args, kw, node, exits):
    v = args[0]
    if not isinstance(v, Seq):
        raise E.Unsupported("set(%r)" % (v,))
    return Obj("ValSet", {"seq": v})


def h_set_and(eng, st, args, kw, node, exits):
    """set(self.knots) & set(other.knots), then sorted: the strictly increasing sequence of the values that are knots of BOTH operands.
    Ghost: POS(x) = its position in that sequence."""
    a, b = args
    gs = [v for k, v in GH.items() if isinstance(v, dict) and v["tag"] == "s"][0]
    go = [v for k, v in GH.items() if isinstance(v, dict) and v["tag"] == "o"][0]
    c = E.fresh_seq("common")
    j = fresh_int("j")
    x = fresh_real("x")
    POS = GH["POS"]
    st.assume(c.n >= 0)
    st.assume(z3.ForAll([j], z3.Implies(z3.And(0 <= j, j < c.n - 1), z3.Select(c.arr, j) < z3.Select(c.arr, j + 1))))
    st.assume(z3.ForAll([j], z3.Implies(z3.And(0 <= j, j < c.n), z3.And(gs["IN"](z3.Select(c.arr, j)), go["IN"](z3.Select(c.arr, j)), POS(z3.Select(c.arr, j)) == j)),
                        patterns=[z3.Select(c.arr, j)]))
    st.assume(z3.ForAll([x], z3.Implies(z3.And(gs["IN"](x), go["IN"](x)), z3.And(0 <= POS(x), POS(x) < c.n, z3.Select(c.arr, POS(x)) == x)), patterns=[POS(x)]))
    return Obj("ValSet", {"seq": c})


def h_sorted_set(eng, st, args, kw, node, exits):
    v = args[0]
    if isinstance(v, Obj) and v.cls == "ValSet":
        s = v.fields["seq"]
        return Seq(s.arr, s.n, True)
    return h_sorted_any(eng, st, args, kw, node, exits)


def h_float(eng, st, args, kw, node, exits):
    """float("inf"): a number above every multiplicity (every comparison `mult < inf` in this function is with a multiplicity)."""
    inf = fresh_real("inf")
    st.assume(z3.And(inf > st.env["ps"].z + 2, inf > st.env["po"].z + 2))
    st.env["INF"] = Num(inf, False)
    return Num(inf, False)


def mult_of(tag):
    def f(se, x):
        g = [v for k, v in GH.items() if isinstance(v, dict) and v["tag"] == tag][0]
        return Num(g["MULT"](x.real()), True)
    return f


SPEC_AND = dict(SPEC, multS=mult_of("s"), multO=mult_of("o"))
CALLS_AND = dict(CALLS)
CALLS_AND.update({"func:set": CallSpec(h_set), "binop:BitAnd:ValSet": CallSpec(h_set_and), "func:sorted": CallSpec(h_sorted_set), "func:float": CallSpec(h_float)})
IMMUT = ("ValSet",)

LOW = "all(all_mults[j] >= min(multS(all_knots[j]), multO(all_knots[j])) and all_mults[j] <= INF for j in range(len(all_knots)))"
UP_S = "all(implies(INS(US[i]) and INO(US[i]), all_mults[POS(US[i])] <= multS(US[i])) for i in range(%s))"
UP_O = "all(implies(INS(UO[i]) and INO(UO[i]), all_mults[POS(UO[i])] <= multO(UO[i])) for i in range(%s))"

AND = Contract(
    "heavy.ImmutableKnotVector.__and__[multiplicity-rule]",
    params={"self": "obj:ImmutableKnotVector", "other": "obj:ImmutableKnotVector"}, setup=setup, spec=SPEC_AND, calls=CALLS_AND,
    consts={"ImmutableKnotVector": E.Const(("module", "ImmutableKnotVector"))},
    ensures=[dict(when="True", var="j0", lo="0", hi="len(all_knots)", body="all_mults[j0] == min(multS(all_knots[j0]), multO(all_knots[j0]))",
                  hints=["j0", "WS(all_knots[j0])", "WO(all_knots[j0])"]),
             "len(all_mults) == len(all_knots)"],
    raises={"ValueError": None, "TypeError": None},
    loops={
        0: dict(invariant=["0 <= it0 and it0 <= len(US)", SHAPE, LOW, UP_S % "it0"], decreases="len(US) - it0"),
        1: dict(invariant=["0 <= it1 and it1 <= len(UO)", SHAPE, LOW, UP_S % "len(US)", UP_O % "it1"], decreases="len(UO) - it1"),
        2: dict(invariant=["0 <= it2 and it2 <= len_it2", SHAPE, "all(all_mults[j] == min(multS(all_knots[j]), multO(all_knots[j])) for j in range(len(all_knots)))"],
                decreases="len_it2 - it2"),
    },
    canary="all_mults[0] == 0",
)

ALL += [(AND, "heavy", "ImmutableKnotVector.__and__", None)]
