"""Sidecar contracts (engine V) for knotspace.GeneratorKnotVector: closed forms for ALL degrees / npts / weight vectors and every randint draw."""
from __future__ import annotations

import z3

from ..pyvc import engine as E
from ..pyvc.engine import BoolV, CallSpec, Contract, Num, Obj, Seq, Tup, fresh_int, fresh_real
from .facade import FACADE_CALLS, FIELD, h_scale_method, h_shift_method
from .kv import KV_CALLS, ctor, wf_z3


def h_KnotVector(eng, st, args, kw, node, exits):
    """KnotVector(sequence): the facade around ImmutableKnotVector(sequence) (contract of KnotVector.__new__; the degree hint is the generator's degree)."""
    hint = eng.c.spec.get("ctor_hint")
    ikv = ctor(eng, st, args[0], node, exits, hint(eng, st, args[0]) if hint else None, label="KnotVector")
    return Obj("KnotVector", {FIELD: ikv})


def h_type(eng, st, args, kw, node, exits):
    return E.Const("numeric-type")


GEN_CALLS = dict(FACADE_CALLS)
GEN_CALLS.update({"func:KnotVector": CallSpec(h_KnotVector), "func:type": CallSpec(h_type)})
hint_degree = lambda eng, st, seq: st.env["degree"].z

BEZIER = Contract(
    "knotspace.GeneratorKnotVector.bezier", params={"degree": "int", "cls": "type"}, calls=GEN_CALLS, spec={"ctor_hint": hint_degree},
    ensures=["len(result.internal.U) == 2 * degree + 2", "result.internal.p == degree", "result.internal.n == degree + 1",
             "all(result.internal.U[i] == 0 for i in range(degree + 1))", "all(result.internal.U[i] == 1 for i in range(degree + 1, 2 * degree + 2))"],
    raises={"AssertionError": "degree < 0"}, covers=["degree == 0", "degree == 5"], canary="result.internal.U[0] == 1",
)

INTEGER = Contract(
    "knotspace.GeneratorKnotVector.integer", params={"degree": "int", "npts": "int", "cls": "type"}, calls=GEN_CALLS, spec={"ctor_hint": hint_degree},
    ensures=["len(result.internal.U) == npts + degree + 1", "result.internal.p == degree", "result.internal.n == npts",
             "all(result.internal.U[i] == 0 for i in range(degree + 1))",
             "all(result.internal.U[i] == real(i - degree) for i in range(degree, npts + 1))",
             "all(result.internal.U[i] == real(npts - degree) for i in range(npts, npts + degree + 1))",
             "all(result.internal.U[i + 1] - result.internal.U[i] == 1 for i in range(degree, npts))"],
    raises={"AssertionError": "degree < 0 or npts <= degree"}, covers=["degree == 0 and npts == 1", "degree == 3 and npts == 9"],
    canary="result.internal.U[degree + 1] == 0",
)

WEIGHT = Contract(
    "knotspace.GeneratorKnotVector.weight", params={"degree": "int", "weights": "seq"}, calls=GEN_CALLS, spec={"ctor_hint": hint_degree},
    requires=["all(weights[k] > 0 for k in range(len(weights)))"],
    ensures=["len(result.internal.U) == len(weights) + 2 * degree + 1", "result.internal.p == degree", "result.internal.n == degree + len(weights)",
             "all(result.internal.U[i] == 0 for i in range(degree + 1))",
             "all(result.internal.U[degree + k + 1] - result.internal.U[degree + k] == weights[k] for k in range(len(weights)))",
             "all(result.internal.U[i] == result.internal.U[degree + len(weights)] for i in range(degree + len(weights), len(weights) + 2 * degree + 1))"],
    raises={"AssertionError": "degree < 0 or len(weights) <= 0"},
    loops={0: dict(invariant=["0 <= it0 and it0 <= len(weights)", "len(listknots) == len(weights) + 1", "listknots[0] == 0",
                              "all(listknots[k + 1] == listknots[k] + weights[k] for k in range(it0))",
                              "all(all(listknots[a] < listknots[b] for b in range(a + 1, it0 + 1)) for a in range(it0 + 1))",
                              "all(listknots[k] == 0 for k in range(it0 + 1, len(weights) + 1))"],
                   decreases="len(weights) - it0")},
    covers=["len(weights) == 1", "len(weights) == 4 and degree == 2"], canary="result.internal.U[degree + 1] == 0",
)


def h_integer(eng, st, args, kw, node, exits):
    """GeneratorKnotVector.integer by contract (proved: INTEGER)."""
    degree, npts = args[0], args[1]
    eng.raise_exc(st, "AssertionError", z3.Or(degree.z < 0, npts.z <= degree.z), node.lineno, exits)
    r = E.fresh_seq("intkv")
    i = fresh_int("i")
    p, n = degree.z, npts.z
    st.assume(r.n == n + p + 1)
    st.assume(z3.ForAll([i], z3.Implies(z3.And(i >= 0, i < r.n),
                                        z3.Select(r.arr, i) == z3.ToReal(z3.If(i < p, 0, z3.If(i > n, n - p, i - p))))))
    ikv = Obj("ImmutableKnotVector", {"_seq": r, "_ImmutableKnotVector__degree": Num(p, True), "_ImmutableKnotVector__npts": Num(n, True)})
    for f in wf_z3(r.arr, r.n, p, n):
        st.assume(f)
    return Obj("KnotVector", {FIELD: ikv})


def h_weight(eng, st, args, kw, node, exits):
    """GeneratorKnotVector.weight by contract (proved: WEIGHT), for positive weights."""
    degree, ws = args[0], args[1]
    eng.raise_exc(st, "AssertionError", z3.Or(degree.z < 0, ws.n <= 0), node.lineno, exits)
    k = fresh_int("k")
    eng.vc(st, z3.ForAll([k], z3.Implies(z3.And(k >= 0, k < ws.n), z3.Select(ws.arr, k) > 0)), "call:weight:weights-positive@L%d" % node.lineno, node.lineno)
    r = E.fresh_seq("wkv")
    i = fresh_int("i")
    p = degree.z
    n = p + ws.n
    st.assume(r.n == ws.n + 2 * p + 1)
    st.assume(z3.ForAll([i], z3.Implies(z3.And(i >= 0, i <= p), z3.Select(r.arr, i) == 0)))
    st.assume(z3.ForAll([i], z3.Implies(z3.And(i >= p, i < p + ws.n), z3.Select(r.arr, i + 1) - z3.Select(r.arr, i) == z3.Select(ws.arr, i - p)),
                        patterns=[z3.Select(r.arr, i)]))
    st.assume(z3.ForAll([i], z3.Implies(z3.And(i >= n, i < r.n), z3.Select(r.arr, i) == z3.Select(r.arr, n))))
    ikv = Obj("ImmutableKnotVector", {"_seq": r, "_ImmutableKnotVector__degree": Num(p, True), "_ImmutableKnotVector__npts": Num(n, True)})
    for f in wf_z3(r.arr, r.n, p, n):
        st.assume(f)
    return Obj("KnotVector", {FIELD: ikv})


def h_normalize_method(eng, st, args, kw, node, exits):
    """KnotVector.normalize by contract (proved: facade.NORMALIZE)."""
    obj = args[0]
    old = obj.fields[FIELD]
    U = old.fields["_seq"]
    r = E.fresh_seq("normed")
    i = fresh_int("i")
    L = z3.Select(U.arr, U.n - 1) - z3.Select(U.arr, 0)
    st.assume(r.n == U.n)
    st.assume(z3.ForAll([i], z3.Implies(z3.And(i >= 0, i < U.n), z3.Select(r.arr, i) == (z3.Select(U.arr, i) - z3.Select(U.arr, 0)) / L)))
    st.assume(z3.And(z3.Select(r.arr, 0) == 0, z3.Select(r.arr, r.n - 1) == 1))
    p, n = old.fields["_ImmutableKnotVector__degree"].z, old.fields["_ImmutableKnotVector__npts"].z
    new = Obj("ImmutableKnotVector", {"_seq": r, "_ImmutableKnotVector__degree": Num(p, True), "_ImmutableKnotVector__npts": Num(n, True)})
    for f in wf_z3(r.arr, r.n, p, n):
        st.assume(f)
    obj.fields[FIELD] = new
    return obj


def h_randint(eng, st, args, kw, node, exits):
    """np.random.randint(lo, hi, size): an ARBITRARY vector of integers in [lo, hi) — this is how every draw of random() is covered."""
    lo, hi, size = args
    r = E.fresh_seq("draw")
    i = fresh_int("i")
    st.assume(r.n == z3.If(size.z > 0, size.z, 0))
    st.assume(z3.ForAll([i], z3.Implies(z3.And(i >= 0, i < r.n), z3.And(z3.Select(r.arr, i) >= lo.real(), z3.Select(r.arr, i) <= hi.real() - 1))))
    return r


def h_int(eng, st, args, kw, node, exits):
    return Num(args[0].real(), False)        # int(numpy integer): value preserved


COMPOSED_CALLS = dict(GEN_CALLS)
COMPOSED_CALLS.update({"static:GeneratorKnotVector.integer": CallSpec(h_integer), "static:GeneratorKnotVector.weight": CallSpec(h_weight),
                       "method:KnotVector.normalize": CallSpec(h_normalize_method), "static:np.random.randint": CallSpec(h_randint),
                       "func:int": CallSpec(h_int)})

UNIFORM = Contract(
    "knotspace.GeneratorKnotVector.uniform", params={"degree": "int", "npts": "int", "cls": "type"}, calls=COMPOSED_CALLS,
    consts={"GeneratorKnotVector": E.Const(("module", "GeneratorKnotVector"))},
    ensures=["len(result.internal.U) == npts + degree + 1", "result.internal.p == degree", "result.internal.n == npts",
             "result.internal.U[0] == 0", "result.internal.U[npts + degree] == 1",
             "all(result.internal.U[i] == real(i - degree) / real(npts - degree) for i in range(degree, npts + 1))"],
    raises={"AssertionError": "degree < 0 or npts <= degree"}, covers=["degree == 2 and npts == 6"], canary="result.internal.U[0] == 1",
)

def div_mono(eng, st):
    a, b, d = z3.Reals("da db dd")
    return z3.ForAll([a, b, d], z3.Implies(z3.And(d > 0, a < b), a / d < b / d))


RANDOM = Contract(
    "knotspace.GeneratorKnotVector.random", params={"degree": "int", "npts": "int", "cls": "type"}, calls=COMPOSED_CALLS, lemmas=[div_mono],
    consts={"GeneratorKnotVector": E.Const(("module", "GeneratorKnotVector")), "np": E.Const(("module", "np"))},
    ensures=["len(result.internal.U) == npts + degree + 1", "result.internal.p == degree", "result.internal.n == npts",
             "result.internal.U[0] == 0", "result.internal.U[npts + degree] == 1",
             "all(result.internal.U[i] < result.internal.U[i + 1] for i in range(degree, npts))"],
    raises={"AssertionError": "degree < 0 or npts <= degree"}, covers=["degree == 1 and npts == 4"], canary="result.internal.U[0] == 1",
)

ALL = [
    (BEZIER, "knotspace", "GeneratorKnotVector.bezier", None),
    (INTEGER, "knotspace", "GeneratorKnotVector.integer", None),
    (WEIGHT, "knotspace", "GeneratorKnotVector.weight", None),
    (UNIFORM, "knotspace", "GeneratorKnotVector.uniform", None),
    (RANDOM, "knotspace", "GeneratorKnotVector.random", None),
]
