"""Obligation records, known-finding matching, replay files, evidence, exit code."""
from __future__ import annotations

import json
import os
import re
import sys
import time
import traceback
from fractions import Fraction

ROOT = os.path.dirname(os.path.dirname(os.path.abspath(__file__)))
# (VERIF_EVIDENCE_DIR: scratch output directory for runs against seeded changes, so that they never overwrite the evidence of /repo itself)
_OUTDIR = os.environ.get("VERIF_EVIDENCE_DIR")
EVID = os.path.join(_OUTDIR, "evidence") if _OUTDIR else os.path.join(ROOT, "evidence")
REPL = os.path.join(_OUTDIR, "replays") if _OUTDIR else os.path.join(ROOT, "replays")

PROVED, FAILED, UNDECIDED, ERROR = "proved", "failed", "undecided", "error"


def ob(id, fn, status, engine, backend="", t=0.0, detail="", witness=None, tags=None, bounded=None):
    """One obligation result (plain dict so it crosses process boundaries).
    engine: V (unbounded VC) | F (frame analysis, unbounded) | FP (z3 floating point) |
            S-sym / S-con (real code on symbolic numbers; bounded in shape) | B (bounded stand-in) | mon
    """
    return dict(id=id, fn=fn, status=status, engine=engine, backend=backend, time=round(t, 4),
                detail=str(detail)[:2000], witness=witness, tags=tags or {},
                bounded=(engine not in ("V", "F", "FP")) if bounded is None else bounded)


def jsonable(x):
    import numpy as np
    if isinstance(x, Fraction):
        return str(x)
    if isinstance(x, (np.integer,)):
        return int(x)
    if isinstance(x, (np.floating,)):
        return float(x)
    if isinstance(x, dict):
        return {str(k): jsonable(v) for k, v in x.items()}
    if isinstance(x, (list, tuple, set, np.ndarray)):
        return [jsonable(v) for v in x]
    if isinstance(x, (int, float, str, bool)) or x is None:
        return x
    return repr(x)


def unjson_num(x):
    """Inverse of jsonable for numbers written as 'a/b' strings."""
    if isinstance(x, str):
        try:
            return Fraction(x)
        except (ValueError, ZeroDivisionError):
            return x
    if isinstance(x, list):
        return [unjson_num(v) for v in x]
    if isinstance(x, dict):
        return {k: unjson_num(v) for k, v in x.items()}
    return x


# --------------------------------------------------------------------------------------
TASK_TIMEOUT_S = int(os.environ.get("VERIF_TASK_TIMEOUT", "300"))


def _child(conn, f, a):
    sys.unraisablehook = lambda *x: None
    try:
        conn.send(("ok", f(*a)))
    except BaseException:
        try:
            conn.send(("err", traceback.format_exc()))
        except Exception:
            pass
    finally:
        conn.close()


_CLK = os.sysconf("SC_CLK_TCK") if hasattr(os, "sysconf") else 100


def _cpu_seconds(pid):
    """CPU time (user + system, waited-for children included) of a process, from /proc; None if unavailable."""
    try:
        with open("/proc/%d/stat" % pid) as f:
            parts = f.read().rsplit(")", 1)[1].split()
        return (int(parts[11]) + int(parts[12]) + int(parts[13]) + int(parts[14])) / float(_CLK)
    except Exception:
        return None


def run_tasks(tasks, workers=None, task_timeout=None):
    """tasks: list of (callable, args).  Returns (list of obligation dicts, list of task errors).
    Every task runs in its own forked process and is killed after task_timeout seconds: a task
    that does not finish is a failed 'terminates' obligation of the function it checks (the
    unchanged tree needs a few seconds per task)."""
    import multiprocessing as mp
    from multiprocessing.connection import wait
    workers = workers or int(os.environ.get("VERIF_WORKERS", "16"))
    task_timeout = task_timeout or TASK_TIMEOUT_S
    obs, errs = [], []
    if workers <= 1:
        for f, a in tasks:
            try:
                obs.extend(f(*a))
            except Exception:
                errs.append("%s%r: %s" % (f.__name__, a, traceback.format_exc()))
        return obs, errs
    ctx = mp.get_context("fork")
    pending = list(tasks)[::-1]
    running = {}
    ntimeouts = 0
    while pending or running:
        while pending and len(running) < workers:
            f, a = pending.pop()
            pc, cc = ctx.Pipe(duplex=False)
            pr = ctx.Process(target=_child, args=(cc, f, a), daemon=True)
            pr.start()
            cc.close()
            running[pc] = (pr, f, a, time.time())
        ready = wait(list(running), timeout=0.5)
        for c in ready:
            pr, f, a, st = running.pop(c)
            try:
                kind, payload = c.recv()
                if kind == "ok":
                    obs.extend(payload)
                else:
                    errs.append("%s%r: %s" % (f.__name__, a, payload))
            except EOFError:
                errs.append("%s%r: worker died without a result (exit code %s)" % (f.__name__, a, pr.exitcode))
            c.close()
            pr.join(5)
        now = time.time()
        for c in list(running):
            pr, f, a, st = running[c]
            limit = task_timeout if ntimeouts < 6 else max(30, task_timeout / 8)
            cpu = _cpu_seconds(pr.pid)
            # the budget is CPU time of the task (a busy machine must not turn a slow task into a failed obligation); wall clock only as an 8x backstop
            over = (cpu > limit) if cpu is not None else (now - st > limit)
            if over or now - st > 8 * limit:
                ntimeouts += 1
                pr.kill()
                pr.join(5)
                c.close()
                del running[c]
                fn = getattr(f, "contract_fn", f.__name__)
                if f.__name__ in ("verify", "verify_callsite"):
                    # an engine-V task ran out of budget: the solver's problem, not the code's - the proof of that function is not available on this run
                    cname = getattr(a[0], "name", "?") if a else "?"
                    obs.append({"_prooflost": cname, "reason": "engine V exceeded its task budget (%d s CPU) on %s" % (limit, cname)})
                    continue
                obs.append(ob("%s:terminates[task %s%r]" % (fn, f.__name__, a), fn, FAILED, "B", "watchdog",
                              now - st, "the task did not finish within %d s of CPU time (8x that of wall time) and was killed "
                              "(non-termination or blow-up of the code under contract)" % task_timeout,
                              None, {"timeout": True}))
    return obs, errs


def _start_call(fn, args):
    import multiprocessing as mp
    ctx = mp.get_context("fork")
    pc, cc = ctx.Pipe(duplex=False)
    pr = ctx.Process(target=_child, args=(cc, fn, args), daemon=True)
    pr.start()
    cc.close()
    return pr, pc


def _finish_call(job, timeout):
    """-> ('ok', value) | ('err', text) | ('timeout', None)"""
    pr, pc = job
    try:
        if pc.poll(timeout):
            try:
                return pc.recv()
            except EOFError:
                return ("err", "child died")
        return ("timeout", None)
    finally:
        if pr.is_alive():
            pr.kill()
        pr.join(5)
        pc.close()


def call_with_timeout(fn, args, timeout):
    return _finish_call(_start_call(fn, args), timeout)


MAX_REPORTED = 12


# --------------------------------------------------------------------------------------
def load_findings():
    p = os.path.join(ROOT, "known_findings.json")
    if not os.path.exists(p):
        return []
    with open(p) as f:
        return json.load(f).get("findings", [])


def match_finding(prop, o, findings):
    """A failed obligation matches a *known* finding iff property, obligation pattern and the
    witness predicate all match.  'fixed' entries never match (they suppress nothing)."""
    from . import findings as preds
    for kf in findings:
        if kf.get("status") != "known":
            continue
        if prop not in kf.get("properties", [kf.get("property")]):
            continue
        if not re.search(kf["obligation"], o["id"]):
            continue
        pred = kf.get("predicate")
        if pred:
            fn = getattr(preds, pred["name"], None)
            if fn is None:
                continue
            try:
                if not fn(o, **pred.get("args", {})):
                    continue
            except Exception:
                continue
        return kf
    return None


# --------------------------------------------------------------------------------------
REPLAY_TIMEOUT_S = int(os.environ.get("VERIF_REPLAY_TIMEOUT", "30"))


def _replay_json(replay_fn, o):
    w = o.get("witness")
    if isinstance(w, dict) and w.get("kind") == "v.concrete":       # input found by the native search attached to an engine-V contract
        from .contracts import curvesv
        bad, expected, observed = curvesv.replay_concrete(w)
        return bool(bad), jsonable(expected), jsonable(observed)
    bad, expected, observed = replay_fn(o)
    return bool(bad), jsonable(expected), jsonable(observed)


def finish(prop, tier, seed, obs, errs, t0, info, replay_fn=None):
    """Writes evidence, replay files, prints VIOLATION / KNOWN-FINDING lines, returns exit code.

    info: dict(functions=[…], assumptions=[…], trusted_base=[…], bounds=str, rule=str,
               level='other'|'proof', explanation=str, checker_cmd=str, min_obligations=int)
    """
    os.makedirs(EVID, exist_ok=True)
    os.makedirs(REPL, exist_ok=True)
    findings = load_findings()
    import glob
    for old in glob.glob(os.path.join(REPL, "%s-*.json" % prop)):
        os.unlink(old)
    stats = [o for o in obs if "_stats" in o]
    notapp = [o for o in obs if "_notapplicable" in o]
    lost = [o for o in obs if "_prooflost" in o]
    obs = [o for o in obs if "_stats" not in o and "_notapplicable" not in o and "_prooflost" not in o]
    # engine F is a syntactic proof-level analysis: when its pattern no longer matches (a local alias, a restructured getter) the
    # unbounded claim is LOST, which is not a verdict about the property; the bounded dynamic obligations of the same property decide
    for o in obs:
        if o["engine"] == "F" and o["status"] == FAILED:
            o["status"] = "unproved"
            lost.append({"_prooflost": o["fn"], "reason": "frame analysis: " + o["detail"][:200]})
    failed = [o for o in obs if o["status"] == FAILED]
    undecided = [o for o in obs if o["status"] == UNDECIDED]
    unproved = [o for o in obs if o["status"] == "unproved"]
    crashed = [o for o in obs if o["status"] == ERROR]
    violations, known = [], []
    lines = []
    for o in failed:
        kf = match_finding(prop, o, findings)
        if kf is not None:
            o["known_finding"] = kf["id"]
            known.append((kf, o))
            continue
        violations.append(o)

    seen_kf = {}
    for kf, o in known:
        seen_kf.setdefault(kf["id"], []).append(o)
    for kid, lst in sorted(seen_kf.items()):
        kf = next(k for k, _ in known if k["id"] == kid)
        lines.append("KNOWN-FINDING: property=%s %s: %s [%d obligation(s), e.g. %s]" % (
            prop, kid, kf["what"], len(lst), lst[0]["id"]))

    # one representative per (function, clause) first, at most MAX_REPORTED replayed and listed
    reps, seen = [], set()
    for o in violations:
        k = o["id"].split("[")[0]
        if k not in seen:
            seen.add(k)
            reps.append(o)
    for o in violations:
        if len(reps) >= MAX_REPORTED:
            break
        if o not in reps:
            reps.append(o)
    reps = reps[:MAX_REPORTED]
    jobs = []
    for o in reps:
        if o["witness"] is not None and replay_fn is not None:
            jobs.append((o, _start_call(_replay_json, (replay_fn, o))))
        else:
            jobs.append((o, None))
    deadline = time.time() + REPLAY_TIMEOUT_S
    for n, (o, job) in enumerate(jobs):
        safe = re.sub(r"[^A-Za-z0-9_.=-]+", "_", o["id"])[:120]
        path = os.path.join(REPL, "%s-%s-%d.json" % (prop, safe, n))
        rep = dict(property=prop, obligation=o["id"], function=o["fn"], engine=o["engine"],
                   backend=o["backend"], status=o["status"], verifier_output=o["detail"],
                   witness=jsonable(o["witness"]), tags=jsonable(o["tags"]))
        reproduced = None
        if job is not None:
            kind, payload = _finish_call(job, max(0.5, deadline - time.time()))
            if kind == "ok":
                reproduced, expected, observed = payload
                rep.update(replayed=True, reproduced=bool(reproduced), expected=expected, observed=observed)
            elif kind == "timeout":
                reproduced = True
                rep.update(replayed=True, reproduced=True, expected="a result",
                           observed="no result within %d s on the real code with these inputs" % REPLAY_TIMEOUT_S)
            else:
                rep.update(replayed=False, replay_error=str(payload)[-1500:])
        with open(path, "w") as f:
            json.dump(rep, f, indent=1)
        tail = "" if reproduced else " no-failing-input-found"
        lines.append("VIOLATION property=%s replay=%s obligation=%s%s" % (prop, path, o["id"], tail))
    if len(violations) > len(reps):
        lines.append("(%d further failed obligations of the same functions are listed in the evidence file)" % (
            len(violations) - len(reps)))

    nob = len(obs)
    nproved = sum(1 for o in obs if o["status"] == PROVED)
    by_engine = {}
    for o in obs:
        e = by_engine.setdefault(o["engine"], dict(obligations=0, discharged=0, solver_time_s=0.0, backends={}))
        e["obligations"] += 1
        e["discharged"] += o["status"] == PROVED
        e["solver_time_s"] = round(e["solver_time_s"] + o["time"], 3)
        e["backends"][o["backend"]] = e["backends"].get(o["backend"], 0) + 1
    fns = {}
    for o in obs:
        d = fns.setdefault(o["fn"], dict(obligations=0, discharged=0, engines=set()))
        d["obligations"] += 1
        d["discharged"] += o["status"] == PROVED
        d["engines"].add(o["engine"])
    for d in fns.values():
        d["engines"] = sorted(d["engines"])
    unb = [o for o in obs if not o["bounded"]]
    samples = []
    seen_fn = set()
    for o in obs:
        if o["fn"] not in seen_fn and len(samples) < 12:
            seen_fn.add(o["fn"])
            samples.append(dict(obligation=o["id"], engine=o["engine"], backend=o["backend"],
                                status=o["status"], detail=o["detail"][:300]))
    agg = {}
    for s in stats:
        for k, v in s["_stats"].items():
            if isinstance(v, (int, float)):
                agg[k] = round(agg.get(k, 0) + v, 3)

    broken = bool(errs or crashed) or nob < info.get("min_obligations", 1)
    level = info.get("level", "other")
    if level == "proof" and (len(unb) != nob or nproved != nob):
        level = "other"
    auto_expl = ("This run generated %d obligations from the current /repo source: %d unbounded (engines V/F/FP: hold for all inputs, "
                 "lengths and iterations) of which %d discharged, and %d bounded-in-shape (engine S / stand-ins: all numeric values per shape, "
                 "shapes up to the stated bound; NOT counted as proved) of which %d discharged. level is 'proof' only if every obligation is unbounded." % (
                     nob, len(unb), sum(1 for o in unb if o["status"] == PROVED), nob - len(unb),
                     sum(1 for o in obs if o["bounded"] and o["status"] == PROVED)))
    cov = dict(
        obligations=nob, discharged=nproved,
        unbounded_obligations=len(unb), unbounded_discharged=sum(1 for o in unb if o["status"] == PROVED),
        bounded_obligations=nob - len(unb),
        bounded_discharged=sum(1 for o in obs if o["bounded"] and o["status"] == PROVED),
        failed=len(failed), known_finding_obligations=len(known), violations=len(violations),
        undecided=len(undecided), undecided_obligations=[dict(id=o["id"], detail=o["detail"][:200]) for o in undecided[:50]],
        failed_obligations=[dict(id=o["id"], detail=o["detail"][:200]) for o in violations[:200]],
        by_engine=by_engine, functions_under_contract=fns,
        checker_cmd=info.get("checker_cmd", "./check %s --tier %s" % (prop, tier)),
        trusted_base=info.get("trusted_base", []),
        explanation=(info.get("explanation", "") + " " + auto_expl).strip(),
        bounds=info.get("bounds", ""),
        evaluations=nob, distinct_nontrivial=len({o["id"] for o in obs}),
        rule=info.get("rule", "one obligation per (function, clause, shape, path); distinct by id"),
        samples=samples, engine_stats=agg,
        known_findings=sorted(seen_kf), task_errors=errs[:5],
        proof_not_applicable=[dict(function=o["_notapplicable"], reason=o["reason"][:300]) for o in notapp],
        proof_lost=[dict(function=o["_prooflost"], reason=o["reason"][:300]) for o in lost],
        unproved_obligations=[dict(id=o["id"], detail=o["detail"][:200]) for o in unproved[:50]],
        exhaustive=False,
    )
    cov.update(info.get("extra", {}))
    ev = dict(property_id=prop, tier=tier, seed=seed, level=level, coverage=cov,
              assumptions=info.get("assumptions", []), wall_s=round(time.time() - t0, 2),
              violations=len(violations))
    with open(os.path.join(EVID, "%s.json" % prop), "w") as f:
        json.dump(jsonable(ev), f, indent=1)

    if undecided:
        lines.append("UNDECIDED: %d obligation(s) on paths whose feasibility the solver could not confirm (not verdicts; listed in the evidence), e.g. %s" % (
            len(undecided), undecided[0]["id"]))
    for o in lost:
        lines.append("UNPROVED: the engine-V proof of %s is lost on this tree (%s); this is not a verdict about the property - the bounded contract "
                     "checks of the same function decide" % (o["_prooflost"], o["reason"][:200]))
    for o in notapp:
        lines.append("NOTE: engine V does not apply to %s on this tree (%s); its bounded contract checks still ran" % (
            o["_notapplicable"], o["reason"][:160]))
    for ln in lines:
        print(ln)
    print("%s tier=%s obligations=%d discharged=%d (unbounded %d/%d, bounded %d/%d) known=%d violations=%d wall=%.1fs" % (
        prop, tier, nob, nproved, cov["unbounded_discharged"], len(unb), cov["bounded_discharged"],
        cov["bounded_obligations"], len(known), len(violations), time.time() - t0))
    if violations:
        return 1
    if broken:
        for e in errs[:3]:
            print("CHECKER-ERROR:", e[-1500:], file=sys.stderr)
        for o in crashed[:3]:
            print("CHECKER-ERROR:", o["id"], o["detail"][-1500:], file=sys.stderr)
        if nob < info.get("min_obligations", 1):
            print("CHECKER-ERROR: only %d obligations generated (expected >= %d): vacuous run" % (
                nob, info.get("min_obligations", 1)), file=sys.stderr)
        return 3
    return 0
