"""C08 — curve arithmetic is pointwise."""
from __future__ import annotations

from fractions import Fraction

import numpy as np
import z3

from .. import assume as A
from .. import spec
from ..env import curves, heavy
from ..symx import con
from ..symx import harness as H
from ..symx.sym import Sym
from .c04 import same_state, snapshot
from .c11 import GRID, vec

PROP = "C08"
F = Fraction


def pairs(tier):
    out = [
        (1, (0, 0, 0), 1, (0, 0, 0)), (1, (1, 0, 0), 1, (0, 0, 0)), (2, (0, 1, 0), 1, (0, 1, 0)), (1, (1, 0, 0), 2, (0, 0, 1)),
        (0, (0, 1, 0), 1, (0, 0, 0)), (2, (0, 2, 0), 2, (0, 1, 0)), (1, (0, 2, 0), 1, (1, 0, 0)), (0, (0, 0, 0), 2, (0, 1, 0)),
        # same degree, same distinct knots, same number of control points - the multiplicities are traded between two interior knots
        (2, (2, 1, 0), 2, (1, 2, 0)), (1, (2, 1, 0), 1, (1, 2, 0)),
    ]
    if tier != "quick":
        out += [(2, (1, 0, 1), 2, (0, 1, 0)), (3, (0, 1, 0), 1, (1, 0, 0)), (2, (0, 3, 0), 1, (0, 1, 0)), (1, (1, 1, 0), 2, (0, 1, 1)),
                (3, (0, 0, 0), 2, (0, 2, 0)), (2, (1, 2, 0), 2, (2, 1, 0))]
    return out


SAME_WEIGHT_PAIRS = [(2, (2, 1, 0), 2, (1, 2, 0)), (2, (0, 2, 0), 3, (0, 1, 0)), (1, (1, 0, 1), 1, (1, 1, 0))]


def ptag(pr, variant, extra=""):
    return "A=p%d/%s,B=p%d/%s,kv=%d%s" % (pr[0], "".join(map(str, pr[1])), pr[2], "".join(map(str, pr[3])), variant, extra)


def nd(U, p, P, W, mid, t):
    """(numerator, denominator) of the curve value as polynomials in t on the span containing mid."""
    n = len(U) - p - 1
    k = spec.spec_span(list(U), p, mid)
    N = spec.cdb(list(U), p, k, t)[:n]
    if W is None:
        return sum(N[i] * P[i] for i in range(n)), 1
    return sum(N[i] * W[i] * P[i] for i in range(n)), sum(N[i] * W[i] for i in range(n))


def curve_nd(c, mid, t):
    return nd(list(c.knotvector), c.degree, list(c.ctrlpoints), None if c.weights is None else list(c.weights), mid, t)


def op_pairs(label, R, operands, combine, t):
    """R(t) == combine(values of operands) on every common span; values as (num, den) pairs."""
    cuts = set(R.knotvector)
    for U, p, P, W in operands:
        cuts |= set(U)
    cuts = sorted(cuts)
    prs = []
    for a, b in zip(cuts[:-1], cuts[1:]):
        mid = (a + b) / 2
        rn, rd = curve_nd(R, mid, t)
        vals = [nd(U, p, P, W, mid, t) for U, p, P, W in operands]
        en, ed = combine(vals)
        prs.append(("%s on [%s,%s]" % (label, a, b), rn * ed, en * rd))
    return prs


def consistent(c):
    return c.ctrlpoints is not None and len(c.ctrlpoints) == c.npts == len(c.knotvector) - c.degree - 1 and \
        (c.weights is None or len(c.weights) == c.npts)


BIN = {
    "add": (lambda a, b: a + b, lambda v: (v[0][0] * v[1][1] + v[1][0] * v[0][1], v[0][1] * v[1][1])),
    "sub": (lambda a, b: a - b, lambda v: (v[0][0] * v[1][1] - v[1][0] * v[0][1], v[0][1] * v[1][1])),
    "mul": (lambda a, b: a * b, lambda v: (v[0][0] * v[1][0], v[0][1] * v[1][1])),
    "matmul": (lambda a, b: a @ b, lambda v: (v[0][0] * v[1][0], v[0][1] * v[1][1])),
    "div": (lambda a, b: a / b, lambda v: (v[0][0] * v[1][1], v[0][1] * v[1][0])),
}


def task_binary(pr, variant, rational, tier, shared=False):
    """shared: both operands carry the SAME concrete weight list (equal npts, different degree / multiplicity patterns)."""
    pa, ca, pb, cb = pr
    U, V = vec(pa, ca, variant), vec(pb, cb, variant)
    na, nb = len(U) - pa - 1, len(V) - pb - 1
    fn_of = {"add": "curves.BaseCurve.__add__", "sub": "curves.BaseCurve.__sub__", "mul": "curves.BaseCurve.__mul__",
             "matmul": "curves.BaseCurve.__matmul__", "div": "curves.BaseCurve.__truediv__"}
    out = []
    mon = con.Monitor().install(heavy)
    try:
        an, bn = ["A%d" % i for i in range(na)], ["B%d" % i for i in range(nb)]
        wa = ["u%d" % i for i in range(na)] if rational and not shared else []
        wbn = ["v%d" % i for i in range(nb)] if rational and not shared else []
        assert not shared or (rational and na == nb)
        for opname in ("add", "sub", "mul", "div"):
            if opname in ("mul",) and pa + pb > (3 if tier == "quick" else 5):
                continue
            if shared and opname in ("mul", "div"):
                continue
            ctx = con.con_ctx(an + bn + wa + wbn + ["t"])
            H.positive(ctx, wa + wbn)
            if opname == "div":
                H.positive(ctx, bn)        # B has no zero: positive control points (and weights)

            def body(chk, ctx=ctx, opname=opname):
                PA, PB = [ctx.sym(x) for x in an], [ctx.sym(x) for x in bn]
                WA = [ctx.sym(x) for x in wa] if rational else None
                WB = [ctx.sym(x) for x in wbn] if rational else None
                if shared:
                    WA = [F(i % 3 + 1, i // 3 + 1) for i in range(na)]
                    WB = list(WA)
                t = ctx.sym("t")
                A_ = chk.call(curves.Curve, list(U), PA, WA)
                B_ = chk.call(curves.Curve, list(V), PB, WB)
                sa, sb = snapshot(A_), snapshot(B_)
                f, comb = BIN[opname]
                R = chk.call(f, A_, B_)
                okc = isinstance(R, curves.Curve) and consistent(R)
                chk.add("consistent", okc, "result is a curve with npts control points", tags={"op": opname})
                if okc:
                    chk.identities("pointwise", op_pairs("(A %s B)(u)" % opname, R, [(U, pa, PA, WA), (V, pb, PB, WB)], comb, t))
                    chk.exact("exact", [R.ctrlpoints, R.weights])
                    chk.add("interval", R.knotvector[0] == U[0] and R.knotvector[-1] == U[-1], "result lives on the operands' interval")
                chk.add("operands-unchanged", same_state(sa, snapshot(A_)) and same_state(sb, snapshot(B_)), "operands are not modified")

            out += H.run_paths(ctx, fn_of[opname], "S-con", ptag(pr, variant, ",%s,%s" % (opname, "rat-same-weights" if shared else "rat" if rational else "pol")),
                               dict(kind="c08.bin", pr=pr, variant=variant, op=opname, rational=rational, shared=shared), body)
        if not rational and not shared and pa + pb <= (3 if tier == "quick" else 5):
            an2 = ["A%d_%d" % (i, d) for i in range(na) for d in range(2)]
            bn2 = ["B%d_%d" % (i, d) for i in range(nb) for d in range(2)]
            ctx = con.con_ctx(an2 + bn2 + ["t"])

            def body_dot(chk, ctx=ctx):
                PA = [np.array([ctx.sym("A%d_%d" % (i, d)) for d in range(2)], dtype=object) for i in range(na)]
                PB = [np.array([ctx.sym("B%d_%d" % (i, d)) for d in range(2)], dtype=object) for i in range(nb)]
                t = ctx.sym("t")
                A_ = chk.call(curves.Curve, list(U), PA)
                B_ = chk.call(curves.Curve, list(V), PB)
                R = chk.call(lambda: A_ @ B_)
                okc = isinstance(R, curves.Curve) and consistent(R)
                chk.add("consistent", okc, "A @ B is a curve")
                if not okc:
                    return
                prs = []
                cuts = sorted(set(U) | set(V) | set(R.knotvector))
                for a, b in zip(cuts[:-1], cuts[1:]):
                    mid = (a + b) / 2
                    NA = spec.cdb(list(U), pa, spec.spec_span(list(U), pa, mid), t)[:na]
                    NB = spec.cdb(list(V), pb, spec.spec_span(list(V), pb, mid), t)[:nb]
                    va = sum(NA[i] * PA[i] for i in range(na))
                    vb = sum(NB[i] * PB[i] for i in range(nb))
                    rn, rd = curve_nd(R, mid, t)
                    prs.append(("(A @ B)(u) on [%s,%s]" % (a, b), rn, (va[0] * vb[0] + va[1] * vb[1]) * rd))
                chk.identities("pointwise", prs)

            out += H.run_paths(ctx, "curves.BaseCurve.__matmul__", "S-con", ptag(pr, variant, ",matmul,pol"),
                               dict(kind="c08.dot", pr=pr, variant=variant, op="matmul", rational=False), body_dot)
    finally:
        mon.uninstall()
    out += mon.obligations(ptag(pr, variant, ",rat" if rational else ",pol"))
    return out


task_binary.contract_fn = "curves.BaseCurve.__add__"


def task_scalar(p, cells, variant, rational):
    U = vec(p, cells, variant)
    n = len(U) - p - 1
    an = ["A%d" % i for i in range(n)]
    wn = ["u%d" % i for i in range(n)] if rational else []
    out = []
    ops = [
        ("s+A", "curves.BaseCurve.__radd__", lambda A_, s: s + A_, lambda v, s: (s * v[0][1] + v[0][0], v[0][1])),
        ("A+s", "curves.BaseCurve.__add__", lambda A_, s: A_ + s, lambda v, s: (s * v[0][1] + v[0][0], v[0][1])),
        ("s-A", "curves.BaseCurve.__rsub__", lambda A_, s: s - A_, lambda v, s: (s * v[0][1] - v[0][0], v[0][1])),
        ("A-s", "curves.BaseCurve.__sub__", lambda A_, s: A_ - s, lambda v, s: (v[0][0] - s * v[0][1], v[0][1])),
        ("s*A", "curves.BaseCurve.__rmul__", lambda A_, s: s * A_, lambda v, s: (s * v[0][0], v[0][1])),
        ("A*s", "curves.BaseCurve.__mul__", lambda A_, s: A_ * s, lambda v, s: (s * v[0][0], v[0][1])),
        ("A/s", "curves.BaseCurve.__truediv__", lambda A_, s: A_ / s, lambda v, s: (v[0][0], s * v[0][1])),
        ("s/A", "curves.BaseCurve.__rtruediv__", lambda A_, s: s / A_, lambda v, s: (s * v[0][1], v[0][0])),
        ("-A", "curves.BaseCurve.__neg__", lambda A_, s: -A_, lambda v, s: (-v[0][0], v[0][1])),
    ]
    for label, fn, f, comb in ops:
        ctx = con.con_ctx(an + wn + ["s", "t"])
        H.positive(ctx, wn)
        if label in ("A/s",):
            ctx.base.append(ctx.zv["s"] != 0)
        if label == "s/A":
            H.positive(ctx, an)

        def body(chk, ctx=ctx, f=f, comb=comb, label=label):
            PA = [ctx.sym(x) for x in an]
            WA = [ctx.sym(x) for x in wn] if rational else None
            s, t = ctx.sym("s"), ctx.sym("t")
            A_ = chk.call(curves.Curve, list(U), PA, WA)
            sa = snapshot(A_)
            R = chk.call(f, A_, s)
            okc = isinstance(R, curves.Curve) and consistent(R)
            chk.add("consistent", okc, "result is a curve")
            if okc:
                chk.identities("pointwise", op_pairs("(%s)(u)" % label, R, [(U, p, PA, WA)], lambda v: comb(v, s), t))
                chk.exact("exact", [R.ctrlpoints, R.weights])
            chk.add("operand-unchanged", same_state(sa, snapshot(A_)), "operand not modified")

        out += H.run_paths(ctx, fn, "S-con", "A=p%d/%s,kv=%d,%s,%s" % (p, "".join(map(str, cells)), variant, label, "rat" if rational else "pol"),
                           dict(kind="c08.scalar", p=p, cells=cells, variant=variant, op=label, rational=rational, task=("c08", "task_scalar", [p, cells, variant, rational])), body)
    # vector-valued points: M @ A, A @ M, A @ B (dot product) on 2-D points
    if not rational:
        pn = ["A%d_%d" % (i, d) for i in range(n) for d in range(2)]
        mn = ["m%d%d" % (i, j) for i in range(2) for j in range(2)]
        ctx = con.con_ctx(pn + mn + ["t"])

        def body_m(chk, ctx=ctx):
            P = [np.array([ctx.sym("A%d_%d" % (i, d)) for d in range(2)], dtype=object) for i in range(n)]
            M = np.array([[ctx.sym("m%d%d" % (i, j)) for j in range(2)] for i in range(2)], dtype=object)
            t = ctx.sym("t")
            A_ = chk.call(curves.Curve, list(U), P)
            Ml = [[M[0][0], M[0][1]], [M[1][0], M[1][1]]]
            for label, f, exp in (("M@A", lambda: M @ A_, lambda v: M @ v), ("A@M", lambda: A_ @ M, lambda v: v @ M),
                                  ("listM@A", lambda: Ml @ A_, lambda v: M @ v)):
                R = chk.call(f)
                okc = isinstance(R, curves.Curve) and consistent(R)
                chk.add("consistent:" + label, okc, "result is a curve")
                if not okc:
                    continue
                prs = []
                cuts = sorted(set(U) | set(R.knotvector))
                for a, b in zip(cuts[:-1], cuts[1:]):
                    mid = (a + b) / 2
                    NA = spec.cdb(list(U), p, spec.spec_span(list(U), p, mid), t)[:n]
                    va = sum(NA[i] * P[i] for i in range(n))
                    Ur = list(R.knotvector)
                    NR = spec.cdb(Ur, R.degree, spec.spec_span(Ur, R.degree, mid), t)[:R.npts]
                    vr = sum(NR[i] * R.ctrlpoints[i] for i in range(R.npts))
                    ev = exp(va)
                    prs += [("%s[%d] on [%s,%s]" % (label, d, a, b), vr[d], ev[d]) for d in range(2)]
                chk.identities("pointwise:" + label, prs)

        out += H.run_paths(ctx, "curves.BaseCurve.__rmatmul__", "S-con", "A=p%d/%s,kv=%d,matrix" % (p, "".join(map(str, cells)), variant),
                           dict(kind="c08.matrix", p=p, cells=cells, variant=variant, rational=False, task=("c08", "task_scalar", [p, cells, variant, False])), body_m)
    return out


task_scalar.contract_fn = "curves.BaseCurve.__mul__"


def task_interval(variant):
    a, mids, b = GRID[variant]
    ctx = con.con_ctx(["A0", "A1", "B0", "B1"])
    out = []

    def body(chk):
        A_ = chk.call(curves.Curve, [a, a, b, b], [ctx.sym("A0"), ctx.sym("A1")])
        B_ = chk.call(curves.Curve, [a, a, b + 1, b + 1], [ctx.sym("B0"), ctx.sym("B1")])
        for label, f in (("add", lambda: A_ + B_), ("sub", lambda: A_ - B_), ("mul", lambda: A_ * B_), ("div", lambda: A_ / B_), ("matmul", lambda: A_ @ B_)):
            try:
                chk.call(f)
                chk.add("different-interval:" + label, False, "no exception")
            except ValueError:
                chk.add("different-interval:" + label, True, "ValueError")
            except Exception as e:
                chk.add("different-interval:" + label, False, "expected ValueError, got %s" % type(e).__name__)

    out += H.run_paths(ctx, "curves.BaseCurve.__add__", "S-con", "kv=%d,intervals" % variant, dict(kind="c08.interval", variant=variant, task=("c08", "task_interval", [variant])), body)
    return out


task_interval.contract_fn = "curves.BaseCurve.__add__"


# --------------------------------------------------------------------------------------
# engine B: control points of a NON-COMMUTATIVE type (2x2 matrices with +, scalar *, @): operand order of A @ B, M @ A, A @ M, and the other operators
# --------------------------------------------------------------------------------------
class M2:
    """Minimal 2x2 matrix point over the rationals."""
    __array_ufunc__ = None

    def __init__(self, a, b, c, d):
        self.v = (a, b, c, d)

    def __add__(self, o):
        if isinstance(o, (int, Fraction)) and o == 0:
            return self
        return M2(*[x + y for x, y in zip(self.v, o.v)])

    __radd__ = __add__

    def __sub__(self, o):
        return M2(*[x - y for x, y in zip(self.v, o.v)])

    def __neg__(self):
        return M2(*[-x for x in self.v])

    def __mul__(self, k):
        if isinstance(k, M2):
            raise TypeError("M2 * M2")
        return M2(*[x * k for x in self.v])

    __rmul__ = __mul__

    def __truediv__(self, k):
        return M2(*[x / k for x in self.v])

    def __matmul__(self, o):
        a, b, c, d = self.v
        e, f, g, h = o.v
        return M2(a * e + b * g, a * f + b * h, c * e + d * g, c * f + d * h)

    def __eq__(self, o):
        return isinstance(o, M2) and self.v == o.v

    def __repr__(self):
        return "M2%r" % (tuple(map(str, self.v)),)


def task_matrix_points():
    from ..report import FAILED, PROVED, ob
    fn = "curves.BaseCurve.__matmul__"
    out = []
    UA = [F(0), F(0), F(1), F(2), F(2)]
    UB = [F(0)] * 3 + [F(2)] * 3
    PA = [M2(F(1), F(2), F(0), F(1)), M2(F(0), F(1), F(1), F(0)), M2(F(2), F(0), F(1), F(3))]
    PB = [M2(F(1), F(0), F(2), F(1)), M2(F(1), F(1), F(0), F(2)), M2(F(0), F(3), F(1), F(1))]
    K = M2(F(1), F(1), F(0), F(2))
    us = [F(0), F(1, 2), F(1), F(3, 2), F(2)]

    def val(U, P, u):
        p = U.count(U[0]) - 1
        N = spec.basis(U, p, p, u)
        acc = None
        for n_, q in zip(N, P):
            acc = q * n_ if acc is None else acc + q * n_
        return acc
    cases = {
        "A@B": (lambda A, B: A @ B, lambda a, b: a @ b), "B@A": (lambda A, B: B @ A, lambda a, b: b @ a),
        "A+B": (lambda A, B: A + B, lambda a, b: a + b), "A-B": (lambda A, B: A - B, lambda a, b: a - b), "-A": (lambda A, B: -A, lambda a, b: -a),
        "3*A": (lambda A, B: 3 * A, lambda a, b: a * 3), "A/2": (lambda A, B: A / 2, lambda a, b: a / 2),
    }
    for name, (op, want) in cases.items():
        bad = None
        try:
            A, B = curves.Curve(list(UA), list(PA)), curves.Curve(list(UB), list(PB))
            R = op(A, B)
            for u in us:
                exp = want(val(UA, PA, u), val(UB, PB, u))
                if not (R(u) == exp):
                    bad = "(%s)(%s) = %r, expected %r" % (name, u, R(u), exp)
                    break
        except Exception as e:
            bad = "%s: %s" % (type(e).__name__, str(e)[:100])
        out.append(ob("%s:matrix-points[%s]" % (fn, name), fn, FAILED if bad else PROVED, "B", "concrete", 0.0,
                      bad or "pointwise with 2x2 matrix control points (non-commutative @)", dict(kind="c08.m2", case=name) if bad else None))
    return out + [{"_stats": dict(cases=len(out))}]


task_matrix_points.contract_fn = "curves.BaseCurve.__matmul__"


def task_mixed_points():
    """A curve with VECTOR control points combined with a curve with SCALAR control points (the quantifier of C08 names both kinds): A * B and B * A are
    the curve u -> B(u) A(u) in either operand order, A / B divides by the scalar curve; polynomial and rational operands, different knot vectors."""
    from ..report import FAILED, PROVED, ob
    fn = "curves.BaseCurve.__mul__"
    out = []
    UA = [F(0), F(0), F(0), F(1, 2), F(1), F(1), F(1)]
    UB = [F(0), F(0), F(1), F(1)]
    UC = [F(0), F(0), F(0), F(1, 3), F(1), F(1), F(1)]
    PA = [np.array([F(i), F(i * i - 1), F(2 - i)], dtype=object) for i in range(4)]
    PB = [F(2), F(5)]
    PC = [F(1), F(-2), F(3), F(4)]
    WA = [F(1), F(2), F(1), F(3)]
    WB = [F(2), F(1)]
    us = [F(0), F(1, 5), F(1, 2), F(7, 10), F(1)]

    def val(U, P, W, u):
        p = U.count(U[0]) - 1
        N = spec.basis(U, p, p, u)
        if W is None:
            return sum(n_ * q for n_, q in zip(N, P))
        den = sum(n_ * w for n_, w in zip(N, W))
        return sum(n_ * w * q for n_, w, q in zip(N, W, P)) / den
    operands = {
        "pol*pol": ((UA, PA, None), (UB, PB, None)), "pol*pol-other-knots": ((UA, PA, None), (UC, PC, None)),
        "rat*pol": ((UA, PA, WA), (UB, PB, None)), "pol*rat": ((UA, PA, None), (UB, PB, WB)), "rat*rat": ((UA, PA, WA), (UB, PB, WB)),
    }
    ops = {"A*B": (lambda A, B: A * B, lambda a, b: a * b), "B*A": (lambda A, B: B * A, lambda a, b: a * b), "A/B": (lambda A, B: A / B, lambda a, b: a / b)}
    for oname, (ta, tb) in operands.items():
        for name, (op, want) in ops.items():
            if name == "A/B" and oname == "pol*pol-other-knots":
                continue        # that scalar curve has a zero
            bad = None
            try:
                A = curves.Curve(list(ta[0]), [q.copy() for q in ta[1]], None if ta[2] is None else list(ta[2]))
                B = curves.Curve(list(tb[0]), list(tb[1]), None if tb[2] is None else list(tb[2]))
                R = op(A, B)
                for u in us:
                    exp = want(val(*ta, u), val(*tb, u))
                    got = R(u)
                    if np.shape(got) != np.shape(exp) or not all(x == y for x, y in zip(got, exp)):
                        bad = "(%s)(%s) = %r, expected %r" % (name, u, got, exp)
                        break
            except Exception as e:
                bad = "%s: %s" % (type(e).__name__, str(e)[:100])
            out.append(ob("%s:vector-times-scalar-curve[%s,%s]" % (fn, oname, name), fn, FAILED if bad else PROVED, "B", "concrete", 0.0,
                          bad or "pointwise product / quotient of a vector-valued and a scalar-valued curve", dict(kind="c08.mixed", operands=oname, case=name) if bad else None))
    return out + [{"_stats": dict(cases=len(out))}]


task_mixed_points.contract_fn = "curves.BaseCurve.__mul__"


def task_int_scalars():
    """Scalar operands of kind int / numpy integer / Fraction / bool on exact (Fraction) curves: the result is exactly the pointwise value ("exactly for rational data");
    a float sneaking in (A / 3 computed as A * (1 / 3)) is a failure even if it is within an ulp."""
    from ..report import FAILED, PROVED, ob
    fn = "curves.BaseCurve.__truediv__"
    out = []
    U = [F(0), F(0), F(0), F(1, 2), F(1), F(1), F(1)]
    P = [F(1), F(-2, 3), F(5, 7), F(4)]
    W = [F(1), F(2), F(1, 3), F(3)]
    us = [F(0), F(1, 3), F(1, 2), F(6, 7), F(1)]
    scalars = {"int3": 3, "int-7": -7, "np.int64(6)": np.int64(6), "Fraction(5,3)": F(5, 3), "int1": 1}
    ops = {"A/s": (lambda A, k: A / k, lambda a, k: a / F(int(k)) if not isinstance(k, F) else a / k), "A*s": (lambda A, k: A * k, lambda a, k: a * F(k)),
           "s*A": (lambda A, k: k * A, lambda a, k: a * F(k)), "A+s": (lambda A, k: A + k, lambda a, k: a + F(k)), "s-A": (lambda A, k: k - A, lambda a, k: F(k) - a),
           "s/A": (lambda A, k: k / A, lambda a, k: F(k) / a)}

    def val(Wt, u):
        N = spec.basis(U, 2, 2, u)
        if Wt is None:
            return sum(n_ * q for n_, q in zip(N, P))
        return sum(n_ * w * q for n_, w, q in zip(N, Wt, P)) / sum(n_ * w for n_, w in zip(N, Wt))
    for rational in (False, True):
        for sname, k in scalars.items():
            for oname, (op, want) in ops.items():
                if oname == "s/A":
                    Pq = [F(1), F(2, 3), F(5, 7), F(4)]      # a curve without a zero
                else:
                    Pq = P
                bad = None
                try:
                    A = curves.Curve(list(U), list(Pq), list(W) if rational else None)
                    R = op(A, k)
                    for u in us:
                        N = spec.basis(U, 2, 2, u)
                        if rational:
                            a = sum(n_ * w * q for n_, w, q in zip(N, W, Pq)) / sum(n_ * w for n_, w in zip(N, W))
                        else:
                            a = sum(n_ * q for n_, q in zip(N, Pq))
                        exp = want(a, k)
                        got = R(u)
                        if isinstance(got, float) or got != exp:
                            bad = "(%s)(%s) with s = %s: %r, expected exactly %s" % (oname, u, sname, got, exp)
                            break
                except Exception as e:
                    bad = "%s: %s" % (type(e).__name__, str(e)[:100])
                out.append(ob("%s:exact-with-scalar-kind[%s,%s,%s]" % (fn, "rat" if rational else "pol", oname, sname), fn, FAILED if bad else PROVED, "B", "concrete", 0.0,
                              bad or "exact pointwise result for this kind of scalar", dict(kind="c08.intscalar", rational=rational, op=oname, scalar=sname) if bad else None))
    return out + [{"_stats": dict(cases=len(out))}]


task_int_scalars.contract_fn = "curves.BaseCurve.__truediv__"


def task_zero_control_weight():
    """A divisor / denominator WITHOUT a zero on the interval whose Bezier coefficients contain a zero (B = (1 - u)^2 + u^2 >= 1/2 has control points 1, 0, 1): the
    quotient exists, but its (control point, weight) representation at that degree does not (P_i = N_i / W_i). Known finding D43."""
    from ..report import FAILED, PROVED, ob
    fn = "curves.BaseCurve.__truediv__"
    out = []
    U = [F(0)] * 3 + [F(1)] * 3
    PA, PB = [F(1), F(2), F(3)], [F(1), F(0), F(1)]
    us = [F(0), F(1, 3), F(1, 2), F(1)]

    def val(P, W, u):
        N = spec.basis(U, 2, 2, u)
        if W is None:
            return sum(n_ * q for n_, q in zip(N, P))
        return sum(n_ * w * q for n_, w, q in zip(N, W, P)) / sum(n_ * w for n_, w in zip(N, W))
    mk = curves.Curve
    cases = {"A/B": (lambda: mk(list(U), list(PA)) / mk(list(U), list(PB)), lambda u: val(PA, None, u) / val(PB, None, u)),
             "1/B": (lambda: 1 / mk(list(U), list(PB)), lambda u: 1 / val(PB, None, u)),
             "R*R": (lambda: mk(list(U), list(PA), list(PB)) * mk(list(U), list(PA), list(PB)), lambda u: val(PA, PB, u) ** 2),
             "R+R": (lambda: mk(list(U), list(PA), list(PB)) + mk(list(U), list(PA), list(PB)), lambda u: 2 * val(PA, PB, u))}
    for name, (f, want) in cases.items():
        bad = None
        try:
            R = f()
            for u in us:
                if R(u) != want(u):
                    bad = "(%s)(%s) = %s, expected %s" % (name, u, R(u), want(u))
                    break
        except Exception as e:
            bad = "%s: %s" % (type(e).__name__, str(e)[:100])
        out.append(ob("%s:zero-control-weight-without-a-zero[%s]" % (fn, name), fn, FAILED if bad else PROVED, "B", "concrete", 0.0,
                      bad or "pointwise", dict(kind="c08.zeroweight", case=name) if bad else None))
    return out + [{"_stats": dict(cases=len(out))}]


task_zero_control_weight.contract_fn = "curves.BaseCurve.__truediv__"


def task_mixed_classes():
    """Operands whose control points are of DIFFERENT number classes (float on one side, Fraction on the other; scalar and vector points): A + B, A - B in BOTH
    operand orders give the pointwise result (an in-place `+=` into the left operand's array type must not decide whether the sum exists: D51)."""
    from ..report import FAILED, PROVED, ob
    fn = "curves.BaseCurve.__add__"
    out = []
    U = [0.0, 0.0, 0.5, 1.0, 1.0]
    V = [0.0, 0.0, 1.0, 1.0]
    kinds = {"float+Fraction": ([1.0, 2.0, -1.0], [F(1, 2), F(1, 3)]), "int+Fraction": ([1, 2, -1], [F(1, 2), F(1, 3)]),
             "float-vectors+Fraction-vectors": ([np.array([1.0, 0.5]), np.array([2.0, -1.0]), np.array([0.0, 3.0])],
                                                [np.array([F(1, 2), F(1)], dtype=object), np.array([F(1, 3), F(-2)], dtype=object)])}
    for kname, (PA, PB) in kinds.items():
        for oname, op in (("A+B", lambda a, b: a + b), ("B+A", lambda a, b: b + a), ("A-B", lambda a, b: a - b), ("B-A", lambda a, b: b - a)):
            bad = None
            try:
                A, B = curves.Curve(list(U), list(PA)), curves.Curve(list(V), list(PB))
                R = op(A, B)
                for u in (0.0, 0.25, 0.5, 0.8, 1.0):
                    a, b = np.array(A(u), dtype=float), np.array(B(u), dtype=float)
                    exp = {"A+B": a + b, "B+A": a + b, "A-B": a - b, "B-A": b - a}[oname]
                    got = np.array(R(u), dtype=float)
                    if np.shape(got) != np.shape(exp) or np.any(np.abs(got - exp) > 1e-12):
                        bad = "(%s)(%s) = %s, expected %s" % (oname, u, got, exp)
                        break
            except Exception as e:
                bad = "%s: %s" % (type(e).__name__, str(e)[:100])
            out.append(ob("%s:mixed-number-classes[%s,%s]" % (fn, kname, oname), fn, FAILED if bad else PROVED, "B", "concrete", 0.0,
                          bad or "pointwise, in this operand order", dict(kind="c08.classes", points=kname, op=oname) if bad else None))
    return out + [{"_stats": dict(cases=len(out))}]


task_mixed_classes.contract_fn = "curves.BaseCurve.__add__"


def tasks(tier, seed):
    from ..pyvc.driver import verify
    from ..contracts import curvesv
    # operators with a scalar operand and copy, at the level of control points, for curves with ANY number of control points: a new curve whose control points are
    # -P_i, s + P_i, P_i - s, s - P_i, s * P_i, P_i / s (ZeroDivisionError for s == 0), same knot-vector content and weights, operand unchanged
    ts = curvesv.tasks_for(("BaseCurve.__neg__", "BaseCurve.__add__", "BaseCurve.__radd__", "BaseCurve.__sub__", "BaseCurve.__rsub__",
                                                                           "BaseCurve.__mul__", "BaseCurve.__rmul__", "BaseCurve.__truediv__", "BaseCurve.__deepcopy__"))
    for pr in pairs(tier):
        for variant in ((0, 1) if tier == "quick" else (0, 1, 2)):
            ts.append((task_binary, (pr, variant, False, tier)))
            if (variant == 0 and pr[0] + pr[2] <= 2) or tier != "quick" and pr[0] + pr[2] <= 3:
                ts.append((task_binary, (pr, variant, True, tier)))
    for p, cells in ((1, (0, 1, 0)), (2, (1, 0, 0)), (0, (0, 1, 0)), (2, (0, 3, 0)), (3, (0, 0, 0))):
        for variant in (0, 1):
            ts.append((task_scalar, (p, cells, variant, False)))
            if p in (1, 2) and variant == 0:
                ts.append((task_scalar, (p, cells, variant, True)))
    # rational operands with the SAME weight list and the same distinct knots but different multiplicity patterns / degrees (equal npts)
    for pr in SAME_WEIGHT_PAIRS:
        for variant in ((0,) if tier == "quick" else (0, 1)):
            ts.append((task_binary, (pr, variant, True, tier, True)))
    ts.append((task_interval, (0,)))
    ts.append((task_matrix_points, ()))
    ts.append((task_mixed_points, ()))
    ts.append((task_int_scalars, ()))
    ts.append((task_zero_control_weight, ()))
    ts.append((task_mixed_classes, ()))
    return ts


def replay(o):
    w = o["witness"]
    if w.get("kind") == "c08.classes":
        r = [x for x in task_mixed_classes() if "id" in x and x["id"].endswith("[%s,%s]" % (w["points"], w["op"]))][0]
        return r["status"] == "failed", "the pointwise sum / difference in this operand order", r["detail"]
    if w.get("kind") == "c08.zeroweight":
        r = [x for x in task_zero_control_weight() if "id" in x and x["id"].endswith("[%s]" % w["case"])][0]
        return r["status"] == "failed", "the pointwise quotient / product / sum", r["detail"]
    if w.get("kind") == "c08.intscalar":
        r = [x for x in task_int_scalars() if "id" in x and x["id"].endswith("[%s,%s,%s]" % ("rat" if w["rational"] else "pol", w["op"], w["scalar"]))][0]
        return r["status"] == "failed", "exact pointwise result with an int / numpy-int / Fraction scalar", r["detail"]
    if w.get("kind") == "c08.mixed":
        r = [x for x in task_mixed_points() if "id" in x and x["id"].endswith("[%s,%s]" % (w["operands"], w["case"]))][0]
        return r["status"] == "failed", "pointwise product / quotient of a vector-valued curve and a scalar-valued curve", r["detail"]
    if w.get("kind") == "c08.m2":
        r = [x for x in task_matrix_points() if "id" in x and x["id"].endswith("[%s]" % w["case"])][0]
        return r["status"] == "failed", "pointwise result with matrix-valued control points", r["detail"]
    pt = {k: F(v) for k, v in (w.get("point") or {}).items()}
    variant = w["variant"]
    if w["kind"] == "c08.bin":
        pr = (w["pr"][0], tuple(w["pr"][1]), w["pr"][2], tuple(w["pr"][3]))
        pa, ca, pb, cb = pr
        U, V = vec(pa, ca, variant), vec(pb, cb, variant)
        na, nb = len(U) - pa - 1, len(V) - pb - 1
        PA = [pt.get("A%d" % i, F(i + 1)) or F(i + 1) for i in range(na)]
        PB = [pt.get("B%d" % i, F(2 * i + 1, 3)) or F(2 * i + 1, 3) for i in range(nb)]
        if w["op"] == "div":
            PB = [abs(x) + 1 for x in PB]
        WA = [abs(pt.get("u%d" % i, F(1))) or F(1) for i in range(na)] if w["rational"] else None
        WB = [abs(pt.get("v%d" % i, F(1))) or F(1) for i in range(nb)] if w["rational"] else None
        if w.get("shared"):
            WA = [F(i % 3 + 1, i // 3 + 1) for i in range(na)]
            WB = list(WA)
        A_, B_ = curves.Curve(list(U), PA, WA), curves.Curve(list(V), PB, WB)
        f = BIN[w["op"]][0]
        try:
            R = f(A_, B_)
        except Exception as e:
            return True, dict(A=(U, PA, WA), B=(V, PB, WB), op=w["op"]), "%s: %s" % (type(e).__name__, str(e)[:120])
        cuts = sorted(set(U) | set(V) | set(R.knotvector))
        pyop = {"add": lambda x, y: x + y, "sub": lambda x, y: x - y, "mul": lambda x, y: x * y, "matmul": lambda x, y: x * y, "div": lambda x, y: x / y}[w["op"]]
        for a, b in zip(cuts[:-1], cuts[1:]):
            for s in range(1, 6):
                u = a + (b - a) * F(s, 6)
                exp = pyop(spec.curve_value(list(U), pa, PA, u, WA), spec.curve_value(list(V), pb, PB, u, WB))
                got = R(u)
                if got != exp or isinstance(got, float):
                    return True, dict(A=(U, PA, WA), B=(V, PB, WB), op=w["op"], u=u, value=exp), dict(value=got, knots=tuple(R.knotvector), ctrlpoints=R.ctrlpoints, weights=R.weights)
        return False, "pointwise", "ok"
    if w["kind"] == "c08.dot":
        pr = (w["pr"][0], tuple(w["pr"][1]), w["pr"][2], tuple(w["pr"][3]))
        pa, ca, pb, cb = pr
        U, V = vec(pa, ca, variant), vec(pb, cb, variant)
        na, nb = len(U) - pa - 1, len(V) - pb - 1
        PA = [np.array([F(i + 1), F(2 - i)], dtype=object) for i in range(na)]
        PB = [np.array([F(2 * i - 1, 3), F(i * i + 1)], dtype=object) for i in range(nb)]
        A_, B_ = curves.Curve(list(U), PA), curves.Curve(list(V), PB)
        try:
            R = A_ @ B_
        except Exception as e:
            return True, dict(A=(U, PA), B=(V, PB), op="A @ B (dot product of 2-D points)"), "%s: %s" % (type(e).__name__, str(e)[:120])
        cuts = sorted(set(U) | set(V))
        for a, b in zip(cuts[:-1], cuts[1:]):
            for s_ in range(1, 6):
                u = a + (b - a) * F(s_, 6)
                va, vb = spec.curve_value(list(U), pa, PA, u), spec.curve_value(list(V), pb, PB, u)
                exp = va[0] * vb[0] + va[1] * vb[1]
                if R(u) != exp:
                    return True, dict(A=(U, PA), B=(V, PB), u=u, value=exp), dict(value=R(u))
        return False, "pointwise", "ok"
    if w.get("task"):
        return H.generic_replay(o)
    return False, "see verifier output", "not replayed concretely"


INFO = dict(
    assumptions=A.S_COMMON + [A.A4, A.A11, A.A12], trusted_base=A.TRUSTED, min_obligations=150, level="other",
    explanation="C08: operator overloads of BaseCurve with symbolic control points (and symbolic positive weights) of both operands on concrete knot-vector "
                "pairs: (A op B)(u) == A(u) op B(u) as an identity of rational functions in (P_A, P_B, W_A, W_B, u) on every common span; scalars and matrices "
                "symbolic; operands unmodified; different intervals -> ValueError.",
    functions=["curves.BaseCurve.__add__/__radd__/__sub__/__rsub__/__neg__", "curves.BaseCurve.__mul__/__rmul__/__matmul__/__rmatmul__",
               "curves.BaseCurve.__truediv__/__rtruediv__", "curves.BaseCurve.fraction", "heavy.MathOperations.add_spline_curve",
               "heavy.MathOperations.knotvector_mul", "heavy.MathOperations.mul_spline_curve", "heavy.Operations.matrix_transformation",
               "heavy.Linalg.lstsq/solve/invert (monitor)"],
)


def info(tier, seed, obs):
    return dict(bounds="tier %s: %d operand knot-vector pairs (degrees 0..3, equal/different degrees, disjoint/overlapping interior knots with different "
                "multiplicities) x %d knot-value grids; products up to degree %d; rational operands with symbolic weights on the small pairs" % (
                    tier, len(pairs(tier)), 2 if tier == "quick" else 3, 3 if tier == "quick" else 5))
