"""C14 — clean() reaches the unique minimal representation without changing the curve."""
from __future__ import annotations

from fractions import Fraction

import numpy as np

from .. import assume as A
from .. import spec
from ..env import curves, heavy
from ..report import FAILED, PROVED, ob
from ..symx import con
from ..symx import harness as H
from ..symx.sym import Sym, SymBool
from .c04 import same_state, snapshot
from .c11 import GRID, vec
from .fitcommon import apply_T, curve_eq_pairs

PROP = "C14"
F = Fraction


def generic_margin_policy(ctx, sb):
    """Precondition 'the minimal curve is generic with margin': a removal / reduction whose error form is a non-zero
    positive semidefinite quadratic form of the control points exceeds the tolerance, so it is refused."""
    if sb.op != "lt" or sb.neg:
        return None
    e = sb.e
    if not e.denom.is_ground:
        return None
    terms = e.numer.terms()
    degs = {sum(m) for m, _ in terms}
    if not degs <= {0, 2} or 2 not in degs:
        return None
    const = sum((c for m, c in terms if sum(m) == 0), 0)
    quad = e - (e.parent().ring.domain(const) / e.denom.LC if const else 0) if False else None
    # e = tol - q(P)  (from `error > tolerance`): q = tol - e
    K = ctx.K
    cst = K(0)
    for m, c in terms:
        if sum(m) == 0:
            cst = cst + K(c)
    cst = cst / K(e.denom.LC)
    q = cst - e
    if q == 0:
        return None
    if ctx.quadratic_sign(q) == 1:
        return True            # error > tolerance: refused
    return None


def histories(p, cells, variant, tier):
    """(label, fine vector, fine degree)"""
    U = vec(p, cells, variant)
    a, mids, b = GRID[variant]
    x = (a + mids[0]) / 2 if cells[0] == 0 else (mids[0] + mids[1]) / 2
    out = []
    out.append(("insert-new", sorted(U + [x]), p))
    ik = next((g for g, m in zip(mids, cells) if 0 < m <= p), None)
    if ik is not None:
        out.append(("insert-existing", sorted(U + [ik]), p))
    out.append(("elevate-1", spec.elevate_vector(U, p, 1), p + 1))
    out.append(("elevate-1+insert", sorted(spec.elevate_vector(U, p, 1) + [x]), p + 1))
    if tier != "quick" or p <= 1:
        out.append(("insert-2+elevate-2", sorted(spec.elevate_vector(U, p, 2) + [x, x]), p + 2))
    return U, out


def task_clean(p, cells, variant, tier):
    fn = "curves.Curve.clean"
    out = []
    mon = con.Monitor().install(heavy)
    try:
        U, hist = histories(p, cells, variant, tier)
        n = len(U) - p - 1
        qn = ["Q%d" % i for i in range(n)]
        for label, Uf, pf in hist:
            T = spec.refine_matrix(U, p, Uf, pf)
            for order in ("clean", "knot_clean+degree_clean", "degree_clean+knot_clean"):
                ctx = con.con_ctx(qn + ["t"])
                ctx.policy = generic_margin_policy

                def body(chk, ctx=ctx, Uf=Uf, pf=pf, T=T, order=order):
                    Q = [ctx.sym(x) for x in qn]
                    t = ctx.sym("t")
                    C = chk.call(curves.Curve, list(Uf), apply_T(T, Q))

                    def run():
                        if order == "clean":
                            C.clean()
                        elif order.startswith("knot"):
                            C.knot_clean()
                            C.degree_clean()
                            C.knot_clean()
                        else:
                            C.degree_clean()
                            C.knot_clean()
                    chk.call(run)
                    got = list(C.knotvector)
                    okk = got == list(U) and C.degree == p
                    chk.add("minimal-knots", okk, "after %s the knot vector and degree are the minimal ones (got degree %d, %d knots; expected degree %d, %d knots)" % (
                        order, C.degree, len(got), p, len(U)), extra={"order": order})
                    if okk and C.ctrlpoints is not None and len(C.ctrlpoints) == n:
                        chk.identities("minimal-points", [("Q[%d]" % i, a_, b_) for i, (a_, b_) in enumerate(zip(C.ctrlpoints, Q))])
                    elif C.ctrlpoints is not None and len(C.ctrlpoints) == len(got) - C.degree - 1:
                        chk.identities("function-unchanged", curve_eq_pairs(ctx, U, Q, None, p, got, list(C.ctrlpoints), None, C.degree, t))
                    snap = snapshot(C)
                    chk.call(C.clean)
                    chk.add("idempotent", same_state(snap, snapshot(C)), "a second clean() changes nothing")

                out += H.run_paths(ctx, fn, "S-con", "p=%d/%s,kv=%d,%s,%s" % (p, "".join(map(str, cells)), variant, label, order),
                                   dict(kind="c14", p=p, cells=cells, variant=variant, hist=label, Uf=[str(x) for x in Uf], pf=pf, order=order), body)
    finally:
        mon.uninstall()
    out += mon.obligations("p=%d/%s,kv=%d" % (p, "".join(map(str, cells)), variant))
    return out


task_clean.contract_fn = "curves.Curve.clean"


def task_strict(p, cells, variant):
    """Caller-supplied tolerance 0: only exact removals / reductions may be accepted (no genericity assumption: both branches explored)."""
    fn = "curves.Curve.clean"
    out = []
    mon = con.Monitor().install(heavy)
    try:
        U = vec(p, cells, variant)
        Ue = spec.elevate_vector(U, p, 1)
        pe = p + 1
        ne = len(Ue) - pe - 1
        en = ["P%d" % i for i in range(ne)]
        for label, call in (("degree_clean(0)", lambda c: c.degree_clean(0)), ("clean(0)", lambda c: c.clean(0)), ("knot_clean(tolerance=0)", lambda c: c.knot_clean(tolerance=0))):
            ctx = con.con_ctx(en + ["t"])

            def body(chk, ctx=ctx, call=call, label=label):
                P = [ctx.sym(x) for x in en]
                t = ctx.sym("t")
                C = chk.call(curves.Curve, list(Ue), P)
                chk.call(call, C)
                okc = C.ctrlpoints is not None and len(C.ctrlpoints) == len(C.knotvector) - C.degree - 1
                chk.add("strict-consistent", okc, "consistent after %s" % label)
                if okc:
                    chk.identities("strict-function-unchanged", curve_eq_pairs(ctx, Ue, P, None, pe, list(C.knotvector), list(C.ctrlpoints), None, C.degree, t),
                                   detail_ok="with tolerance 0 every accepted step is exact: the curve is the same function on this path")

            out += H.run_paths(ctx, fn, "S-con", "p=%d/%s,kv=%d,strict,%s" % (p, "".join(map(str, cells)), variant, label),
                               dict(kind="c14.strict", p=p, cells=cells, variant=variant, call=label), body, max_paths=64)
    finally:
        mon.uninstall()
    return out


task_strict.contract_fn = "curves.Curve.clean"


def shapes(tier):
    out = [(1, (0, 0, 0)), (2, (0, 0, 0)), (1, (0, 1, 0)), (2, (0, 1, 0)), (2, (0, 2, 0)), (0, (0, 1, 0)), (2, (1, 0, 2))]
    if tier != "quick":
        out += [(3, (0, 0, 0)), (3, (0, 1, 0)), (3, (1, 0, 2)), (2, (0, 3, 0)), (1, (1, 1, 0))]
    return out


# --------------------------------------------------------------------------------------
# engine B: two representations that share ONE KnotVector object clean to the same minimal form, independently of each other
# --------------------------------------------------------------------------------------
def task_shared():
    from ..env import knotspace
    fn = "curves.Curve.clean"
    out = []
    for p in (1, 2, 3):
        base = [F(0)] * (p + 1) + [F(1)] + [F(3)] * (p + 1)                         # minimal for generic points
        fine = sorted(base + [F(1)] * (p - 1) + [F(2)] + [F(1, 2)] * min(p, 2))      # redundant copies / knots
        X = [F((-1) ** i * (i + 1), 2) for i in range(len(base) - p - 1)]
        Y = [F(i * i - 1, 3) for i in range(len(base) - p - 1)]
        T = spec.refine_matrix(base, p, fine, p)
        Xf = [sum(T[i][j] * X[j] for j in range(len(X))) for i in range(len(T))]
        Yf = [sum(T[i][j] * Y[j] for j in range(len(Y))) for i in range(len(T))]
        kv = knotspace.KnotVector(list(fine))
        cx, cy = curves.Curve(kv, list(Xf)), curves.Curve(kv, list(Yf))
        bad = None
        try:
            cx.clean()
            if tuple(cy.knotvector) != tuple(fine) or list(cy.ctrlpoints) != Yf:
                bad = "cleaning one curve changed the other (built from the same KnotVector object): knots %s" % (tuple(map(str, cy.knotvector)),)
            else:
                cy.clean()
                for c, Q, nm in ((cx, X, "first"), (cy, Y, "second")):
                    if tuple(c.knotvector) != tuple(base) or list(c.ctrlpoints) != Q:
                        bad = "%s curve cleans to knots %s / points %s, minimal form is %s / %s" % (nm, tuple(map(str, c.knotvector)), list(map(str, c.ctrlpoints)), tuple(map(str, base)), list(map(str, Q)))
                        break
                if not bad:
                    curves.Curve(kv, list(Xf))       # the shared object is still the fine vector: building a third curve on it works
        except Exception as e:
            bad = "%s: %s" % (type(e).__name__, str(e)[:120])
        out.append(ob("%s:shared-knotvector-object[p=%d]" % (fn, p), fn, FAILED if bad else PROVED, "B", "concrete", 0.0,
                      bad or "two refined representations on one KnotVector object clean independently to the minimal knot vector and control points",
                      dict(kind="c14.shared", p=p) if bad else None))
    return out + [{"_stats": dict(cases=len(out))}]


task_shared.contract_fn = "curves.Curve.clean"


# --------------------------------------------------------------------------------------
# engine B: histories that leave MIXED redundancy (the degree raised by t >= 2 and a knot inserted afterwards, in both orders): clean(), and degree_clean() then
# knot_clean(), reach the minimal representation; a second clean() changes nothing
# --------------------------------------------------------------------------------------
def task_mixed_history():
    fn = "curves.Curve.clean"
    out = []
    bases = {"quadratic-bezier": ([F(0)] * 3 + [F(2)] * 3, [F(1), F(-2), F(4)]), "quadratic-spline": ([F(0)] * 3 + [F(1, 3)] + [F(2)] * 3, [F(1), F(-2), F(4), F(0)]),
             "line-spline": ([F(0), F(0), F(1), F(3), F(3)], [F(1), F(5), F(-1)])}
    histories = {"elevate2-then-insert": lambda c: (c.degree_increase(2), c.knot_insert([F(3, 2)])), "insert-then-elevate2": lambda c: (c.knot_insert([F(3, 2)]), c.degree_increase(2)),
                 "elevate3-then-insert-twice": lambda c: (c.degree_increase(3), c.knot_insert([F(3, 2), F(3, 2)])),
                 "elevate1-insert-elevate1": lambda c: (c.degree_increase(1), c.knot_insert([F(1, 2)]), c.degree_increase(1))}
    cleaners = {"clean": lambda c: c.clean(), "degree_clean;knot_clean": lambda c: (c.degree_clean(), c.knot_clean()), "knot_clean;degree_clean;knot_clean": lambda c: (c.knot_clean(), c.degree_clean(), c.knot_clean())}
    for bname, (U, P) in bases.items():
        for hname, h in histories.items():
            for cname, cl in cleaners.items():
                bad = None
                try:
                    c = curves.Curve(list(U), list(P))
                    h(c)
                    cl(c)
                    got = (tuple(c.knotvector), tuple(c.ctrlpoints))
                    if got != (tuple(U), tuple(P)):
                        bad = "cleans to degree %d, knots %s; the minimal representation is degree %d, knots %s" % (c.degree, tuple(map(str, c.knotvector)), U.count(U[0]) - 1, tuple(map(str, U)))
                    else:
                        c.clean()
                        if (tuple(c.knotvector), tuple(c.ctrlpoints)) != got:
                            bad = "a second clean() changes the curve"
                except Exception as e:
                    bad = "%s: %s" % (type(e).__name__, str(e)[:100])
                out.append(ob("%s:mixed-history[%s,%s,%s]" % (fn, bname, hname, cname), fn, FAILED if bad else PROVED, "B", "concrete", 0.0,
                              bad or "minimal representation reached, idempotent", dict(kind="c14.mixed", base=bname, history=hname, cleaner=cname) if bad else None))
    return out + [{"_stats": dict(cases=len(out))}]


task_mixed_history.contract_fn = "curves.Curve.clean"


# --------------------------------------------------------------------------------------
# engine B: idempotence when a removal is LOSSY but within the tolerance (a feature of size 4e-5: squared L2 error just below 1e-9). Known finding D44.
# --------------------------------------------------------------------------------------
def task_threshold_idempotence():
    fn = "curves.Curve.clean"
    out = []
    for name, cl in (("knot_clean", lambda c: c.knot_clean()), ("clean", lambda c: c.clean())):
        bad = None
        try:
            c = curves.Curve([F(0), F(0), F(1), F(2), F(3), F(3)], [F(0), F(4, 100000), F(-32, 1000000), F(0)])
            cl(c)
            s1 = (c.degree, tuple(c.knotvector), tuple(c.ctrlpoints))
            cl(c)
            s2 = (c.degree, tuple(c.knotvector), tuple(c.ctrlpoints))
            if s1 != s2:
                bad = "a second %s() changes the curve again: degree %d, knots %s -> degree %d, knots %s" % (name, s1[0], tuple(map(str, s1[1])), s2[0], tuple(map(str, s2[1])))
        except Exception as e:
            bad = "%s: %s" % (type(e).__name__, str(e)[:100])
        out.append(ob("%s:idempotent-near-the-tolerance[%s]" % (fn, name), fn, FAILED if bad else PROVED, "B", "concrete", 0.0,
                      bad or "the second call changes nothing", dict(kind="c14.threshold", case=name) if bad else None))
    return out + [{"_stats": dict(cases=len(out))}]


task_threshold_idempotence.contract_fn = "curves.Curve.clean"


def tasks(tier, seed):
    from ..pyvc.driver import verify
    from ..contracts import curvesv
    # shape level, all curves: knot_clean / degree_clean / clean terminate (variants npts + degree, degree), keep the representation invariant, never grow the
    # curve, and raise only AssertionError for a negative tolerance with the curve unchanged
    ts = curvesv.tasks_for(("Curve.knot_clean", "Curve.degree_clean", "Curve.clean"))
    for p, cells in shapes(tier):
        for variant in ((0, 1) if tier == "quick" else (0, 1, 2)):
            ts.append((task_clean, (p, cells, variant, tier)))
    for p, cells in ((1, (0, 0, 0)), (2, (0, 0, 0)), (1, (0, 1, 0)), (2, (0, 2, 0))):
        ts.append((task_strict, (p, cells, 0)))
    ts.append((task_shared, ()))
    ts.append((task_mixed_history, ()))
    ts.append((task_threshold_idempotence, ()))
    return ts


def replay(o):
    if (o.get("witness") or {}).get("kind") == "c14.threshold":
        r = [x for x in task_threshold_idempotence() if "id" in x and x["id"].endswith("[%s]" % o["witness"]["case"])][0]
        return r["status"] == FAILED, "the second call changes nothing", r["detail"]
    if (o.get("witness") or {}).get("kind") == "c14.mixed":
        w = o["witness"]
        r = [x for x in task_mixed_history() if "id" in x and x["id"].endswith("[%s,%s,%s]" % (w["base"], w["history"], w["cleaner"]))][0]
        return r["status"] == FAILED, "the minimal representation, and idempotence", r["detail"]
    if (o.get("witness") or {}).get("kind") == "c14.shared":
        r = [x for x in task_shared() if "id" in x and x["id"].endswith("[p=%d]" % o["witness"]["p"])][0]
        return r["status"] == FAILED, "both curves clean to the minimal form; the other curve is untouched", r["detail"]
    w = o["witness"]
    p, cells, variant = w["p"], tuple(w["cells"]), w["variant"]
    U = vec(p, cells, variant)
    n = len(U) - p - 1
    if w["kind"] == "c14.strict":
        Ue = spec.elevate_vector(U, p, 1)
        Q = [F(3), F(-1), F(4), F(1, 2), F(-5), F(9, 2), F(2), F(-6), F(5)][:n]
        P = apply_T(spec.refine_matrix(U, p, Ue, p + 1), Q)
        P[len(P) // 2] += F(1, 10 ** 7)          # top degree tiny but genuinely needed
        C = curves.Curve(list(Ue), list(P))
        {"degree_clean(0)": lambda c: c.degree_clean(0), "clean(0)": lambda c: c.clean(0), "knot_clean(tolerance=0)": lambda c: c.knot_clean(tolerance=0)}[w["call"]](C)
        from .fitcommon import concrete_curve_equal
        same, u = concrete_curve_equal(Ue, P, None, p + 1, list(C.knotvector), list(C.ctrlpoints), None, C.degree)
        return not same, dict(knots=Ue, ctrlpoints=P, call=w["call"], expected="unchanged as a function (tolerance 0)"), dict(knots=tuple(C.knotvector), ctrlpoints=C.ctrlpoints, differs_at=u)
    Uf = [F(x) for x in w["Uf"]]
    pf = w["pf"]
    T = spec.refine_matrix(U, p, Uf, pf)
    Q = [F(3), F(-1), F(4), F(1, 2), F(-5), F(9, 2), F(2), F(-6), F(5)][:n]
    C = curves.Curve(list(Uf), apply_T(T, Q))
    order = w["order"]
    try:
        if order == "clean":
            C.clean()
        elif order.startswith("knot"):
            C.knot_clean(); C.degree_clean(); C.knot_clean()
        else:
            C.degree_clean(); C.knot_clean()
    except Exception as e:
        return True, dict(minimal=(U, Q)), "%s: %s" % (type(e).__name__, str(e)[:100])
    bad = list(C.knotvector) != list(U) or list(C.ctrlpoints) != Q
    return bad, dict(refined=(Uf, apply_T(T, Q)), order=order, minimal_knots=U, minimal_points=Q), dict(knots=tuple(C.knotvector), ctrlpoints=C.ctrlpoints)


INFO = dict(
    assumptions=A.S_COMMON + [A.A4, "A9 the minimal curve is generic with margin: a removal whose error form is a non-zero positive semidefinite quadratic form of the "
                                    "control points is refused (the branch is fixed by this precondition, not explored both ways)", A.A11],
    trusted_base=A.TRUSTED, min_obligations=60, level="other",
    explanation="C14: knot_clean / degree_clean / clean on P = T_hist Q, T_hist the spec matrix of a refinement history (knot insertions, degree elevations) of a "
                "curve with symbolic generic control points Q on a concrete minimal knot vector: the result is exactly (U_Q, Q) for every call order, and a "
                "second clean() changes nothing. Function preservation for arbitrary control points is covered by the success-path bounds of C05 / C06.",
    functions=["curves.Curve.clean", "curves.Curve.knot_clean", "curves.Curve.degree_clean", "curves.Curve.knot_remove", "curves.Curve.degree_decrease",
               "curves.BaseCurve.update", "curves.Curve.fit_curve"],
)


def info(tier, seed, obs):
    return dict(bounds="tier %s: %d minimal shapes x %d knot-value grids x up to 5 refinement histories (<= 3 operations) x 3 call orders" % (
        tier, len(shapes(tier)), 2 if tier == "quick" else 3))
