"""C15 — curves stay consistent; failed operations are atomic; operands stay untouched."""
from __future__ import annotations

import ast
import itertools
from copy import copy, deepcopy
from fractions import Fraction

import numpy as np

from .. import assume as A
from .. import env, spec
from ..env import calculus, curves, heavy, knotspace
from ..report import FAILED, PROVED, ob

PROP = "C15"
F = Fraction
Curve = curves.Curve
KV = knotspace.KnotVector

PRIVATE = ["_BaseCurve__knotvector", "_BaseCurve__ctrlpoints", "_BaseCurve__weights"]
ALLOWED_WRITERS = {
    # BaseCurve.apply writes the three fields only to put back the state it saved when its own commit is refused (D34); its V contract proves that
    "__knotvector": {"BaseCurve.__init__", "BaseCurve.update", "BaseCurve.apply"},
    "__ctrlpoints": {"BaseCurve.__init__", "BaseCurve.ctrlpoints", "BaseCurve.apply"},
    "__weights": {"BaseCurve.__init__", "BaseCurve.weights", "BaseCurve.apply"},
}
MUTATORS = {"insert", "remove", "shift", "scale", "normalize", "convert"}


# --------------------------------------------------------------------------------------
# frame analysis (unbounded, syntactic)
# --------------------------------------------------------------------------------------
def task_frames():
    out = []
    trees = {m: ast.parse(env.source(m)) for m in ("curves", "calculus", "advanced", "functions", "knotspace", "heavy")}
    # 1. write-set of the three private fields
    writers = {k: set() for k in ALLOWED_WRITERS}
    for cls in [n for n in trees["curves"].body if isinstance(n, ast.ClassDef)]:
        for fn in [n for n in cls.body if isinstance(n, ast.FunctionDef)]:
            for n in ast.walk(fn):
                tgts = []
                if isinstance(n, ast.Assign):
                    tgts = n.targets
                elif isinstance(n, (ast.AugAssign, ast.AnnAssign)):
                    tgts = [n.target]
                elif isinstance(n, ast.Delete):
                    tgts = n.targets
                for t in tgts:
                    for a in ast.walk(t):
                        if isinstance(a, ast.Attribute) and a.attr in writers:
                            writers[a.attr].add("%s.%s" % (cls.name, fn.name))
    for field, allowed in ALLOWED_WRITERS.items():
        extra = writers[field] - allowed
        out.append(ob("curves.BaseCurve:write-set[%s]" % field, "curves.BaseCurve", FAILED if extra else PROVED, "F", "ast", 0.0,
                      ("written outside the contract's assigns clause: %s" % sorted(extra)) if extra else
                      "only %s assign self.%s" % (sorted(writers[field]), field)))
    # the mangled names are not touched from other modules, setattr / __dict__ tricks are absent
    hits = []
    for m, tree in trees.items():
        for n in ast.walk(tree):
            if isinstance(n, ast.Attribute) and n.attr in PRIVATE + ["__dict__"]:
                hits.append("%s:L%d %s" % (m, n.lineno, n.attr))
            if isinstance(n, ast.Call) and isinstance(n.func, ast.Name) and n.func.id in ("setattr", "delattr", "vars") and m != "heavy":
                hits.append("%s:L%d %s()" % (m, n.lineno, n.func.id))
            if isinstance(n, ast.Constant) and isinstance(n.value, str) and n.value in PRIVATE:
                hits.append("%s:L%d '%s'" % (m, n.lineno, n.value))
    out.append(ob("curves.BaseCurve:no-back-door", "curves.BaseCurve", FAILED if hits else PROVED, "F", "ast", 0.0,
                  ("private curve state is reachable by name elsewhere: %s" % hits[:4]) if hits else
                  "no module refers to the mangled private fields, __dict__, setattr, delattr or vars"))
    # 2. update(): no exception edge after the first field write other than the two property setters
    upd = next(f for c in trees["curves"].body if isinstance(c, ast.ClassDef) and c.name == "BaseCurve" for f in c.body
               if isinstance(f, ast.FunctionDef) and f.name == "update")
    first_write = None
    after = []
    for stmt in upd.body:
        has_write = any(isinstance(a, ast.Attribute) and a.attr == "__knotvector" and isinstance(a.ctx, ast.Store) for a in ast.walk(stmt))
        if first_write is None:
            if has_write and not isinstance(stmt, ast.If):
                first_write = stmt.lineno
            continue
        after.append(ast.unparse(stmt))
    ok = first_write is not None and after == ["self.ctrlpoints = temp_curve.ctrlpoints", "self.weights = temp_curve.weights"]
    out.append(ob("curves.BaseCurve.update:write-after-last-raise", "curves.BaseCurve.update", PROVED if ok else FAILED, "F", "ast", 0.0,
                  "the knot vector is rebound (L%s) after the error test; only the two setters follow (they re-validate values that already passed fit_curve's "
                  "own setters on the temporary curve)" % first_write if ok else "statements after the first field write: %s" % after))
    # 3. no in-place KnotVector mutation through a .knotvector attribute in curve-level code
    bad = []
    for m in ("curves", "calculus", "advanced"):
        for n in ast.walk(trees[m]):
            if isinstance(n, ast.Call) and isinstance(n.func, ast.Attribute) and n.func.attr in MUTATORS:
                src = ast.unparse(n.func.value)
                if src.endswith(".knotvector") or src == "knotvector":
                    bad.append("%s:L%d %s" % (m, n.lineno, ast.unparse(n)[:60]))
            if isinstance(n, ast.AugAssign):
                src = ast.unparse(n.target)
                if src.endswith(".knotvector") or src.endswith(".knotvector.degree") or src.endswith(".knotvector.internal"):
                    bad.append("%s:L%d %s" % (m, n.lineno, ast.unparse(n)[:60]))
            if isinstance(n, ast.Assign):
                for t in n.targets:
                    src = ast.unparse(t)
                    if src.endswith(".knotvector.degree") or src.endswith(".knotvector.internal"):
                        bad.append("%s:L%d %s" % (m, n.lineno, ast.unparse(n)[:60]))
    out.append(ob("curves:no-shared-knotvector-mutation", "curves", FAILED if bad else PROVED, "F", "ast", 0.0,
                  ("in-place KnotVector mutation through a curve's knot vector: %s" % bad[:4]) if bad else
                  "no in-place KnotVector mutator (insert/remove/shift/scale/normalize/convert/degree=/internal=/augmented assignment) is applied to a "
                  ".knotvector attribute in curves.py, calculus.py, advanced.py: curves sharing a KnotVector object cannot affect each other through Curve operations"))
    # 4. KnotVector arithmetic returns deep copies
    kcls = next(c for c in trees["knotspace"].body if isinstance(c, ast.ClassDef) and c.name == "KnotVector")
    nonin = {}
    for f in kcls.body:
        if isinstance(f, ast.FunctionDef) and f.name in ("__add__", "__sub__", "__mul__", "__rmul__", "__truediv__", "__or__", "__and__"):
            rets = [ast.unparse(r.value) for r in ast.walk(f) if isinstance(r, ast.Return)]
            nonin[f.name] = rets
    badk = {k: v for k, v in nonin.items() if not (len(v) == 1 and v[0].startswith("deepcopy(self)."))}
    out.append(ob("knotspace.KnotVector:operators-copy", "knotspace.KnotVector", FAILED if badk or len(nonin) != 7 else PROVED, "F", "ast", 0.0,
                  ("operators not of the form deepcopy(self).__iop__(other): %s" % badk) if badk else "the 7 non-in-place operators work on deepcopy(self)"))
    return out


task_frames.contract_fn = "curves.BaseCurve"


# --------------------------------------------------------------------------------------
# bounded histories on concrete curves
# --------------------------------------------------------------------------------------
def state(c):
    return (tuple(c.knotvector), c.degree, None if c.ctrlpoints is None else tuple(map(repr, c.ctrlpoints)), None if c.weights is None else tuple(c.weights))


def inv(c):
    n = len(c.knotvector) - c.degree - 1
    if c.npts != n:
        return "npts %d != len(knotvector)-degree-1 = %d" % (c.npts, n)
    if c.ctrlpoints is not None and len(c.ctrlpoints) != n:
        return "len(ctrlpoints) = %s, npts = %d" % (len(c.ctrlpoints), n)
    if c.weights is not None and len(c.weights) != n:
        return "len(weights) = %d, npts = %d" % (len(c.weights), n)
    if not spec.WF(tuple(c.knotvector), c.degree):
        return "knot vector not well-formed"
    if c.ctrlpoints is None:        # a curve without control points (possibly with weights): nothing to evaluate yet
        return None
    try:
        a, b = c.knotvector.limits
        c(a), c(b), c((a + b) / 2)
    except Exception as e:
        return "does not evaluate on its interval: %s" % type(e).__name__
    return None


def ops_table():
    other = lambda: Curve([F(0), F(0), F(3), F(3)], [F(2), F(-1)])
    return [
        ("knot_insert[1]", lambda c: c.knot_insert([F(1)]), True), ("knot_insert[1,1,1,1]", lambda c: c.knot_insert([F(1)] * 4), True),
        ("knot_insert[9]", lambda c: c.knot_insert([F(9)]), True), ("knot_insert[3/2,1/2]", lambda c: c.knot_insert([F(3, 2), F(1, 2)]), True),
        ("knot_insert[0,3]", lambda c: c.knot_insert([F(0), F(3)]), True),
        ("knot_insert(generator 2,1/2)", lambda c: c.knot_insert(x for x in (F(2), F(1, 2))), True), ("knot_remove(generator 1)", lambda c: c.knot_remove((x for x in (F(1),)), None), True),
        ("knot_remove[1]", lambda c: c.knot_remove([F(1)]), True), ("knot_remove[5/7]", lambda c: c.knot_remove([F(5, 7)]), True),
        ("knot_remove[1],None", lambda c: c.knot_remove([F(1)], None), True),
        ("knot_remove[1,1]", lambda c: c.knot_remove([F(1), F(1)]), True), ("knot_remove[2,1]", lambda c: c.knot_remove([F(2), F(1)]), True), ("knot_remove[0]", lambda c: c.knot_remove([F(0)]), True),
        ("degree_increase(1)", lambda c: c.degree_increase(1), True), ("degree_increase(0)", lambda c: c.degree_increase(0), True),
        ("degree_decrease(2)", lambda c: c.degree_decrease(2), True), ("degree-=2", lambda c: setattr(c, "degree", c.degree - 2), True),
        ("degree_decrease(1)", lambda c: c.degree_decrease(1), True), ("degree_decrease(1,None)", lambda c: c.degree_decrease(1, None), True),
        ("degree=-1", lambda c: setattr(c, "degree", -1), True), ("degree+=2", lambda c: setattr(c, "degree", c.degree + 2), True),
        ("knot_clean", lambda c: c.knot_clean(), True), ("degree_clean", lambda c: c.degree_clean(), True), ("clean", lambda c: c.clean(), True),
        ("ctrlpoints=short", lambda c: setattr(c, "ctrlpoints", [F(1)]), True), ("ctrlpoints='abc'", lambda c: setattr(c, "ctrlpoints", "abc"), True),
        ("weights=bad", lambda c: setattr(c, "weights", ["x"] * c.npts), True),
        ("weights=short-positive", lambda c: setattr(c, "weights", [F(2)] * (c.npts - 1)), True), ("weights=long-positive", lambda c: setattr(c, "weights", [F(1, 2)] * (c.npts + 2)), True),
        ("fit_points(short)", lambda c: c.fit_points([F(1)]), True), ("fit_points(ok)", lambda c: c.fit_points([F(i * i) for i in range(c.npts + 2)]), True),
        ("knotvector=other-interval", lambda c: setattr(c, "knotvector", [F(0), F(0), F(5), F(5)]), True),
        ("split[1]", lambda c: c.split([F(1)]), False), ("split()", lambda c: c.split(), False),
        ("split[]+clean", lambda c: [q.clean() for q in c.split([])], False), ("split(ends)+insert", lambda c: [q.knot_insert([F(3, 2)]) for q in c.split([F(0), F(3)])], False), ("eval", lambda c: c([F(0), F(1, 3), F(3)]), False),
        ("eval-outside", lambda c: c(F(7)), False), ("c+other", lambda c: c + other(), False), ("c*other", lambda c: c * other(), False),
        ("c/other", lambda c: c / (other() + 5), False), ("-c", lambda c: -c, False), ("c==other", lambda c: c == other(), False),
        ("fraction", lambda c: c.fraction(), False), ("copy", lambda c: copy(c), False), ("Derivate", lambda c: calculus.Derivate(c), False),
        ("Integrate", lambda c: calculus.Integrate.scalar(c), False), ("other.fit_curve(c)", lambda c: Curve([F(0), F(0), F(3), F(3)]).fit_curve(c), False),
        ("c|shifted", lambda c: c | Curve([F(3), F(3), F(4), F(4)], [F(0), F(1)]), False),
        ("cubic-left|c", lambda c: Curve([F(-1)] * 4 + [F(0)] * 4, [F(1), F(0), F(2), F(-1)]) | c, False),
        ("line-left|c", lambda c: Curve([F(-2), F(-2), F(0), F(0)], [F(1), F(3)]) | c, False),
        # the public BaseCurve.apply itself: a matrix with one row too many (wrong number of control points: D34), an invalid knot vector, the identity
        ("apply(kv, npts+1 rows)", lambda c: c.apply(list(c.knotvector), [[F(int(i == j)) for j in range(c.npts)] for i in range(c.npts + 1)]), True),
        ("apply(unsorted kv, identity)", lambda c: c.apply([F(0), F(2), F(1)], [[F(int(i == j)) for j in range(c.npts)] for i in range(c.npts)]), True),
        ("apply(kv, identity)", lambda c: c.apply(list(c.knotvector), [[F(int(i == j)) for j in range(c.npts)] for i in range(c.npts)]), True),
        # a weight function with a zero exactly AT a sample (the first knot): the refusal is a ValueError like every other refused weight list (D46)
        # a non-numeric entry among removable knots: the refusal must come before anything is removed (D52)
        ("knot_clean[1/2,3/2,(9,)]", lambda c: c.knot_clean([F(1, 2), F(3, 2), (F(9),)]), True),
        # the RESULT of a non-mutating operation is an independent object: changing it does not change the operand
        ("mutate(fraction()[0])", lambda c: (lambda r: (r.knot_insert([F(1, 2)]), setattr(r, "ctrlpoints", [2 * q for q in r.ctrlpoints])))(c.fraction()[0]), False),
        ("mutate(-c)", lambda c: (lambda r: (r.degree_increase(1), setattr(r, "ctrlpoints", [2 * q for q in r.ctrlpoints])))(-c), False),
        ("mutate(c+1)", lambda c: (lambda r: (r.knot_insert([F(5, 2)]), setattr(r, "ctrlpoints", [q + 1 for q in r.ctrlpoints])))(c + 1), False),
        ("mutate(copy(c))", lambda c: (lambda r: (r.knot_insert([F(1, 2)]), setattr(r, "ctrlpoints", [q + 1 for q in r.ctrlpoints])))(copy(c)), False),
        ("weights=zero-at-umin", lambda c: setattr(c, "weights", [F(0)] + [F(1)] * (c.npts - 1)), True),
        ("apply(kv, first row zero)", lambda c: c.apply(list(c.knotvector), [[F(int(i == j and i > 0)) for j in range(c.npts)] for i in range(c.npts)]), True),
    ]


STARTS = {
    "p1": ([F(0), F(0), F(1), F(3), F(3)], [F(1), F(-2), F(4)], None),
    "p2": ([F(0)] * 3 + [F(1), F(1)] + [F(3)] * 3, [F(1), F(2), F(0), F(-1), F(5)], None),
    "p0": ([F(0), F(1), F(3)], [F(2), F(-1)], None),
    "p2rat": ([F(0)] * 3 + [F(3)] * 3, [F(1), F(2), F(0)], [F(1), F(2), F(1)]),
}
# curves without control points: with weights only (D26) and with neither
STARTS["p1wonly"] = ([F(0), F(0), F(1), F(3), F(3)], None, [F(1), F(2), F(3)])
STARTS["p2empty"] = ([F(0)] * 3 + [F(1)] + [F(3)] * 3, None, None)
# a weighted curve with a zero control weight (its weight function has no zero): computing the new control points fails in apply (D28)
STARTS["p2zero"] = ([F(0)] * 3 + [F(1)] + [F(3)] * 3, [F(1), F(2), F(3), F(4)], [F(1), F(0), F(1), F(1)])
# a genuine quadratic stored with degree 3 (reducible exactly once: degree_decrease(2) must refuse and leave it untouched)
_UQ = [F(0)] * 3 + [F(1)] + [F(3)] * 3
_UC = [F(0)] * 4 + [F(1), F(1)] + [F(3)] * 4
STARTS["p3once"] = (_UC, [sum(t * q for t, q in zip(row, [F(1), F(-2), F(4), F(0)])) for row in spec.refine_matrix(_UQ, 2, _UC, 3)], None)
# a curve with redundant knots: knot 1 stored twice (one copy redundant) and knot 2 redundant, so that a multi-node removal can be
# possible for its first node and impossible for a later one
_U0 = [F(0)] * 3 + [F(1)] + [F(3)] * 3
_UR = [F(0)] * 3 + [F(1), F(1), F(2)] + [F(3)] * 3
STARTS["p2red"] = (_UR, [sum(t * q for t, q in zip(row, [F(1), F(-2), F(4), F(0)])) for row in spec.refine_matrix(_U0, 2, _UR, 2)], None)


def task_histories(start, depth, chunk, nchunks):
    fn = "curves.Curve (histories)"
    ops = ops_table()
    U, P, W = STARTS[start]
    bad = []
    nsteps = 0
    rational = W is not None
    for idx, seq in enumerate(itertools.product(range(len(ops)), repeat=depth)):
        if idx % nchunks != chunk:
            continue
        shared = KV(list(U))
        c = Curve(shared, None if P is None else list(P), None if W is None else list(W))
        partner = Curve(shared, None if P is None else list(P), None if W is None else list(W))      # built from the same KnotVector object
        pstate = state(partner)
        for i in seq:
            name, op, mutating = ops[i]
            before = state(c)
            try:
                op(c)
                raised = None
            except (ValueError, AssertionError, TypeError, NotImplementedError, ZeroDivisionError) as e:
                raised = type(e).__name__
            except Exception as e:
                bad.append(([ops[j][0] for j in seq], "%s raised %s: %s" % (name, type(e).__name__, str(e)[:60])))
                break
            nsteps += 1
            msg = None
            if raised is not None and state(c) != before:
                msg = "%s raised %s but changed the curve" % (name, raised)
            elif not mutating and state(c) != before:
                msg = "non-mutating %s modified its operand" % name
            elif inv(c) is not None:
                msg = "after %s: %s" % (name, inv(c))
            elif state(partner) != pstate or inv(partner) is not None:
                msg = "after %s the curve built from the same KnotVector object changed: %s" % (name, inv(partner) or "state differs")
            if msg:
                bad.append(([ops[j][0] for j in seq], msg))
                break
    tag = "start=%s,depth=%d,chunk=%d" % (start, depth, chunk)
    if bad:
        return [ob("%s:history-invariant[%s]" % (fn, tag), fn, FAILED, "B", "exhaustive-enumeration", 0.0,
                   "%d operation sequences break consistency / atomicity / operand integrity; first: %s: %s" % (len(bad), bad[0][0], bad[0][1]),
                   dict(kind="c15.history", start=start, ops=bad[0][0], rational=rational), {"rational": rational})]
    return [ob("%s:history-invariant[%s]" % (fn, tag), fn, PROVED, "B", "exhaustive-enumeration", 0.0,
               "%d steps over all sequences of %d of %d public operations: len(ctrlpoints) == npts == len(knotvector)-degree-1, curve evaluates, raising "
               "operations leave the state unchanged, non-mutating ones never modify the operand, the curve sharing the KnotVector object is unaffected" % (
                   nsteps, depth, len(ops))), {"_stats": dict(cases=nsteps)}]


task_histories.contract_fn = "curves.Curve"


# --------------------------------------------------------------------------------------
# engine B: control points given as numpy ARRAYS (vector-valued points): a mutating operation on a RATIONAL curve must not write into the arrays the caller (or
# another curve, or another slot of the same curve) still holds, must work for integer arrays with Fraction weights, and must keep the curve's values (D38)
# --------------------------------------------------------------------------------------
def task_array_points():
    import numpy as np
    fn = "curves.BaseCurve.apply"
    out = []
    U = [F(0)] * 3 + [F(1)] * 3
    Wt = [F(1), F(2), F(3)]
    kinds = {"float64-rows-of-a-2d-array": lambda: np.array([[1., 2.], [3., -1.], [0., 4.]]), "int64-rows-of-a-2d-array": lambda: np.array([[1, 2], [3, -1], [0, 4]]),
             "object-fractions": lambda: np.array([[F(1), F(2)], [F(3), F(-1)], [F(0), F(4)]], dtype=object)}
    ops = {"knot_insert[1/2]": lambda c: c.knot_insert([F(1, 2)]), "degree_increase(1)": lambda c: c.degree_increase(1), "split[1/2]": lambda c: c.split([F(1, 2)]),
           "knot_insert[0,1] (refused)": lambda c: c.knot_insert([F(0), F(1)])}

    def value(arr, u):
        N = spec.basis(U, 2, 2, u)
        den = sum(n_ * w for n_, w in zip(N, Wt))
        return [sum(n_ * w * F(arr[i][d]) for i, (n_, w) in enumerate(zip(N, Wt))) / den for d in range(2)]
    combos = [(kname, mk, "Fraction-knots,Fraction-weights", list(U), list(Wt)) for kname, mk in kinds.items()]
    # the other number classes of knots and weights (an accumulator typed like the points must not be added / divided in place: D50)
    combos += [("int64-rows-of-a-2d-array", kinds["int64-rows-of-a-2d-array"], "float-knots,int-weights", [float(x) for x in U], [1, 2, 3]),
               ("float64-rows-of-a-2d-array", kinds["float64-rows-of-a-2d-array"], "Fraction-knots,float-weights", list(U), [1.0, 2.0, 3.0]),
               ("int64-rows-of-a-2d-array", kinds["int64-rows-of-a-2d-array"], "Fraction-knots,int-weights", list(U), [1, 2, 3])]
    for kname, mk, wname, Uc, Wc in combos:
        for oname, op in ops.items():
            bad = None
            try:
                arr = mk()
                keep = arr.copy()
                c = Curve(list(Uc), arr, list(Wc))
                sibling = Curve(list(Uc), arr, list(Wc))            # built from the same array
                try:
                    op(c)
                    raised = None
                except ValueError:
                    raised = "ValueError"
                if not np.array_equal(arr, keep):
                    bad = "the caller's array was modified: %s -> %s" % (keep.tolist(), arr.tolist())
                elif raised and "refused" not in oname:
                    bad = "a legal request raised %s" % raised
                elif not raised and "refused" in oname:
                    bad = "an illegal request was accepted"
                else:
                    for u in (F(0), F(1, 4), F(1, 2), F(1)):
                        exp = value(keep, u)
                        for who, cv in (("the curve", c), ("a curve built from the same array", sibling)):
                            got = cv(u)
                            if any(abs(F(got[d]) - exp[d]) > F(1, 10 ** 9) for d in range(2)):
                                bad = "%s evaluates to %s at %s, expected %s" % (who, list(got), u, [str(x) for x in exp])
                                break
                        if bad:
                            break
            except Exception as e:
                bad = "%s: %s" % (type(e).__name__, str(e)[:100])
            tagk = kname if wname.startswith("Fraction-knots,Fraction") else "%s;%s" % (kname, wname)
            out.append(ob("%s:array-points-not-written[%s,%s]" % (fn, tagk, oname), fn, FAILED if bad else PROVED, "B", "concrete", 0.0,
                          bad or "the caller's array, a sibling curve and the curve's values are as before", dict(kind="c15.arrays", points=tagk, op=oname) if bad else None))
    # the same array OBJECT in two slots of one curve (a closed curve [p0, p1, p2, p0])
    bad = None
    try:
        p0, p1, p2 = np.array([1., 2.]), np.array([3., -1.]), np.array([0., 4.])
        U4 = [F(0)] * 3 + [F(1, 2)] + [F(1)] * 3
        W4 = [F(5), F(2), F(3), F(1)]
        c = Curve(list(U4), [p0, p1, p2, p0], list(W4))
        v0 = [F(x) for x in c(F(0))]
        c.knot_insert([F(1, 4)])
        v1 = [F(x) for x in c(F(0))]
        if v0 != v1 or list(p0) != [1., 2.]:
            bad = "C(0) changed from %s to %s (p0 is now %s)" % ([str(x) for x in v0], [str(x) for x in v1], list(p0))
    except Exception as e:
        bad = "%s: %s" % (type(e).__name__, str(e)[:100])
    out.append(ob("%s:array-points-not-written[same-array-in-two-slots,knot_insert]" % fn, fn, FAILED if bad else PROVED, "B", "concrete", 0.0,
                  bad or "a point object used twice is not scaled twice", dict(kind="c15.arrays", points="same-array-in-two-slots", op="knot_insert") if bad else None))
    return out + [{"_stats": dict(cases=len(out))}]


task_array_points.contract_fn = "curves.BaseCurve.apply"


# --------------------------------------------------------------------------------------
# engine B: a weight list whose weight function has a zero WITHOUT a sign change (weights (1, -1, 1) on a quadratic Bezier: W = (1 - 2u)^2): the sign-change sampling of
# find_roots does not see it, the setter accepts the list and the curve cannot be evaluated at u = 1/2.  Known finding D49.
# --------------------------------------------------------------------------------------
def task_weight_double_root():
    fn = "curves.BaseCurve.weights"
    out = []
    for label, conv in (("Fraction", F), ("float", float)):
        bad = None
        try:
            c = Curve([conv(0)] * 3 + [conv(1)] * 3, [conv(1), conv(2), conv(3)])
            try:
                c.weights = [conv(1), conv(-1), conv(1)]
                accepted = True
            except ValueError:
                accepted = False
            if accepted:
                try:
                    v = c(conv(F(1, 2)))
                    if v != v:
                        bad = "accepted; the curve evaluates to nan at u = 1/2"
                except Exception as e:
                    bad = "accepted; evaluation at u = 1/2 raises %s" % type(e).__name__
        except Exception as e:
            bad = "%s: %s" % (type(e).__name__, str(e)[:100])
        out.append(ob("%s:zero-without-sign-change[%s]" % (fn, label), fn, FAILED if bad else PROVED, "B", "concrete", 0.0,
                      bad or "refused with ValueError (or the curve evaluates everywhere)", dict(kind="c15.doubleroot", label=label) if bad else None))
    return out + [{"_stats": dict(cases=len(out))}]


task_weight_double_root.contract_fn = "curves.BaseCurve.weights"


def task_copies():
    fn = "curves.BaseCurve.__copy__"
    out = []
    for start, (U, P, W) in STARTS.items():
        if P is None:
            continue
        c = Curve(list(U), list(P), W)
        d, e = copy(c), deepcopy(c)
        s0 = state(c)
        try:
            d.knot_insert([F(1, 2)])
            e.degree_increase(1)
            d.ctrlpoints = [p + 1 for p in d.ctrlpoints]
            ok = state(c) == s0 and d is not c and d.knotvector is not c.knotvector
            detail = "copies are independent of the original"
        except Exception as ex:
            ok, detail = False, "%s: %s" % (type(ex).__name__, str(ex)[:80])
        out.append(ob("%s:independent[%s]" % (fn, start), fn, PROVED if ok else FAILED, "B", "concrete", 0.0, detail, None if ok else dict(kind="c15.copy", start=start)))
    return out


task_copies.contract_fn = "curves.BaseCurve.__copy__"


def task_float_operands():
    """Projection / Intersection / split on float curves (a Bezier whose degree is reducible, a spline, a line): operands keep knot vector, control points
    and weights, and the pieces of split are never the operand itself."""
    fn = "advanced.Projection.point_on_curve"
    import numpy as np
    from compmec.nurbs.advanced import Intersection, Projection
    out = []

    def mk():
        para = curves.Curve([0.0] * 4 + [3.0] * 4, [np.array([0., 0.]), np.array([1., 2 / 3]), np.array([2., 2 / 3]), np.array([3., 0.])])   # a parabola stored as a cubic
        spl = curves.Curve([0.0] * 3 + [1.0] + [3.0] * 3, [np.array([0., 1.]), np.array([1., -1.]), np.array([2., 2.]), np.array([3., 0.])])
        line = curves.Curve([0.0, 0.0, 3.0, 3.0], [np.array([0., -1.]), np.array([3., 2.])])
        return dict(para=para, spl=spl, line=line)

    def snap(c):
        return (tuple(c.knotvector), c.degree, tuple(tuple(map(float, q)) for q in c.ctrlpoints), c.weights)
    runs = [
        ("Projection(para)", lambda d: Projection.point_on_curve(np.array([1., 1.]), d["para"])),
        ("Projection(spl)", lambda d: Projection.point_on_curve(np.array([1., 1.]), d["spl"])),
        ("Intersection(para,line)", lambda d: Intersection.curve_and_curve(d["para"], d["line"])),
        ("Intersection(spl,para)", lambda d: Intersection.curve_and_curve(d["spl"], d["para"])),
        ("split(para)()", lambda d: [q.clean() for q in d["para"].split()]),
        ("split(para)([])", lambda d: [q.clean() for q in d["para"].split([])]),
        ("split(line)(ends)", lambda d: [q.degree_increase(1) for q in d["line"].split([0.0, 3.0])]),
    ]
    for label, run in runs:
        d = mk()
        before = {k: snap(c) for k, c in d.items()}
        try:
            res = run(d)
            note = "returned"
        except (ValueError, TypeError, AssertionError, ZeroDivisionError, NotImplementedError) as e:
            res, note = None, "raised %s" % type(e).__name__
        changed = [k for k, c in d.items() if snap(c) != before[k]]
        ok = not changed
        out.append(ob("%s:operands-unchanged[%s]" % (fn, label), fn, PROVED if ok else FAILED, "B", "concrete", 0.0,
                      "%s; operands %s" % (note, "unchanged" if ok else "CHANGED: %s now degree %s" % (changed, [d[k].degree for k in changed])),
                      None if ok else dict(kind="c15.float", label=label)))
    return out + [{"_stats": dict(cases=len(runs))}]


task_float_operands.contract_fn = "advanced.Projection.point_on_curve"


def task_find_roots_length():
    """Engine B for the assumed clause of A11: the real heavy.find_roots refuses a value list whose length differs from npts with ValueError."""
    fn = "heavy.find_roots"
    from compmec.nurbs import heavy as hv
    real = getattr(hv.find_roots, "__wrapped__", None) or __import__("vlib.env", fromlist=["_real_find_roots"])._real_find_roots
    bad, n = [], 0
    for p in range(0, 4):
        for inner in range(0, 3):
            U = tuple([F(0)] * (p + 1) + [F(i + 1) for i in range(inner)] + [F(inner + 1)] * (p + 1))
            npts = len(U) - p - 1
            for L in range(0, npts + 3):
                if L == npts:
                    continue
                n += 1
                try:
                    real(U, tuple([F(1)] * L))
                    bad.append((U, L, "no exception"))
                except ValueError:
                    pass
                except Exception as e:
                    bad.append((U, L, type(e).__name__))
    if bad:
        return [ob("%s:wrong-length-refused" % fn, fn, FAILED, "B", "exhaustive-enumeration", 0.0,
                   "%d of %d (vector, length) pairs not refused with ValueError; first: %s" % (len(bad), n, bad[0]), None)]
    return [ob("%s:wrong-length-refused" % fn, fn, PROVED, "B", "exhaustive-enumeration", 0.0,
               "%d (vector, length != npts) pairs, degrees 0..3, up to 2 interior knots: ValueError every time (clause assumed by the weights-setter contract)" % n),
            {"_stats": dict(cases=n)}]


task_find_roots_length.contract_fn = "heavy.find_roots"


def tasks(tier, seed):
    from ..pyvc.driver import verify
    from ..contracts import curvesv
    ts = [(task_frames, ()), (task_copies, ()), (task_find_roots_length, ()), (task_float_operands, ()), (task_array_points, ()), (task_weight_double_root, ())]
    ts += curvesv.tasks_for({q for _c, _m, q, _v in curvesv.ALL if q not in ("Curve.eval", "norm")})
    from ..contracts import facade2
    # "KnotVector arithmetic returns deep copies": every non-in-place operator, copy and deepcopy return a new object and leave the operand alone (all vectors)
    ts += [(verify, (c, m, q, v)) for c, m, q, v in facade2.ALL]
    depth = 2 if tier == "quick" else 3
    nch = 4 if tier == "quick" else 16
    for start in STARTS:
        if start == "p2red" and tier == "quick":
            for c in range(2):
                ts.append((task_histories, (start, 2, c, 2)))
            continue
        if start == "p3once" and tier == "quick":
            for c in range(2):
                ts.append((task_histories, (start, 2, c, 2)))
            continue
        if start in ("p2rat", "p2zero") and tier == "quick":
            ts.append((task_histories, (start, 1, 0, 1)))
            continue
        for c in range(nch):
            ts.append((task_histories, (start, depth if start not in ("p2rat", "p2zero") else 2, c, nch)))
    return ts


def replay(o):
    w = o["witness"]
    if w["kind"] == "c15.doubleroot":
        r = [x for x in task_weight_double_root() if "id" in x and x["id"].endswith("[%s]" % w["label"])][0]
        return r["status"] == FAILED, "refused, or the curve evaluates on its whole interval", r["detail"]
    if w["kind"] == "c15.arrays":
        r = [x for x in task_array_points() if "id" in x and x["id"].endswith("[%s,%s]" % (w["points"], w["op"]))][0]
        return r["status"] == FAILED, "caller's array, sibling curve and values unchanged", r["detail"]
    if w["kind"] == "c15.float":
        r = [x for x in task_float_operands() if "id" in x and ("[%s]" % w["label"]) in x["id"]][0]
        return r["status"] == FAILED, "operands unchanged", r["detail"]
    if w["kind"] != "c15.history":
        return False, "", "not replayed"
    ops = {n: (f, m) for n, f, m in ops_table()}
    U, P, W = STARTS[w["start"]]
    shared = KV(list(U))
    c = Curve(shared, None if P is None else list(P), None if W is None else list(W))
    partner = Curve(shared, None if P is None else list(P), None if W is None else list(W))
    pstate = state(partner)
    log = []
    for name in w["ops"]:
        f, mutating = ops[name]
        before = state(c)
        try:
            f(c)
            raised = None
        except Exception as e:
            raised = type(e).__name__
        log.append((name, raised, inv(c)))
        if (raised and state(c) != before) or (not mutating and state(c) != before) or inv(c) or state(partner) != pstate:
            return True, "consistent curve; unchanged after a raising or non-mutating operation; partner unaffected", \
                dict(steps=log, state=state(c), before=before, partner_changed=state(partner) != pstate)
    return False, "invariant", log


INFO = dict(
    assumptions=A.S_COMMON + [A.A11, A.A12], trusted_base=A.TRUSTED, min_obligations=15, level="other",
    explanation="C15: frame analysis over the package AST (unbounded): the three private fields are assigned only by __init__, update and the two setters; no back door "
                "(mangled names, __dict__, setattr); update() rebinds after the error test; no in-place KnotVector mutator is ever applied to a .knotvector attribute in "
                "curve-level code, and KnotVector operators work on deep copies - so curves sharing a KnotVector object cannot affect each other. Dynamic part "
                "(bounded): all sequences of public operations up to the depth bound from four start curves, checking consistency, atomicity, operand integrity "
                "and the partner curve built from the same KnotVector object. Every S run of C04-C14 additionally checks consistency and unchanged operands on all "
                "symbolically reachable paths.",
    functions=["curves.BaseCurve.__init__/update/apply/knotvector/ctrlpoints/weights/__copy__/__deepcopy__", "curves.Curve (all public methods)",
               "knotspace.KnotVector operators", "calculus.Derivate", "calculus.Integrate"],
)


def info(tier, seed, obs):
    return dict(bounds="tier %s: all sequences of %d of %d public operations from 3 polynomial start curves (rational start: depth %d)" % (
        tier, 2 if tier == "quick" else 3, len(ops_table()), 1 if tier == "quick" else 2))
