"""C13 — curve equality means equality as functions, independent of representation."""
from __future__ import annotations

from fractions import Fraction

import numpy as np
import z3

from .. import assume as A
from .. import spec
from ..report import FAILED, PROVED, ob
from ..env import curves, heavy
from ..symx import con
from ..symx import harness as H
from ..symx.sym import Sym
from .c04 import same_state, snapshot
from .c05 import weights_for
from .c11 import GRID, vec
from .fitcommon import apply_T

PROP = "C13"
F = Fraction
TOL = F(1e-9)     # the built-in tolerance, as the double the code compares with


def pairs(tier):
    out = [
        (1, (0, 0, 0), 1, (0, 0, 0)), (1, (1, 0, 0), 1, (0, 0, 0)), (2, (0, 1, 0), 2, (0, 1, 0)), (2, (1, 0, 0), 2, (0, 0, 1)),
        (1, (0, 1, 0), 2, (0, 0, 0)), (2, (0, 2, 0), 1, (0, 1, 0)), (0, (0, 1, 0), 0, (0, 0, 0)), (2, (0, 0, 0), 3, (0, 0, 0)),
        (0, (0, 1, 0), 1, (1, 0, 0)),
        # same degree, same distinct knots, different multiplicities (one operand is the other with a knot inserted again)
        (2, (0, 1, 0), 2, (0, 2, 0)), (1, (2, 0, 0), 1, (1, 0, 0)), (3, (0, 2, 0), 3, (0, 3, 0)),
        # same degree, same distinct knots, same NUMBER of control points: the multiplicities are traded between two interior knots
        (2, (2, 1, 0), 2, (1, 2, 0)), (1, (2, 1, 0), 1, (1, 2, 0)),       # (degree 3: concrete histories in task_concrete)
    ]
    if tier != "quick":
        out += [(3, (1, 0, 0), 3, (0, 1, 0)), (2, (1, 1, 0), 2, (0, 1, 1)), (3, (0, 2, 0), 2, (0, 1, 0)), (1, (1, 1, 1), 1, (0, 1, 0)),
                (2, (3, 0, 0), 2, (1, 0, 0))]
    return out


def ptag(pr, variant, extra=""):
    return "A=p%d/%s,B=p%d/%s,kv=%d%s" % (pr[0], "".join(map(str, pr[1])), pr[2], "".join(map(str, pr[3])), variant, extra)


def union_vector(U, p, V, q):
    P = max(p, q)
    out = []
    for x in sorted(set(U) | set(V)):
        mu, mv = spec.mult_of(U, x), spec.mult_of(V, x)
        need = max(mu + P - p if mu else 0, mv + P - q if mv else 0)
        out += [x] * need
    return out, P


def z3_lin(ctx, sym):
    return ctx.elem_z3(sym.e) if isinstance(sym, Sym) else z3.RealVal(str(F(sym)))


def task_eq(pr, variant):
    pa, ca, pb, cb = pr
    U, V = vec(pa, ca, variant), vec(pb, cb, variant)
    na, nb = len(U) - pa - 1, len(V) - pb - 1
    Wv, P = union_vector(U, pa, V, pb)
    TA = spec.refine_matrix(U, pa, Wv, P)
    TB = spec.refine_matrix(V, pb, Wv, P)
    fn = "curves.BaseCurve.__eq__"
    out = []
    mon = con.Monitor().install(heavy)
    wb = dict(kind="c13", pr=pr, variant=variant)
    try:
        an, bn = ["A%d" % i for i in range(na)], ["B%d" % i for i in range(nb)]
        # ---- generic operands: the verdict on every path is the spec verdict ----
        ctx = con.con_ctx(an + bn)
        verdicts = set()

        def body(chk, ctx=ctx):
            PA, PB = [ctx.sym(x) for x in an], [ctx.sym(x) for x in bn]
            A_ = chk.call(curves.Curve, list(U), PA)
            B_ = chk.call(curves.Curve, list(V), PB)
            sa, sb = snapshot(A_), snapshot(B_)
            v = chk.call(lambda: A_ == B_)
            ok_type = isinstance(v, (bool, np.bool_))
            chk.add("returns-bool", ok_type, "== returns a bool")
            if not ok_type:
                return
            verdicts.add(bool(v))
            ra, rb = apply_T(TA, PA), apply_T(TB, PB)
            tol = z3.RealVal(str(TOL))
            close = z3.And(*[z3.And(z3_lin(ctx, a) - z3_lin(ctx, b) <= tol, z3_lin(ctx, b) - z3_lin(ctx, a) <= tol) for a, b in zip(ra, rb)])
            bad = close if not v else z3.Not(close)       # path says v, spec says the opposite
            r = ctx._sat(bad)
            pt = ctx.sample_point(extra=bad) if r != z3.unsat else None
            chk.add("post-iff", r == z3.unsat,
                    "on this path the verdict is %s; path condition ==> (max_i |A'_i - B'_i| <= 1e-9) is %s, A', B' the spec-refined control points on the "
                    "spec union vector (%d pairs)" % (v, v, len(ra)), backend="z3-linear", pt=pt, extra={"verdict": bool(v)})
            ne = chk.call(lambda: A_ != B_)
            chk.add("ne-is-negation", bool(ne) == (not bool(v)), "A != B is not (A == B) on this path")
            chk.add("operands-unchanged", same_state(sa, snapshot(A_)) and same_state(sb, snapshot(B_)), "neither operand is modified")

        out += H.run_paths(ctx, fn, "S-con", ptag(pr, variant, ",generic"), dict(wb, scenario="generic"), body, max_paths=400)

        # ---- B is a spec-refined / spec-elevated copy of A (on the union vector): equal in both operand orders ----
        ctx = con.con_ctx(an)

        def body_copy(chk, ctx=ctx):
            PA = [ctx.sym(x) for x in an]
            A_ = chk.call(curves.Curve, list(U), PA)
            C_ = chk.call(curves.Curve, list(Wv), apply_T(TA, PA))
            for label, f in (("A==refined", lambda: A_ == C_), ("refined==A", lambda: C_ == A_), ("A==A", lambda: A_ == A_)):
                v = chk.call(f)
                chk.add("copy:" + label, bool(v) is True, "a refined / elevated description of the same function compares equal (%s gave %s)" % (label, v),
                        pt={"A%d" % i: F(i + 1) for i in range(na)}, extra={"label": label})
            v = chk.call(lambda: A_ != C_)
            chk.add("copy:A!=refined", bool(v) is False, "!= is False for equal functions")
            # a perturbed copy differs
            pert = apply_T(TA, PA)
            pert[len(pert) // 2] = pert[len(pert) // 2] + F(1, 1000)
            D_ = chk.call(curves.Curve, list(Wv), pert)
            for label, f in (("A==perturbed", lambda: A_ == D_), ("perturbed==A", lambda: D_ == A_)):
                v = chk.call(f)
                chk.add("perturbed:" + label, bool(v) is False, "a copy with one control point moved by 1e-3 compares unequal (%s gave %s)" % (label, v),
                        pt={"A%d" % i: F(i + 1) for i in range(na)}, extra={"label": label})
            for other in (3, "curve", None, (1, 2)):
                v = chk.call(lambda: A_ == other)
                chk.add("non-curve", v is False or v is np.False_, "comparison with %r gives False" % (other,))

        out += H.run_paths(ctx, fn, "S-con", ptag(pr, variant, ",copies"), dict(wb, scenario="copies"), body_copy)
    finally:
        mon.uninstall()
    out += mon.obligations(ptag(pr, variant))
    return out


task_eq.contract_fn = "curves.BaseCurve.__eq__"


def task_misc(variant):
    """Different intervals, rational vs polynomial descriptions."""
    fn = "curves.BaseCurve.__eq__"
    a, mids, b = GRID[variant]
    out = []
    ctx = con.con_ctx(["A0", "A1", "A2"])

    def body(chk):
        PA = [ctx.sym(x) for x in ("A0", "A1", "A2")]
        A_ = chk.call(curves.Curve, [a, a, mids[0], b, b], PA)
        B_ = chk.call(curves.Curve, [a, a, mids[0], b + 1, b + 1], PA)
        chk.add("different-interval", chk.call(lambda: A_ == B_) is False, "curves on different intervals are unequal")
        E_ = chk.call(curves.Curve, [a, a, mids[0], b, b])
        chk.add("no-points-vs-points", chk.call(lambda: A_ == E_) is False, "a curve without control points differs from one with")

    out += H.run_paths(ctx, fn, "S-con", "kv=%d,misc" % variant, dict(kind="c13", scenario="misc", variant=variant, task=("c13", "task_misc", [variant])), body)

    ctx = con.con_ctx(["A0", "A1", "A2"])

    def body_rat(chk):
        PA = [ctx.sym(x) for x in ("A0", "A1", "A2")]
        U = [a, a, a, b, b, b]
        A_ = chk.call(curves.Curve, U, PA)
        R1 = chk.call(curves.Curve, U, PA, [F(2), F(2), F(2)])       # constant weights: the same function
        R2 = chk.call(curves.Curve, U, PA, [F(1), F(3), F(1)])       # different function (unless all points equal)
        for label, f, want in (("poly==rational-const-weights", lambda: A_ == R1, True), ("rational-const-weights==poly", lambda: R1 == A_, True)):
            try:
                v = chk.call(f)
                chk.add("rational:" + label, bool(v) is want, "%s gave %s, expected %s" % (label, v, want), tags={"rational": True})
            except Exception as e:
                chk.add("rational:" + label, False, "%s raised %s: %s" % (label, type(e).__name__, str(e)[:80]), tags={"rational": True})

    out += H.run_paths(ctx, fn, "S-con", "kv=%d,rat" % variant, dict(kind="c13", scenario="rational", variant=variant, rational=True), body_rat)
    return out


task_misc.contract_fn = "curves.BaseCurve.__eq__"


# --------------------------------------------------------------------------------------
# engine B: verdicts do not depend on earlier comparisons in the process; vector-valued (numpy) control points
# --------------------------------------------------------------------------------------
def _refined(U, p, P, Wv, q):
    T = spec.refine_matrix(U, p, Wv, q)
    return [sum((T[i][j] * P[j] for j in range(len(P))), 0 * P[0]) for i in range(len(T))]


def task_concrete():
    fn = "curves.BaseCurve.__eq__"
    out = []
    # (1) histories: A and B live on vectors with the same degree / distinct knots / npts and traded multiplicities; D, E are their refinements on the common
    #     refinement W.  Every order of the comparisons gives: A == D, B == E, A != E, B != D (generic points) - each order on its own translate
    import itertools
    p = 3
    ks = [F(-2), F(-1, 2), F(3), F(5)]
    pats = [(2, 1), (1, 2)]
    checks = [("A==D", 0, 0, True), ("B==E", 1, 1, True), ("B==D", 1, 0, False), ("A==E", 0, 1, False), ("D==A", 0, 0, True), ("E==A", 1, 0, False)]
    bad, cases = [], 0
    for order in list(itertools.permutations(range(4)))[:12]:
        sh = 13 * cases
        vecs = []
        for m in pats:
            U = [ks[0] + sh] * (p + 1)
            for x, mm in zip(ks[1:-1], m):
                U += [x + sh] * mm
            vecs.append(U + [ks[-1] + sh] * (p + 1))
        Wv, q = union_vector(vecs[0], p, vecs[1], p)
        pts = [[F((-1) ** i * (i + 2), i + 1) for i in range(len(vecs[0]) - p - 1)], [F(i * i - 3, 2) for i in range(len(vecs[1]) - p - 1)]]
        crv = [curves.Curve(list(vecs[k]), list(pts[k])) for k in (0, 1)]
        ref = [curves.Curve(list(Wv), _refined(vecs[k], p, pts[k], Wv, q)) for k in (0, 1)]
        for idx in order:
            label, a, b, want = checks[idx]
            left, right = (ref[a], crv[b]) if label[0] in "DE" else (crv[a], ref[b])
            if label in ("D==A",):
                left, right = ref[0], crv[0]
            if label in ("E==A",):
                left, right = ref[1], crv[0]
            try:
                got = bool(left == right)
            except Exception as e:
                got = type(e).__name__
            if got != want:
                bad.append(("order %s" % [checks[i][0] for i in order], "%s gave %s, expected %s" % (label, got, want)))
                break
        cases += 1
    out.append(ob("%s:history-independent[traded-multiplicities,p=3]" % fn, fn, FAILED if bad else PROVED, "B", "concrete", 0.0,
                  ("%d of %d orders give a wrong verdict; first: %s: %s" % (len(bad), cases, bad[0][0], bad[0][1])) if bad else
                  "%d orders of four comparisons (a curve against refinements of itself and of a curve with traded multiplicities): verdicts as for fresh histories" % cases,
                  dict(kind="c13.concrete", which="history") if bad else None))
    # (2) vector-valued control points held as numpy arrays: a copy with ONE coordinate of one point lowered / raised is unequal in both operand orders,
    #     in the same and in a refined representation
    U = [F(1)] * 5 + [F(2), F(7, 2), F(4)] + [F(6)] * 5
    pq = 4
    n = len(U) - pq - 1
    P = [np.array([F(i + 1), F((-1) ** i * i, 2), F(i * i, 3)], dtype=object) for i in range(n)]
    Wv = sorted(U + [F(3), F(5)])
    bad2 = []
    for delta in (F(-1, 100), F(1, 100)):
        for coord in (0, 2):
            Q = [np.array(x, dtype=object) for x in P]
            Q[n // 2][coord] += delta
            A_, B_ = curves.Curve(list(U), P), curves.Curve(list(U), Q)
            Br = curves.Curve(list(Wv), _refined(U, pq, Q, Wv, pq))
            Ar = curves.Curve(list(Wv), _refined(U, pq, P, Wv, pq))
            for label, f, want in (("A==B", lambda: A_ == B_, False), ("B==A", lambda: B_ == A_, False), ("B!=A", lambda: B_ != A_, True), ("Br==A", lambda: Br == A_, False),
                                   ("A==Br", lambda: A_ == Br, False), ("A==Ar", lambda: A_ == Ar, True), ("Ar==A", lambda: Ar == A_, True)):
                try:
                    got = bool(f())
                except Exception as e:
                    got = type(e).__name__
                if got != want:
                    bad2.append("delta=%s coord=%d: %s gave %s, expected %s" % (delta, coord, label, got, want))
    out.append(ob("%s:vector-points-asymmetric-perturbation[p=4]" % fn, fn, FAILED if bad2 else PROVED, "B", "concrete", 0.0,
                  ("%d verdicts wrong; first: %s" % (len(bad2), bad2[0])) if bad2 else "28 verdicts on 3-D numpy control points (one coordinate moved by +-1e-2): both operand orders agree with the functions",
                  dict(kind="c13.concrete", which="vector") if bad2 else None))
    return out + [{"_stats": dict(cases=cases + 28)}]


task_concrete.contract_fn = "curves.BaseCurve.__eq__"


def _homogeneous_refined(U, p, P, W, V, q):
    """The control points and weights of the rational curve (U, P, W) on the refined knot vector V (degree q >= p): refine w_i P_i and w_i."""
    num = _refined(U, p, [w * x for w, x in zip(W, P)], V, q)
    den = _refined(U, p, list(W), V, q)
    return [a / b for a, b in zip(num, den)], den


def task_operand_kinds():
    """Operand kinds the symbolic tasks do not feed: rational operands (different weights on the same data; a refined / elevated copy built by hand in homogeneous
    coordinates; a rational and a polynomial description of the same function), curves without control points, control points of different shapes."""
    fn = "curves.BaseCurve.__eq__"
    out = []
    U = [F(0)] * 3 + [F(1, 2)] + [F(1)] * 3
    P = [F(0), F(1), F(-1), F(2)]
    W1, W2 = [F(1), F(2), F(1), F(3)], [F(1), F(3), F(1), F(3)]
    V = sorted(U + [F(1, 4), F(1, 2)])
    Pr, Wr = _homogeneous_refined(U, 2, P, W1, V, 2)
    Ve = spec.elevate_vector(U, 2, 1)
    Pe, We = _homogeneous_refined(U, 2, P, W1, Ve, 3)
    # a degree-1 rational curve against its own degree-3 description (elevated twice: the interior knot becomes a triple knot, two more than the lower degree)
    U1, P1, Wl = [F(0), F(0), F(1, 2), F(1), F(1)], [F(1), F(-2), F(3)], [F(1), F(2), F(3)]
    V3 = spec.elevate_vector(U1, 1, 2)
    P3, W3 = _homogeneous_refined(U1, 1, P1, Wl, V3, 3)
    mk = curves.Curve
    lin = lambda: mk([F(0), F(0), F(1), F(1)], [F(0), F(1)])                                     # f(u) = u
    linrat = lambda: mk([F(0)] * 3 + [F(1)] * 3, [F(0), F(1, 3), F(1)], [F(1), F(3, 2), F(2)])   # the same function as a rational quadratic (W(u) = 1 + u)
    linrat2 = lambda: mk([F(0)] * 3 + [F(1)] * 3, [F(0), F(1, 2), F(1)], [F(1), F(3, 2), F(2)])  # another function
    cases = [
        ("same-data-other-weights", lambda: mk(list(U), list(P), list(W1)), lambda: mk(list(U), list(P), list(W2)), False),
        ("rational-vs-no-weights", lambda: mk(list(U), list(P), list(W1)), lambda: mk(list(U), list(P)), False),
        ("rational-vs-itself", lambda: mk(list(U), list(P), list(W1)), lambda: mk(list(U), list(P), list(W1)), True),
        ("rational-vs-scaled-weights", lambda: mk(list(U), list(P), list(W1)), lambda: mk(list(U), list(P), [3 * w for w in W1]), True),
        ("rational-vs-knot-refined-copy", lambda: mk(list(U), list(P), list(W1)), lambda: mk(list(V), list(Pr), list(Wr)), True),
        ("rational-vs-elevated-copy", lambda: mk(list(U), list(P), list(W1)), lambda: mk(list(Ve), list(Pe), list(We)), True),
        ("rational-vs-perturbed-refined-copy", lambda: mk(list(U), list(P), list(W1)), lambda: mk(list(V), [Pr[0], Pr[1] + F(1, 1000)] + list(Pr[2:]), list(Wr)), False),
        ("rational-p1-vs-its-p3-description", lambda: mk(list(U1), list(P1), list(Wl)), lambda: mk(list(V3), list(P3), list(W3)), True),
        ("rational-p1-vs-perturbed-p3-description", lambda: mk(list(U1), list(P1), list(Wl)), lambda: mk(list(V3), [P3[0], P3[1] + F(1, 100)] + list(P3[2:]), list(W3)), False),
        ("polynomial-vs-rational-description", lin, linrat, True),
        ("polynomial-vs-other-rational", lin, linrat2, False),
        ("no-points-same-vector", lambda: mk(list(U)), lambda: mk(list(U)), True),
        ("no-points-other-vector", lambda: mk(list(U)), lambda: mk(list(V)), False),
        ("no-points-vs-points", lambda: mk(list(U)), lambda: mk(list(U), list(P)), False),
        ("scalar-vs-plane-points", lambda: mk([F(0), F(0), F(1), F(1)], [F(1), F(2)]),
         lambda: mk([F(0), F(0), F(1), F(1)], [np.array([F(1), F(1)], dtype=object), np.array([F(2), F(2)], dtype=object)]), False),
        ("plane-vs-space-points", lambda: mk([F(0), F(0), F(1), F(1)], [np.array([F(1), F(1)], dtype=object), np.array([F(2), F(2)], dtype=object)]),
         lambda: mk([F(0), F(0), F(1), F(1)], [np.array([F(1), F(1), F(0)], dtype=object), np.array([F(2), F(2), F(0)], dtype=object)]), False),
    ]
    for name, fa, fb, want in cases:
        bad = None
        try:
            A_, B_ = fa(), fb()
            sa, sb = (tuple(A_.knotvector), repr(A_.ctrlpoints), A_.weights), (tuple(B_.knotvector), repr(B_.ctrlpoints), B_.weights)
            got = {"A==B": bool(A_ == B_), "B==A": bool(B_ == A_), "A!=B": bool(A_ != B_), "B!=A": bool(B_ != A_), "A==A": bool(A_ == A_), "B==B": bool(B_ == B_)}
            exp = {"A==B": want, "B==A": want, "A!=B": not want, "B!=A": not want, "A==A": True, "B==B": True}
            wrong = {k: v for k, v in got.items() if v != exp[k]}
            if wrong:
                bad = "verdicts %s, expected %s" % (wrong, {k: exp[k] for k in wrong})
            elif (tuple(A_.knotvector), repr(A_.ctrlpoints), A_.weights) != sa or (tuple(B_.knotvector), repr(B_.ctrlpoints), B_.weights) != sb:
                bad = "an operand was modified"
        except Exception as e:
            bad = "%s: %s" % (type(e).__name__, str(e)[:100])
        out.append(ob("%s:operand-kinds[%s]" % (fn, name), fn, FAILED if bad else PROVED, "B", "concrete", 0.0,
                      bad or "==, != in both orders, reflexivity; operands untouched", dict(kind="c13.kinds", case=name) if bad else None))
    return out + [{"_stats": dict(cases=len(out))}]


task_operand_kinds.contract_fn = "curves.BaseCurve.__eq__"


def tasks(tier, seed):
    from ..pyvc.driver import verify
    from ..contracts import curvesv
    # the norm under the tolerance test of __eq__: abs of a number, max |x_k| (attained, an upper bound) of a sequence of any length
    ts = curvesv.tasks_for(("norm",))
    for pr in pairs(tier):
        for variant in ((0, 1) if tier == "quick" else (0, 1, 2)):
            ts.append((task_eq, (pr, variant)))
    for variant in (0, 1):
        ts.append((task_misc, (variant,)))
    ts.append((task_concrete, ()))
    ts.append((task_operand_kinds, ()))
    return ts


def replay(o):
    w = o["witness"]
    if w.get("kind") == "c13.kinds":
        r = [x for x in task_operand_kinds() if "id" in x and x["id"].endswith("[%s]" % w["case"])][0]
        return r["status"] == FAILED, "==, != in both orders agree with the functions; no exception; operands untouched", r["detail"]
    if w.get("kind") == "c13.concrete":
        r = [x for x in task_concrete() if "id" in x and (("history" in x["id"]) == (w["which"] == "history"))][0]
        return r["status"] == FAILED, "verdicts of == / != agree with the functions in every order", r["detail"]
    sc = w["scenario"]
    if sc in ("misc", "rational"):
        a, mids, b = GRID[w["variant"]]
        if sc == "rational":
            U = [a, a, a, b, b, b]
            P = [F(1), F(2), F(4)]
            A_ = curves.Curve(U, P)
            R1 = curves.Curve(U, P, [F(2), F(2), F(2)])
            try:
                v1, v2 = (A_ == R1), (R1 == A_)
            except Exception as e:
                return True, "True, True", "%s: %s" % (type(e).__name__, str(e)[:100])
            return not (v1 and v2), "True, True", (v1, v2)
        if w.get("task"):
            return H.generic_replay(o)
        return False, "", "not replayed"
    pr = (w["pr"][0], tuple(w["pr"][1]), w["pr"][2], tuple(w["pr"][3]))
    variant = w["variant"]
    pa, ca, pb, cb = pr
    U, V = vec(pa, ca, variant), vec(pb, cb, variant)
    na, nb = len(U) - pa - 1, len(V) - pb - 1
    Wv, P = union_vector(U, pa, V, pb)
    TA = spec.refine_matrix(U, pa, Wv, P)
    TB = spec.refine_matrix(V, pb, Wv, P)
    pt = {k: F(v) for k, v in (w.get("point") or {}).items()}
    PA = [pt.get("A%d" % i, F(i + 1)) for i in range(na)]
    if sc == "copies":
        A_ = curves.Curve(list(U), PA)
        C_ = curves.Curve(list(Wv), apply_T(TA, PA))
        pert = apply_T(TA, PA)
        pert[len(pert) // 2] += F(1, 1000)
        D_ = curves.Curve(list(Wv), pert)
        try:
            got = {"A==refined": A_ == C_, "refined==A": C_ == A_, "A==A": A_ == A_, "A==perturbed": A_ == D_, "perturbed==A": D_ == A_}
        except Exception as e:
            return True, "verdicts", "%s: %s" % (type(e).__name__, str(e)[:100])
        exp = {"A==refined": True, "refined==A": True, "A==A": True, "A==perturbed": False, "perturbed==A": False}
        return any(bool(got[k]) != exp[k] for k in exp), dict(A=(U, PA), refined=(Wv, apply_T(TA, PA)), expected=exp), {k: bool(v) for k, v in got.items()}
    PB = [pt.get("B%d" % i, F(i + 1)) for i in range(nb)]
    A_ = curves.Curve(list(U), PA)
    B_ = curves.Curve(list(V), PB)
    try:
        v = A_ == B_
    except Exception as e:
        return True, "a verdict", "%s: %s" % (type(e).__name__, str(e)[:100])
    ra, rb = apply_T(TA, PA), apply_T(TB, PB)
    want = all(abs(x - y) <= TOL for x, y in zip(ra, rb))
    return bool(v) != want, dict(A=(U, PA), B=(V, PB), refined_A=ra, refined_B=rb, expected=want), bool(v)


INFO = dict(
    assumptions=A.S_COMMON + [A.A4], trusted_base=A.TRUSTED, min_obligations=100, level="other",
    explanation="C13: BaseCurve.__eq__/__ne__ with symbolic control points of both operands on concrete knot-vector pairs: on every explored path the "
                "verdict is implied to equal 'max_i |A'_i - B'_i| <= 1e-9' over the spec-refined control points on the spec union vector (z3, linear real "
                "arithmetic); refined / elevated copies equal in both operand orders, perturbed copies unequal, != the negation, non-curves False, "
                "operands unmodified. Rational vs polynomial descriptions: known finding D9.",
    functions=["curves.BaseCurve.__eq__", "curves.BaseCurve.__ne__", "curves.BaseCurve.update", "curves.Curve.fit_curve", "curves.norm",
               "knotspace.KnotVector.__or__", "heavy.ImmutableKnotVector.__or__"],
)


def info(tier, seed, obs):
    return dict(bounds="tier %s: %d knot-vector pairs (degrees 0..3, equal and different degrees, shared / distinct interior knots) x %d knot-value grids; "
                "scalar control points" % (tier, len(pairs(tier)), 2 if tier == "quick" else 3))
