"""C12 — fit_points / fit_function solve the discrete least-squares problem exactly."""
from __future__ import annotations

from fractions import Fraction

import numpy as np

from .. import assume as A
from .. import spec
from ..env import curves, heavy
from ..symx import con
from ..symx import harness as H
from ..symx.sym import Sym
from .c05 import weights_for
from .c11 import GRID, vec, mat_eq
from .fitcommon import lin_rows

PROP = "C12"
F = Fraction


def shapes(tier):
    out = [(0, (0, 0, 0)), (0, (0, 1, 0)), (1, (0, 0, 0)), (1, (0, 1, 0)), (2, (1, 0, 0)), (2, (0, 2, 0)), (3, (0, 0, 0)), (2, (0, 3, 0)), (3, (1, 0, 1)), (1, (1, 1, 1)),
           (4, (5, 1, 1))]       # a full-multiplicity knot isolating the first span + simple knots: few control points per span elsewhere (default nodes per span)
    if tier != "quick":
        out += [(3, (0, 2, 0)), (4, (0, 0, 0)), (4, (0, 1, 0)), (2, (1, 2, 1)), (3, (0, 4, 0))]
    return out


def greville_like(U, p, n):
    """n unisolvent nodes: Greville abscissae nudged inside the support (exact rationals)."""
    a, b = U[0], U[-1]
    if p == 0:
        ks = spec.knots_of(U)
        return [(x + y) / 2 for x, y in zip(ks[:-1], ks[1:])]
    g = [sum(U[i + 1:i + p + 1], F(0)) / p for i in range(n)]
    out = []
    for i, x in enumerate(g):
        lo, hi = U[i], U[i + p + 1]
        x = min(max(x, lo + (hi - lo) * F(1, 50)), hi - (hi - lo) * F(1, 50)) if 0 < i < n - 1 else x
        out.append(x)
    # strictly increasing (repeated Greville points appear at discontinuities)
    for i in range(1, n):
        if out[i] <= out[i - 1]:
            out[i] = out[i - 1] + (U[i + p + 1] - out[i - 1]) * F(1, 40)
    return out


def identity(n):
    return [[F(int(i == j)) for j in range(n)] for i in range(n)]


def task_fit(p, cells, variant, rational):
    U = vec(p, cells, variant)
    n = len(U) - p - 1
    W = weights_for(n) if rational else None
    fn = "curves.Curve.fit_points"
    out = []
    mon = con.Monitor().install(heavy)
    tag0 = "p=%d/%s,kv=%d,%s" % (p, "".join(map(str, cells)), variant, "rat" if rational else "pol")
    wb = dict(kind="c12", p=p, cells=cells, variant=variant, rational=rational)
    try:
        a, b = U[0], U[-1]
        g = greville_like(U, p, n)
        shuf = [g[(3 * i + 1) % n] for i in range(n)] if n % 3 else [g[(2 * i + 1) % n] if n % 2 else g[n - 1 - i] for i in range(n)]
        if sorted(shuf) != sorted(g):
            shuf = g[1:] + g[:1]
        # the order in which (node, point) pairs are listed is irrelevant: decreasing and shuffled node lists (zero pivots in the exact solver)
        nodesets = {"default-n+3": None, "interp": g, "interp-decreasing": g[::-1], "interp-shuffled": shuf, "over": spec.sample_params(U, p, p + 2),
                    "over-decreasing": spec.sample_params(U, p, p + 2)[::-1], "default-n": None}
        for label, nodes in nodesets.items():
            m = len(nodes) if nodes is not None else (n if label == "default-n" else n + 3)
            if nodes is None:
                if m < 2:
                    continue
                nodes_eff = [a + (b - a) * F(i, m - 1) for i in range(m)]        # closed_linspace for exact knots
            else:
                nodes_eff = nodes
            # precondition of the contract: the node set is admissible (B^T B non-singular); decided on the spec
            Bs = spec.collocation(U, p, nodes_eff, W)
            Bst = spec.transpose(Bs)
            if spec.null_space(spec.matmul(Bst, Bs), n):
                continue
            zn = ["Z%d" % i for i in range(m)]
            ctx = con.con_ctx(zn)

            def body(chk, ctx=ctx, nodes=nodes, nodes_eff=nodes_eff, m=m, label=label):
                Z = [ctx.sym(x) for x in zn]
                # history: an earlier fit on the same knot vector and nodes with OTHER weights must not influence this one
                warm = chk.call(curves.Curve, list(U), None, None if W is not None else weights_for(n))
                chk.call(warm.fit_points, [F(i) for i in range(m)], *([] if nodes is None else [list(nodes)]))
                C = chk.call(curves.Curve, list(U), None, W)
                if nodes is None:
                    chk.call(C.fit_points, Z)
                else:
                    chk.call(C.fit_points, Z, list(nodes))
                okc = C.ctrlpoints is not None and len(C.ctrlpoints) == n and (C.weights is None) == (W is None)
                chk.add("consistent", okc, "npts control points after fitting; weights untouched")
                if not okc:
                    return
                M = lin_rows(C.ctrlpoints, zn)            # n x m
                B = spec.collocation(U, p, nodes_eff, W)  # m x n  (rational basis if weights)
                Bt = spec.transpose(B)
                BM = spec.matmul(B, M)
                resid = [[BM[i][j] - (1 if i == j else 0) for j in range(m)] for i in range(m)]
                chk.add("normal-equations", all(x == 0 for r in spec.matmul(Bt, resid) for x in r),
                        "B^T (B Q - Z) == 0 for every data vector: the residual is orthogonal to every column of the collocation matrix (exact)",
                        backend="exact-Q", pt={"Z%d" % i: F(i * i - 2) for i in range(m)})
                chk.add("reproduces", mat_eq(spec.matmul(M, B), identity(n)), "samples of a curve of the same space give that curve back (M B == I, exact)",
                        backend="exact-Q", pt={"Z%d" % i: F(i * i - 2) for i in range(m)})
                if m == n:
                    chk.add("interpolates", mat_eq(BM, identity(m)), "len(points) == npts: the curve passes through every point (B M == I)", backend="exact-Q",
                            pt={"Z%d" % i: F(i * i - 2) for i in range(m)})
                chk.exact("exact", C.ctrlpoints)

            out += H.run_paths(ctx, fn, "S-con", tag0 + ",nodes=" + label, dict(wb, nodes=[str(x) for x in nodes_eff], given=nodes is not None, label=label), body)

        # fewer points than control points
        if n >= 2:
            ctx = con.con_ctx(["Z%d" % i for i in range(n - 1)])

            def body_few(chk, ctx=ctx):
                C = chk.call(curves.Curve, list(U), None, W)
                try:
                    chk.call(C.fit_points, [ctx.sym("Z%d" % i) for i in range(n - 1)])
                    chk.add("too-few-rejected", False, "fewer points than control points accepted")
                except (AssertionError, ValueError):
                    chk.add("too-few-rejected", C.ctrlpoints is None, "rejected, curve unchanged")

            out += H.run_paths(ctx, fn, "S-con", tag0 + ",too-few", dict(wb, label="too-few"), body_few)

        # fit_function reproduces a function of the curve's own space
        qn = ["Q%d" % i for i in range(n)]
        ctx = con.con_ctx(qn)

        def body_fun(chk, ctx=ctx):
            Q0 = [ctx.sym(x) for x in qn]
            f = lambda u: spec.curve_value(list(U), p, Q0, u, W)
            C = chk.call(curves.Curve, list(U), None, W)
            chk.call(C.fit_function, f)
            okc = C.ctrlpoints is not None and len(C.ctrlpoints) == n
            chk.add("consistent", okc, "npts control points")
            if okc:
                chk.identities("fit_function-reproduces", [("Q[%d]" % i, a_, b_) for i, (a_, b_) in enumerate(zip(C.ctrlpoints, Q0))])

        out += H.run_paths(ctx, "curves.Curve.fit_function", "S-con", tag0 + ",fit_function", dict(wb, label="fit_function"), body_fun)
    finally:
        mon.uninstall()
    out += mon.obligations(tag0)
    return out


task_fit.contract_fn = "curves.Curve.fit_points"


# --------------------------------------------------------------------------------------
# engine B: the smallest spaces with DEFAULT nodes: len(points) == npts on one-span curves of degree 0, 1, 2 (a single point on Curve([0, 1]) included: D48)
# --------------------------------------------------------------------------------------
def task_smallest_spaces():
    from ..report import FAILED, PROVED, ob
    fn = "curves.Curve.fit_points"
    out = []
    for label, U, pts in (("p0-one-span-Fraction", [F(0), F(1)], [F(5)]), ("p0-one-span-float", [0.0, 1.0], [5.0]), ("p0-two-spans", [F(0), F(1), F(3)], [F(4), F(7)]),
                          ("p1-one-span", [F(0), F(0), F(2), F(2)], [F(1), F(3)]), ("p2-one-span", [F(-1)] * 3 + [F(1)] * 3, [F(1), F(0), F(4)])):
        bad = None
        try:
            c = curves.Curve(list(U))
            c.fit_points(list(pts))
            if len(c.ctrlpoints) != len(pts):
                bad = "%d control points" % len(c.ctrlpoints)
            else:
                # interpolation at the default nodes: equally spaced, both ends included (the middle of the interval for a single point)
                n = len(pts)
                a, b = U[0], U[-1]
                nodes = [a + (b - a) * F(k, n - 1) for k in range(n)] if n > 1 else [(a + b) / 2]
                for z, want in zip(nodes, pts):
                    if abs(F(c(z)) - F(want)) > F(1, 10 ** 12):
                        bad = "the fitted curve is %s at node %s, the point is %s" % (c(z), z, want)
                        break
        except Exception as e:
            bad = "%s: %s" % (type(e).__name__, str(e)[:100])
        out.append(ob("%s:smallest-spaces-default-nodes[%s]" % (fn, label), fn, FAILED if bad else PROVED, "B", "concrete", 0.0,
                      bad or "len(points) == npts: every point is interpolated at the default nodes", dict(kind="c12.small", label=label) if bad else None))
    return out + [{"_stats": dict(cases=len(out))}]


task_smallest_spaces.contract_fn = "curves.Curve.fit_points"


def tasks(tier, seed):
    from ..pyvc.driver import verify
    from ..contracts import curvesv
    # shape level, all curves / point lists / node lists: npts control points on the same knot vector, weights untouched, every refusal atomic
    ts = curvesv.tasks_for(("Curve.fit_points",)) + [(task_smallest_spaces, ())]
    for p, cells in shapes(tier):
        for variant in ((0, 1) if tier == "quick" else (0, 1, 2)):
            ts.append((task_fit, (p, cells, variant, False)))
            if p >= 1 and (variant == 0 or tier != "quick"):
                ts.append((task_fit, (p, cells, variant, True)))
    return ts


def replay(o):
    w = o["witness"]
    if w.get("kind") == "c12.small":
        r = [x for x in task_smallest_spaces() if "id" in x and x["id"].endswith("[%s]" % w["label"])][0]
        return r["status"] == "failed", "every point interpolated at the default nodes", r["detail"]
    p, cells, variant = w["p"], tuple(w["cells"]), w["variant"]
    U = vec(p, cells, variant)
    n = len(U) - p - 1
    W = weights_for(n) if w["rational"] else None
    if w.get("label") == "fit_function":
        Q0 = [F((-1) ** i * (i + 2), i + 1) for i in range(n)]
        C = curves.Curve(list(U), None, W)
        try:
            C.fit_function(lambda u: spec.curve_value(list(U), p, Q0, u, W))
        except Exception as e:
            return True, Q0, "%s: %s" % (type(e).__name__, str(e)[:100])
        return list(C.ctrlpoints) != Q0, dict(U=U, W=W, function="curve with control points", Q0=Q0), C.ctrlpoints
    if w.get("label") == "too-few":
        return False, "rejected", "not replayed"
    nodes = [F(x) for x in w["nodes"]]
    m = len(nodes)
    pt = {k: F(v) for k, v in (w.get("point") or {}).items()}
    Z = [pt.get("Z%d" % i, F(i * i - 2)) for i in range(m)]
    C = curves.Curve(list(U), None, W)
    try:
        C.fit_points(Z, list(nodes)) if w["given"] else C.fit_points(Z)
    except Exception as e:
        return True, "least-squares solution", "%s: %s" % (type(e).__name__, str(e)[:100])
    Q = list(C.ctrlpoints)
    B = spec.collocation(U, p, nodes, W)
    r = [sum(B[k][i] * Q[i] for i in range(n)) - Z[k] for k in range(m)]
    g = [sum(B[k][i] * r[k] for k in range(m)) for i in range(n)]
    return any(x != 0 for x in g) or any(isinstance(x, float) for x in Q), dict(U=U, W=W, nodes=nodes, Z=Z, expected="B^T (B Q - Z) = 0"), dict(Q=Q, gradient=g)


INFO = dict(
    assumptions=A.S_COMMON + [A.A4, A.A11, A.A12], trusted_base=A.TRUSTED, min_obligations=80, level="other",
    explanation="C12: Curve.fit_points / LeastSquare.fit_function / Linalg.lstsq with symbolic data vectors on concrete knot vectors (and concrete weights): the "
                "map Z -> Q is extracted as an exact matrix M and checked against the spec collocation matrix B: B^T(B M - I) == 0, M B == I, B M == I when "
                "len(points) == npts; default and explicit node sets; fewer points rejected; Curve.fit_function reproduces a symbolic element of the space.",
    functions=["curves.Curve.fit_points", "curves.Curve.fit_function", "curves.Curve.fit", "heavy.LeastSquare.fit_function", "heavy.Linalg.lstsq/solve/invert (monitor)",
               "heavy.eval_spline_nodes", "heavy.eval_rational_nodes", "heavy.NodeSample.closed_linspace/open_linspace"],
)


def info(tier, seed, obs):
    return dict(bounds="tier %s: %d shapes x %d knot-value grids; node sets: default (n and n+3 points), unisolvent interpolation set, over-determined set; polynomial and "
                "concrete-weight rational" % (tier, len(shapes(tier)), 2 if tier == "quick" else 3))
