"""C11 — fit_curve is the L2-orthogonal projection (with optional exact interpolation)."""
from __future__ import annotations

from fractions import Fraction

import numpy as np

from .. import assume as A
from .. import spec
from ..env import curves, heavy
from ..symx import con
from ..symx import harness as H
from ..symx.sym import Sym
from .c04 import same_state, snapshot
from .fitcommon import apply_T, lin_rows

PROP = "C11"
F = Fraction

# interval ends and three interior positions per variant (non-uniform on purpose)
GRID = {0: (F(-1, 3), [F(0), F(2, 7), F(1)], F(9, 4)),
        1: (F(-7, 3), [F(-2, 5), F(3, 11), F(13, 7)], F(29, 9)),
        2: (F(0), [F(1, 4), F(1, 2), F(3, 4)], F(1))}


def vec(p, cells, variant):
    """cells: multiplicities at the three interior grid positions (0 = absent)."""
    a, mids, b = GRID[variant]
    U = [a] * (p + 1)
    for g, m in zip(mids, cells):
        U += [g] * m
    return U + [b] * (p + 1)


def pairs(tier):
    """(ps, cells_s, pt, cells_t)"""
    out = [
        (1, (1, 0, 0), 1, (0, 0, 0)), (2, (1, 0, 0), 2, (0, 0, 0)), (2, (0, 1, 0), 1, (0, 1, 0)), (1, (0, 1, 0), 2, (0, 2, 0)),
        (2, (1, 0, 1), 2, (0, 1, 0)), (3, (0, 0, 0), 0, (0, 0, 0)), (0, (1, 0, 0), 3, (0, 0, 0)), (3, (0, 1, 0), 1, (1, 0, 0)),
        (2, (2, 0, 0), 2, (1, 0, 0)), (1, (1, 1, 0), 1, (1, 0, 0)), (2, (0, 0, 0), 2, (0, 1, 0)), (0, (1, 1, 0), 1, (0, 1, 0)),
        (4, (1, 0, 0), 4, (0, 0, 0)), (4, (0, 1, 0), 2, (0, 0, 0)), (5, (0, 0, 0), 4, (0, 0, 0)),       # degree >= 4: the number of quadrature points matters
    ]
    if tier != "quick":
        out += [(3, (1, 0, 1), 2, (0, 1, 0)), (2, (1, 1, 1), 2, (0, 1, 0)), (3, (0, 2, 0), 3, (0, 1, 0)), (1, (0, 0, 0), 3, (1, 1, 0)),
                (3, (1, 0, 0), 3, (1, 0, 0)), (2, (3, 0, 0), 2, (2, 0, 0)), (0, (1, 1, 1), 2, (1, 0, 0)), (3, (0, 0, 0), 1, (0, 0, 0))]
    return out


def ptag(pr, variant, extra=""):
    return "src=p%d/%s,dst=p%d/%s,kv=%d%s" % (pr[0], "".join(map(str, pr[1])), pr[2], "".join(map(str, pr[3])), variant, extra)


def mat_eq(Aa, Bb):
    return len(Aa) == len(Bb) and all(len(x) == len(y) and all(u == v for u, v in zip(x, y)) for x, y in zip(Aa, Bb))


def task_fit(pr, variant):
    ps, cs, pt_, ct = pr
    Us, Ut = vec(ps, cs, variant), vec(pt_, ct, variant)
    ns, nt = len(Us) - ps - 1, len(Ut) - pt_ - 1
    fn = "curves.Curve.fit_curve"
    out = []
    mon = con.Monitor().install(heavy)
    wb = dict(kind="c11", pr=pr, variant=variant)
    try:
        pn = ["P%d" % i for i in range(ns)]
        Gtt = spec.gram(Ut, pt_, Ut, pt_)
        Gts = spec.gram(Ut, pt_, Us, ps)
        Gss = spec.gram(Us, ps, Us, ps)
        # ---- no nodes: orthogonal projection ----
        ctx = con.con_ctx(pn)

        def body(chk, ctx=ctx):
            P = [ctx.sym(x) for x in pn]
            src = chk.call(curves.Curve, list(Us), P)
            dst = chk.call(curves.Curve, list(Ut))
            before = snapshot(src)
            err = chk.call(dst.fit_curve, src)
            chk.add("source-unchanged", same_state(before, snapshot(src)), "the source curve is not modified")
            okc = dst.ctrlpoints is not None and len(dst.ctrlpoints) == nt
            chk.add("consistent", okc, "target has npts control points")
            if not okc:
                return
            try:
                T = lin_rows(dst.ctrlpoints, pn)
            except ValueError as e:
                chk.add("linear", False, "target control points are not linear forms of the source points: %s" % e)
                return
            lhs = spec.matmul(Gtt, T)
            chk.add("orthogonal", mat_eq(lhs, Gts),
                    "Gram(target,target) @ T == Gram(target,source) exactly, i.e. <C - D, M_i> = 0 for every target basis function "
                    "(exact spec integration)", backend="exact-Q", pt={"P%d" % i: F(i + 1) for i in range(ns)})
            # error functional
            Rm = spec.residual_form(Us, ps, Ut, pt_, T)
            if isinstance(err, Sym):
                try:
                    E = con.quadratic_form(err, pn)
                except ValueError as e:
                    chk.add("error-form", False, "returned error is not a quadratic form of the source points: %s" % e)
                    return
            else:
                E = [[F(0)] * ns for _ in range(ns)] if err == 0 else None
            if E is None:
                chk.add("error-form", False, "returned error %r" % (err,))
                return
            c1 = mat_eq(E, Rm)
            ch = mat_eq(E, [[x / 2 for x in r] for r in Rm])
            chk.add("error-multiple", c1 or ch, "returned error == %s * integral of the squared residual, as quadratic forms" % (
                "1" if c1 else "1/2" if ch else "neither 1 nor 1/2"), backend="exact-Q")
            chk.add("error-nonneg", spec.is_psd(E), "error form positive semidefinite (exact LDL^T)", backend="exact-LDLt")
            # containment => reproduction
            try:
                Tref = spec.refine_matrix(Us, ps, Ut, pt_)
            except (ValueError, ZeroDivisionError):
                Tref = None
            if Tref is not None:
                chk.add("reproduces", mat_eq(T, Tref) and all(x == 0 for r in E for x in r),
                        "source space is contained in the target space: D == C and error == 0")
            else:
                chk.add("error-positive-outside", any(x != 0 for r in E for x in r), "source not in target space: error form is not identically zero")

        out += H.run_paths(ctx, fn, "S-con", ptag(pr, variant), wb, body)

        # ---- with interpolation nodes (<= npts of the target, unisolvent): ends (+ a middle point) ----
        a, b = Ut[0], Ut[-1]
        nodesets = []
        if nt >= 2:
            nodesets.append([a, b])
        if nt >= 3:
            nodesets.append([a, (a + 2 * b) / 3, b])
            nodesets.append([b, (a + 2 * b) / 3, a])      # the same admissible node set listed in DECREASING order
        if nt >= 1:
            nodesets.append([(2 * a + b) / 3])
        for nodes in nodesets:
            ctx = con.con_ctx(pn)

            def body_n(chk, ctx=ctx, nodes=nodes):
                P = [ctx.sym(x) for x in pn]
                src = chk.call(curves.Curve, list(Us), P)
                dst = chk.call(curves.Curve, list(Ut))
                err = chk.call(dst.fit_curve, src, tuple(nodes))
                okc = dst.ctrlpoints is not None and len(dst.ctrlpoints) == nt
                chk.add("consistent", okc, "target has npts control points")
                if not okc:
                    return
                T = lin_rows(dst.ctrlpoints, pn)
                At = spec.collocation(Ut, pt_, nodes)
                As = spec.collocation(Us, ps, nodes)
                chk.add("interpolates", mat_eq(spec.matmul(At, T), As), "D(z) == C(z) at every node (exact)", backend="exact-Q",
                        pt={"P%d" % i: F(i + 1) for i in range(ns)})
                NS = spec.null_space(At, nt)
                M = [[a_ - b_ for a_, b_ in zip(r1, r2)] for r1, r2 in zip(spec.matmul(Gtt, T), Gts)]
                okorth = all(sum(v[i] * M[i][j] for i in range(nt)) == 0 for v in NS for j in range(ns))
                chk.add("orthogonal-constrained", okorth, "residual is L2-orthogonal to every element of the target space that vanishes at "
                        "all nodes (%d-dimensional subspace, exact)" % len(NS), backend="exact-Q", pt={"P%d" % i: F(i + 1) for i in range(ns)})
                if isinstance(err, Sym):
                    E = con.quadratic_form(err, pn)
                    Rm = spec.residual_form(Us, ps, Ut, pt_, T)
                    c1 = mat_eq(E, Rm)
                    ch = mat_eq(E, [[x / 2 for x in r] for r in Rm])
                    chk.add("error-multiple", c1 or ch, "returned error == (1 or 1/2) * integral of the squared residual", backend="exact-Q")

            dec = ",decreasing" if len(nodes) > 1 and nodes[0] > nodes[-1] else ""
            out += H.run_paths(ctx, fn, "S-con", ptag(pr, variant, ",nodes=%d%s" % (len(nodes), dec)), dict(wb, nodes=nodes), body_n)
    finally:
        mon.uninstall()
    out += mon.obligations(ptag(pr, variant))
    return out


task_fit.contract_fn = "curves.Curve.fit_curve"


# --------------------------------------------------------------------------------------
# engine B: vector-valued control points - the returned error is the WORST coordinate of the integral of the squared residual
# --------------------------------------------------------------------------------------
def task_vector_points():
    from ..report import FAILED, PROVED, ob
    fn = "curves.Curve.fit_curve"
    out = []
    for pr in ((2, (1, 0, 0), 1, (0, 0, 0)), (3, (0, 1, 0), 2, (0, 0, 0)), (1, (1, 1, 0), 1, (1, 0, 0))):
        ps, cs, pt_, ct = pr
        Us, Ut = vec(ps, cs, 0), vec(pt_, ct, 0)
        ns, nt = len(Us) - ps - 1, len(Ut) - pt_ - 1
        P = [np.array([F((-1) ** i * (i + 1), 2), F(i * i, 3), F(3 - i)], dtype=object) for i in range(ns)]
        src, dst = curves.Curve(list(Us), P), curves.Curve(list(Ut))
        bad = None
        try:
            err = dst.fit_curve(src)
            Gtt, Gts = spec.gram(Ut, pt_, Ut, pt_), spec.gram(Ut, pt_, Us, ps)
            worst = F(0)
            for d in range(3):
                Pd = [q[d] for q in P]
                Qd = [q[d] for q in dst.ctrlpoints]
                if [sum(Gtt[i][j] * Qd[j] for j in range(nt)) for i in range(nt)] != [sum(Gts[i][j] * Pd[j] for j in range(ns)) for i in range(nt)]:
                    bad = "coordinate %d of the result is not the L2 projection (normal equations fail)" % d
                    break
                T = spec.mat_solve(Gtt, Gts)
                Rm = spec.residual_form(Us, ps, Ut, pt_, T)
                worst = max(worst, sum(Pd[i] * Rm[i][j] * Pd[j] for i in range(ns) for j in range(ns)))
            if not bad and err not in (worst, worst / 2):
                bad = "returned error %s; the integral of the squared residual is at most %s in a coordinate (expected that, or half of it)" % (err, worst)
        except Exception as e:
            bad = "%s: %s" % (type(e).__name__, str(e)[:100])
        out.append(ob("%s:vector-points[%s]" % (fn, ptag(pr, 0)), fn, FAILED if bad else PROVED, "B", "concrete", 0.0,
                      bad or "3-D control points: every coordinate is the L2 projection, the returned error is the worst coordinate's squared-residual integral",
                      dict(kind="c11.vector", pr=list(pr)) if bad else None))
    # with interpolation nodes: the returned error is still (a fixed multiple of) the squared-residual integral of the WORST coordinate
    for pr in ((2, (1, 0, 0), 1, (1, 0, 0)), (3, (0, 1, 0), 2, (0, 0, 0)), (2, (1, 1, 0), 2, (0, 0, 0)), "uneven"):
        if pr == "uneven":      # unequal spans, coordinates whose residuals are strongly correlated
            pr = (2, (1, 0, 0), 1, (1, 0, 0))
            ps, cs, pt_, ct = pr
            Us, Ut = (F(0), F(0), F(0), F(1, 3), F(1), F(1), F(1)), (F(0), F(0), F(1, 2), F(1), F(1))
            P = [np.array(q, dtype=object) for q in ((F(1), F(0), F(1)), (F(-2), F(3), F(2)), (F(3), F(-1), F(-3)), (F(5), F(2), F(0)))]
            tag = "src=(0,0,0,1/3,1,1,1),dst=(0,0,1/2,1,1)"
        else:
            ps, cs, pt_, ct = pr
            Us, Ut = vec(ps, cs, 1), vec(pt_, ct, 1)
            P = [np.array([F((-1) ** i * (i + 1), 2), F(i * i, 3) - i, F(3 - i)], dtype=object) for i in range(len(Us) - ps - 1)]
            tag = ptag(pr, 1)
        ns, nt = len(Us) - ps - 1, len(Ut) - pt_ - 1
        nodes = (Us[0], Us[-1])
        src, dst = curves.Curve(list(Us), P), curves.Curve(list(Ut))
        bad = None
        try:
            err = dst.fit_curve(src, nodes)
            Gtt, Gts, Gss = spec.gram(Ut, pt_, Ut, pt_), spec.gram(Ut, pt_, Us, ps), spec.gram(Us, ps, Us, ps)
            worst = F(0)
            for d in range(3):
                Pd = [q[d] for q in P]
                Qd = [q[d] for q in dst.ctrlpoints]
                if Qd[0] != Pd[0] or Qd[-1] != Pd[-1]:
                    bad = "coordinate %d does not interpolate at the end nodes" % d
                    break
                sq = sum(Pd[i] * Gss[i][j] * Pd[j] for i in range(ns) for j in range(ns)) - 2 * sum(Qd[i] * Gts[i][j] * Pd[j] for i in range(nt) for j in range(ns)) \
                    + sum(Qd[i] * Gtt[i][j] * Qd[j] for i in range(nt) for j in range(nt))
                worst = max(worst, sq)
            if not bad and err not in (worst, worst / 2):
                bad = "returned error %s; the integral of the squared residual is at most %s in a coordinate (expected that, or half of it)" % (err, worst)
        except Exception as e:
            bad = "%s: %s" % (type(e).__name__, str(e)[:100])
        out.append(ob("%s:vector-points-with-nodes[%s]" % (fn, tag), fn, FAILED if bad else PROVED, "B", "concrete", 0.0,
                      bad or "3-D control points, end nodes interpolated: the returned error is the worst coordinate's squared-residual integral",
                      dict(kind="c11.vector-nodes", tag=tag) if bad else None))
    # the EMPTY node set (and node sets given as a tuple / list / numpy array): no constraint -> the plain L2 projection, the same result as without nodes
    for label, nodes in (("()", ()), ("[]", []), ("ndarray-of-two", np.array([0.0, 1.0]))):
        bad = None
        try:
            Us, Ut = vec(2, (1, 0, 0), 0), vec(1, (1, 0, 0), 0)
            if label == "ndarray-of-two":
                Us, Ut = [float(x) for x in Us], [float(x) for x in Ut]
                nodes = np.array([Us[0], Us[-1]])
            ns = len(Us) - 3
            P = [type(Us[0])(F((-1) ** i * (i + 2), 3)) if label != "ndarray-of-two" else float(F((-1) ** i * (i + 2), 3)) for i in range(ns)]
            ref, dst = curves.Curve(list(Ut)), curves.Curve(list(Ut))
            e0 = ref.fit_curve(curves.Curve(list(Us), list(P)), None if label != "ndarray-of-two" else (Us[0], Us[-1]))
            e1 = dst.fit_curve(curves.Curve(list(Us), list(P)), nodes)
            if any(abs(float(a) - float(b)) > 1e-12 for a, b in zip(dst.ctrlpoints, ref.ctrlpoints)) or abs(float(e0) - float(e1)) > 1e-12:
                bad = "control points %s / error %s, expected %s / %s" % (list(dst.ctrlpoints), e1, list(ref.ctrlpoints), e0)
        except Exception as e:
            bad = "%s: %s" % (type(e).__name__, str(e)[:100])
        out.append(ob("%s:node-set-forms[%s]" % (fn, label), fn, FAILED if bad else PROVED, "B", "concrete", 0.0,
                      bad or "same result as the equivalent call", dict(kind="c11.nodeforms", label=label) if bad else None))
    # a node SET has no order: onto a target with a full-multiplicity interior knot (two independent blocks) every listing of the same nodes gives the same curve, which interpolates
    for label, Us, Ps, Ut, nodes in (("linear-pieces", [F(0)] * 3 + [F(1)] * 3, [F(0), F(2), F(1)], [F(0), F(0), F(1, 2), F(1, 2), F(1), F(1)], [F(1, 8), F(1, 4), F(3, 4)]),
                                     ("parabolic-pieces", [F(-1)] * 4 + [F(1, 2)] + [F(2)] * 4, [F(1), F(-3), F(2), F(5, 2), F(0)], [F(-1)] * 3 + [F(0)] * 3 + [F(2)] * 3, [F(-1), F(-1, 2), F(1), F(3, 2)])):
        import itertools
        bad, ref = None, None
        try:
            src = curves.Curve(list(Us), list(Ps))
            for perm in itertools.permutations(nodes):
                dst = curves.Curve(list(Ut))
                err = dst.fit_curve(src, list(perm))
                got = (tuple(dst.ctrlpoints), err)
                if any(dst(z) != src(z) for z in nodes):
                    bad = "nodes listed as %s: the fitted curve does not interpolate (%s vs %s)" % ([str(x) for x in perm], [str(dst(z)) for z in nodes], [str(src(z)) for z in nodes])
                    break
                if ref is None:
                    ref = got
                elif got != ref:
                    bad = "nodes listed as %s give control points %s, listed in increasing order %s" % ([str(x) for x in perm], [str(x) for x in got[0]], [str(x) for x in ref[0]])
                    break
        except Exception as e:
            bad = "%s: %s" % (type(e).__name__, str(e)[:100])
        out.append(ob("%s:node-order-independent[%s]" % (fn, label), fn, FAILED if bad else PROVED, "B", "concrete", 0.0,
                      bad or "every listing of the node set gives the same interpolating curve and error", dict(kind="c11.nodeforms", label="order:" + label) if bad else None))
    # degree-0 spaces whose knots are of DIFFERENT number classes (Fraction source, float target, and the reverse): the 3-point rule comes from an exact table (D53)
    for label, Us, Ps, Ut in (("Fraction->float", [F(0), F(1, 2), F(1)], [F(1), F(2)], [0.0, 0.25, 1.0]), ("float->Fraction", [0.0, 1.0], [3.0], [F(0), F(1, 4), F(1, 2), F(1)])):
        bad = None
        try:
            dst = curves.Curve(list(Ut))
            err = dst.fit_curve(curves.Curve(list(Us), list(Ps)))
            # the L2 projection onto piecewise constants is the mean of the source over each target span
            cuts = sorted(set(F(x) for x in Ut))
            want = []
            for a, b in zip(cuts[:-1], cuts[1:]):
                acc = F(0)
                sk = sorted(set(F(x) for x in Us))
                for (c, d), v in zip(zip(sk[:-1], sk[1:]), Ps):
                    lo, hi = max(a, c), min(b, d)
                    if hi > lo:
                        acc += (hi - lo) * F(v)
                want.append(acc / (b - a))
            if any(abs(F(g) - w) > F(1, 10 ** 12) for g, w in zip(dst.ctrlpoints, want)) or float(err) < -1e-15:
                bad = "control points %s, the span means are %s (error %s)" % (list(dst.ctrlpoints), [str(x) for x in want], err)
        except Exception as e:
            bad = "%s: %s" % (type(e).__name__, str(e)[:100])
        out.append(ob("%s:degree0-mixed-knot-classes[%s]" % (fn, label), fn, FAILED if bad else PROVED, "B", "concrete", 0.0,
                      bad or "the projection onto piecewise constants is the span mean", dict(kind="c11.nodeforms", label="deg0:" + label) if bad else None))
    return out + [{"_stats": dict(cases=len(out))}]


task_vector_points.contract_fn = "curves.Curve.fit_curve"


def tasks(tier, seed):
    ts = []
    for pr in pairs(tier):
        for variant in ((0, 1) if tier == "quick" else (0, 1, 2)):
            ts.append((task_fit, (pr, variant)))
    ts.append((task_vector_points, ()))
    return ts


def replay(o):
    w = o["witness"]
    if w.get("kind") == "c11.nodeforms":
        tail = ("degree0-mixed-knot-classes[%s]" % w["label"][5:]) if w["label"].startswith("deg0:") else (("node-order-independent[%s]" % w["label"][6:]) if w["label"].startswith("order:") else ("node-set-forms[%s]" % w["label"]))
        r = [x for x in task_vector_points() if "id" in x and x["id"].endswith(tail)][0]
        return r["status"] == "failed", "same result as the equivalent call", r["detail"]
    if w.get("kind") == "c11.vector-nodes":
        r = [x for x in task_vector_points() if "id" in x and x["id"].endswith("with-nodes[%s]" % w["tag"])][0]
        return r["status"] == "failed", "end nodes interpolated; error == worst coordinate's squared-residual integral (or half of it)", r["detail"]
    if w.get("kind") == "c11.vector":
        pr = (w["pr"][0], tuple(w["pr"][1]), w["pr"][2], tuple(w["pr"][3]))
        r = [x for x in task_vector_points() if "id" in x and x["id"].endswith("[%s]" % ptag(pr, 0))][0]
        return r["status"] == "failed", "L2 projection per coordinate; error == worst coordinate", r["detail"]
    pr = (w["pr"][0], tuple(w["pr"][1]), w["pr"][2], tuple(w["pr"][3]))
    variant = w["variant"]
    ps, cs, pt_, ct = pr
    Us, Ut = vec(ps, cs, variant), vec(pt_, ct, variant)
    ns, nt = len(Us) - ps - 1, len(Ut) - pt_ - 1
    pts = {k: F(v) for k, v in (w.get("point") or {}).items()}
    P = [pts.get("P%d" % i, F(i + 1)) for i in range(ns)]
    if all(x == 0 for x in P):
        P = [F((-1) ** i * (i + 2), 3) for i in range(ns)]
    nodes = [F(x) for x in w["nodes"]] if w.get("nodes") else None
    src = curves.Curve(list(Us), P)
    dst = curves.Curve(list(Ut))
    try:
        err = dst.fit_curve(src, tuple(nodes) if nodes else None)
    except Exception as e:
        return True, dict(source=Us, target=Ut, P=P, nodes=nodes), "%s: %s" % (type(e).__name__, str(e)[:200])
    D = list(dst.ctrlpoints)
    Gtt = spec.gram(Ut, pt_, Ut, pt_)
    Gts = spec.gram(Ut, pt_, Us, ps)
    resid = [sum(Gtt[i][j] * D[j] for j in range(nt)) - sum(Gts[i][j] * P[j] for j in range(ns)) for i in range(nt)]
    A_ = spec.gram(Us, ps, Us, ps)
    sq = sum(P[i] * A_[i][j] * P[j] for i in range(ns) for j in range(ns)) - 2 * sum(D[i] * Gts[i][j] * P[j] for i in range(nt) for j in range(ns)) \
        + sum(D[i] * Gtt[i][j] * D[j] for i in range(nt) for j in range(nt))
    bad = False
    if nodes:
        At = spec.collocation(Ut, pt_, nodes)
        As = spec.collocation(Us, ps, nodes)
        interp = [sum(At[k][j] * D[j] for j in range(nt)) - sum(As[k][j] * P[j] for j in range(ns)) for k in range(len(nodes))]
        NS = spec.null_space(At, nt)
        orth = [sum(v[i] * resid[i] for i in range(nt)) for v in NS]
        bad = any(x != 0 for x in interp) or any(x != 0 for x in orth)
        obs = dict(ctrlpoints=D, error=err, interpolation_defect=interp, constrained_inner_products=orth, integral_squared_residual=sq)
    else:
        bad = any(x != 0 for x in resid)
        obs = dict(ctrlpoints=D, error=err, inner_products_with_target_basis=resid, integral_squared_residual=sq)
    if not isinstance(err, float) and err not in (sq, sq / 2):
        bad = True
    return bad, dict(source=Us, target=Ut, P=P, nodes=nodes, expected="inner products all zero; error in {1, 1/2} x integral"), obs


INFO = dict(
    assumptions=A.S_COMMON + [A.A4], trusted_base=A.TRUSTED, min_obligations=60, level="other",
    explanation="C11: Curve.fit_curve / LeastSquare.spline2spline / func2func on concrete non-uniform rational knot vectors with symbolic source control "
                "points: the map P -> D is extracted as an exact matrix T and checked against exact spec Gram matrices (formal integration of Cox-de Boor "
                "pieces): Gtt T == Gts (orthogonality), error form == (1 or 1/2) x residual form, PSD, reproduction under containment, interpolation and "
                "constrained orthogonality with nodes.",
    functions=["curves.Curve.fit_curve", "heavy.LeastSquare.spline2spline", "heavy.LeastSquare.func2func", "heavy.Linalg.invert (monitor)",
               "heavy.IntegratorArray.closed_newton_cotes", "heavy.eval_rational_nodes"],
)


def info(tier, seed, obs):
    return dict(bounds="tier %s: %d (source, target) space pairs x %d concrete knot-value grids; degrees 0..3, degree gaps up to 3 in both directions; "
                "node sets: ends, ends+interior point, single interior point" % (tier, len(pairs(tier)), 2 if tier == "quick" else 3))
