"""C10 — quadrature rules are exact to their order; spline integrals are exact."""
from __future__ import annotations

import ast
import os
from fractions import Fraction

import numpy as np

from .. import assume as A
from .. import env, spec
from ..env import calculus, curves, heavy, knotspace
from ..report import FAILED, PROVED, call_with_timeout, ob
from ..symx import con
from ..symx import harness as H
from ..symx.sym import Sym
from .c04 import same_state, snapshot
from .c11 import GRID, vec

PROP = "C10"
F = Fraction
FAMILIES = {
    "closed-newton-cotes": (heavy.NodeSample.closed_linspace, heavy.IntegratorArray.closed_newton_cotes, 2, True),
    "open-newton-cotes": (heavy.NodeSample.open_linspace, heavy.IntegratorArray.open_newton_cotes, 1, True),
    "chebyshev": (heavy.NodeSample.chebyshev, heavy.IntegratorArray.chebyshev, 1, False),
    "gauss-legendre": (heavy.NodeSample.gauss_legendre, heavy.IntegratorArray.gauss_legendre, 1, False),
}


# --------------------------------------------------------------------------------------
# per-n arithmetic (bounded in n)
# --------------------------------------------------------------------------------------
def rule_facts(name, n):
    nodes_f, weights_f, nmin, exact = FAMILIES[name]
    x = nodes_f(n)
    w = weights_f(n)
    facts = dict(len_ok=len(x) == n and len(w) == n)
    tol = 0 if exact else F(1, 10 ** (11 if n <= 12 else 8))
    fx = [F(v) for v in x]
    fw = [F(v) for v in w]
    facts["nodes_in_unit_increasing"] = all(0 <= v <= 1 for v in fx) and all(a < b for a, b in zip(fx[:-1], fx[1:]))
    facts["weights_sum_to_one"] = abs(sum(fw) - 1) <= tol
    order = 2 * n if name == "gauss-legendre" else n
    worst = F(0)
    for k in range(order):
        worst = max(worst, abs(sum(wi * xi ** k for wi, xi in zip(fw, fx)) - F(1, k + 1)))
    facts["exact_to_order"] = worst <= tol
    facts["worst_moment_error"] = float(worst)
    facts["types_exact"] = (not exact) or all(isinstance(v, (Fraction, int)) for v in list(x) + list(w))
    return facts, (tuple(x), tuple(w))


def task_rules(name, nmax):
    fn = "heavy.IntegratorArray." + name.replace("-", "_")
    out = []
    nmin = FAMILIES[name][2]
    for n in range(nmin, nmax + 1):
        try:
            facts, _ = rule_facts(name, n)
            bad = [k for k, v in facts.items() if v is False]
            out.append(ob("%s:exact-to-order[n=%d]" % (fn, n), fn, FAILED if bad else PROVED, "B", "exact-arithmetic", 0.0,
                          ("fails: %s; " % bad if bad else "") + "sum w_i x_i^k == 1/(k+1) for k < %s, nodes in [0,1] increasing, weights sum to 1 (worst moment error %.1e)" % (
                              "2n" if name == "gauss-legendre" else "n", facts["worst_moment_error"]),
                          dict(kind="c10.rule", family=name, n=n) if bad else None))
        except Exception as e:
            out.append(ob("%s:exact-to-order[n=%d]" % (fn, n), fn, FAILED, "B", "exact-arithmetic", 0.0, "%s: %s" % (type(e).__name__, str(e)[:150]),
                          dict(kind="c10.rule", family=name, n=n)))
    return out


task_rules.contract_fn = "heavy.IntegratorArray"


ORDER_SCRIPT = """
import sys, json
from compmec.nurbs import heavy
F = {"closed-newton-cotes": (heavy.NodeSample.closed_linspace, heavy.IntegratorArray.closed_newton_cotes),
     "open-newton-cotes": (heavy.NodeSample.open_linspace, heavy.IntegratorArray.open_newton_cotes),
     "chebyshev": (heavy.NodeSample.chebyshev, heavy.IntegratorArray.chebyshev),
     "gauss-legendre": (heavy.NodeSample.gauss_legendre, heavy.IntegratorArray.gauss_legendre)}
order = json.loads(sys.argv[1])
res = {}
for name, n, which in order:
    res["%s/%d/%s" % (name, n, which)] = list(map(str, F[name][1 if which == "w" else 0](n)))
print(json.dumps(res))
"""


def _order_run(order):
    """Requests the rules in the given order in a FRESH interpreter (empty memo tables)."""
    import json
    import subprocess
    import sys
    r = subprocess.run([sys.executable, "-c", ORDER_SCRIPT, json.dumps(order)], capture_output=True, text=True, timeout=300,
                       env=dict(os.environ, PYTHONPATH=env.SRC, PYTHONWARNINGS="ignore"))
    if r.returncode != 0:
        raise RuntimeError(r.stderr[-400:])
    return {k: tuple(v) for k, v in json.loads(r.stdout.strip().splitlines()[-1]).items()}


def task_orders(nmax):
    """The answer does not depend on which rules or sizes were requested earlier (memo tables): three call orders in fresh processes."""
    fn = "heavy.IntegratorArray (memo tables)"
    pairs_ = [(name, n) for name in FAMILIES for n in range(FAMILIES[name][2], nmax + 1)]
    nodes_first = [(a, b, w) for a, b in pairs_ for w in ("x", "w")]
    weights_first = [(a, b, w) for a, b in pairs_ for w in ("w", "x")]
    keys = nodes_first
    orders = {"ascending": nodes_first, "weights-before-nodes": weights_first, "descending": nodes_first[::-1],
              "all-weights-then-all-nodes": sorted(nodes_first, key=lambda k: (k[2] != "w", -k[1], k[0])),
              "interleaved": sorted(nodes_first, key=lambda k: (-(k[1] % 3), k[1], k[0], k[2]))}
    results = {}
    for label, order in orders.items():
        try:
            results[label] = _order_run([list(k) for k in order])
        except Exception as e:
            return [ob("%s:order-independent" % fn, fn, FAILED, "B", "fresh-process", 0.0, "order %s: %s" % (label, str(e)[:300]))]
    base = results["ascending"]
    diffs = [(label, k) for label, r in results.items() for k in base if r[k] != base[k]]
    # repeated request returns the identical tuple object content
    again = _order_run([list(k) for k in keys[:6] + keys[:6]])
    diffs += [("repeat", k) for k in again if again[k] != base[k]]
    return [ob("%s:order-independent[n<=%d]" % (fn, nmax), fn, FAILED if diffs else PROVED, "B", "fresh-process", 0.0,
               "5 call orders (nodes / weights first, ascending, descending, interleaved) in fresh processes + repeated calls give identical rules for %d (family, n) pairs%s" % (len(keys), "; differs: %s" % diffs[:3] if diffs else ""),
               dict(kind="c10.order", diffs=[list(d) for d in diffs[:3]]) if diffs else None)]


task_orders.contract_fn = "heavy.IntegratorArray"


# --------------------------------------------------------------------------------------
# frame analysis of the memo tables (unbounded, syntactic)
# --------------------------------------------------------------------------------------
MEMO = {("NodeSample", "__cheby"): "chebyshev", ("NodeSample", "__gauss"): "gauss_legendre",
        ("IntegratorArray", "__closed_newton"): "closed_newton_cotes", ("IntegratorArray", "__open_newton"): "open_newton_cotes",
        ("IntegratorArray", "__cheby"): "chebyshev", ("IntegratorArray", "__gauss"): "gauss_legendre"}


def task_memo_frames():
    """Only getter X writes table X, only at key `npts`, only the value it then returns; every other reference is a read."""
    out = []
    tree = ast.parse(env.source("heavy"))
    classes = {n.name: n for n in tree.body if isinstance(n, ast.ClassDef)}
    for (cls, attr), getter in MEMO.items():
        fn = "heavy.%s.%s (memo %s)" % (cls, getter, attr)
        problems = []
        writes = 0
        cnode = classes.get(cls)
        if cnode is None:
            out.append(ob("%s:frame" % fn, fn, FAILED, "F", "ast", 0.0, "class %s not found" % cls))
            continue
        for mod_node in ast.walk(tree):
            if not isinstance(mod_node, ast.FunctionDef):
                continue
            owner = next((c.name for c in classes.values() if mod_node in ast.walk(c)), None)
            for n in ast.walk(mod_node):
                # references of the form <cls>.<attr>
                if isinstance(n, ast.Attribute) and n.attr == attr and isinstance(n.value, ast.Name) and n.value.id == cls and owner == cls:
                    parent_store = None
                    for m in ast.walk(mod_node):
                        if isinstance(m, ast.Subscript) and m.value is n and isinstance(m.ctx, ast.Store):
                            parent_store = m
                        if isinstance(m, ast.Call) and isinstance(m.func, ast.Attribute) and m.func.value is n:
                            problems.append("%s calls .%s() on the table at L%d" % (mod_node.name, m.func.attr, m.lineno))
                        if isinstance(m, (ast.Assign, ast.AugAssign)):
                            tg = m.targets if isinstance(m, ast.Assign) else [m.target]
                            if any(t is n for t in tg):
                                problems.append("%s rebinds the table at L%d" % (mod_node.name, m.lineno))
                        if isinstance(m, ast.Delete) and any(getattr(t, "value", None) is n for t in m.targets):
                            problems.append("%s deletes from the table at L%d" % (mod_node.name, m.lineno))
                    if parent_store is not None:
                        writes += 1
                        if mod_node.name != getter:
                            problems.append("written in %s (only %s may write it)" % (mod_node.name, getter))
                        key = ast.unparse(parent_store.slice)
                        if key != "npts":
                            problems.append("written at key '%s' (must be the requested size npts) L%d" % (key, parent_store.lineno))
        # the getter returns the table entry at npts and its argument list is (npts)
        g = next((n for n in cnode.body if isinstance(n, ast.FunctionDef) and n.name == getter), None)
        if g is None:
            problems.append("getter %s missing" % getter)
        else:
            full = "%s.%s" % (cls, attr)
            aliases = {full}
            for n in ast.walk(g):          # local names bound to the table itself
                if isinstance(n, ast.Assign) and ast.unparse(n.value) == full:
                    aliases |= {t.id for t in n.targets if isinstance(t, ast.Name)}
            stored = set()                  # expressions stored at key npts
            awrites = 0
            for n in ast.walk(g):
                if isinstance(n, ast.Assign):
                    for t in n.targets:
                        if isinstance(t, ast.Subscript) and ast.unparse(t.value) in aliases:
                            awrites += 1
                            if ast.unparse(t.slice) != "npts":
                                problems.append("written at key '%s'" % ast.unparse(t.slice))
                            stored.add(ast.unparse(n.value))
            if awrites and writes == 0:
                writes = awrites            # the single write goes through a local alias of the table
            ok_rets = {"%s[npts]" % a for a in aliases} | stored
            rets = [ast.unparse(r.value) for r in ast.walk(g) if isinstance(r, ast.Return) and r.value is not None]
            if not rets or any(r not in ok_rets for r in rets):
                problems.append("getter returns %s instead of the table entry at npts" % rets)
            if [a.arg for a in g.args.args] != ["npts"]:
                problems.append("getter parameters are %s" % [a.arg for a in g.args.args])
            stores = [n for n in ast.walk(g) if isinstance(n, ast.Name) and isinstance(n.ctx, ast.Store) and n.id == "npts"]
            if stores:
                problems.append("getter reassigns npts")
        if writes != 1:
            problems.append("%d write sites (expected exactly 1)" % writes)
        mangled = "_%s%s" % (cls, attr)
        for fnode in [n for n in ast.walk(tree) if isinstance(n, ast.FunctionDef)]:
            for n in ast.walk(fnode):
                if isinstance(n, ast.Attribute) and (n.attr == mangled or (n.attr == attr and isinstance(n.value, ast.Name) and n.value.id == cls)):
                    inside = fnode.name == getter and any(fnode is b for b in cnode.body)
                    if not inside:
                        problems.append("referenced from %s at L%d (only the getter %s.%s may touch the table)" % (fnode.name, n.lineno, cls, getter))
                if isinstance(n, ast.Constant) and n.value == mangled:
                    problems.append("named as a string in %s at L%d" % (fnode.name, n.lineno))
        out.append(ob("%s:frame" % fn, fn, FAILED if problems else PROVED, "F", "ast", 0.0,
                      "; ".join(problems) if problems else "single write site, inside the getter, at key npts; the getter returns that entry; no other mutation of the table "
                      "=> the value at key n is a function of n alone, for every call order"))
    # entries are immutable tuples: every written value is a tuple(...) or a tuple-typed name assigned from tuple(...)
    return out


task_memo_frames.contract_fn = "heavy.IntegratorArray"


# --------------------------------------------------------------------------------------
# Integrate.scalar / Integrate.function on splines (S-con: the default-method test inspects the knot type)
# --------------------------------------------------------------------------------------
def task_integrate(p, cells, variant):
    U = vec(p, cells, variant)
    n = len(U) - p - 1
    fn = "calculus.Integrate.scalar"
    pn = ["P%d" % i for i in range(n)]
    cn = ["c%d" % i for i in range(p + 2)]
    ctx = con.con_ctx(pn + cn)
    disc = any(spec.mult_of(U, x) == p + 1 for x in spec.knots_of(U)[1:-1])

    def body(chk):
        P = [ctx.sym(x) for x in pn]
        C = chk.call(curves.Curve, list(U), P)
        before = snapshot(C)
        want = sum(P[i] * (U[i + p + 1] - U[i]) for i in range(n)) / (p + 1)
        got = chk.call(calculus.Integrate.scalar, C)
        chk.identities("default-rule", [("integral", got, want)])
        chk.exact("default-exact", got)
        for method in ("closed-newton-cotes", "open-newton-cotes"):
            if method == "closed-newton-cotes" and p == 0:
                continue
            got = chk.call(calculus.Integrate.scalar, C, None, method)
            chk.identities("method:" + method, [("integral", got, want)], tags={"method": method, "discontinuous": disc})
        for method in ("chebyshev", "gauss-legendre"):
            got = chk.call(calculus.Integrate.scalar, C, None, method)
            try:
                co, c0 = con.linear_form(got, pn) if isinstance(got, Sym) else ({}, F(got))
                wc, _ = con.linear_form(H.to_sym(ctx, want), pn)
                dev = max([abs(co.get(k, 0) - wc[k]) for k in pn] + [abs(c0)])
                chk.add("method:" + method, dev <= F(1, 10 ** 9), "float rule: coefficient deviation %.1e" % float(dev), tags={"method": method})
            except ValueError as e:
                chk.add("method:" + method, False, "result is not linear in the control points: %s" % e)
        chk.add("operand-unchanged", same_state(before, snapshot(C)), "Integrate does not modify the curve")
        # Integrate.function: per-span polynomial integrand of degree < nnodes, symbolic coefficients
        nn = p + 2
        cs = [ctx.sym(x) for x in cn]
        f = lambda u: sum(c * u ** k for k, c in enumerate(cs))
        kv = chk.call(knotspace.KnotVector, list(U))
        got = chk.call(calculus.Integrate.function, kv, f, None, nn)
        a, b = U[0], U[-1]
        want_f = sum(c * (b ** (k + 1) - a ** (k + 1)) / (k + 1) for k, c in enumerate(cs))
        chk.identities("function-polynomial", [("integral of degree-%d polynomial with %d nodes" % (p + 1, nn), got, want_f)])
        # default arguments (method None, nnodes None -> degree + 1 nodes): polynomials of degree <= p, also at degree 0
        f_low = lambda u: sum(c * u ** k for k, c in enumerate(cs[:p + 1]))
        got = chk.call(calculus.Integrate.function, kv, f_low)
        want_low = sum(c * (b ** (k + 1) - a ** (k + 1)) / (k + 1) for k, c in enumerate(cs[:p + 1]))
        chk.identities("function-defaults", [("integral of a degree-%d polynomial with the default rule and size" % p, got, want_low)])
        chk.exact("function-defaults-exact", got)
        # a PER-SPAN polynomial (a different one on each span, jumping at the knots), default method: each span is integrated on its own piece
        cuts = sorted(set(U))

        def f_piece(u):
            k = max(i for i, x in enumerate(cuts[:-1]) if x <= u) if u < cuts[-1] else len(cuts) - 2
            return sum((c + k) * (k + 1) * u ** j for j, c in enumerate(cs[:p + 1]))
        got = chk.call(calculus.Integrate.function, kv, f_piece, None, p + 1)
        want_p = sum(sum((c + k) * (k + 1) * (hi ** (j + 1) - lo ** (j + 1)) / (j + 1) for j, c in enumerate(cs[:p + 1])) for k, (lo, hi) in enumerate(zip(cuts[:-1], cuts[1:])))
        chk.identities("function-per-span-polynomial", [("integral of a piecewise degree-%d polynomial, default method" % p, got, want_p)])

    return H.run_paths(ctx, fn, "S-con", "p=%d/%s,kv=%d" % (p, "".join(map(str, cells)), variant),
                       dict(kind="c10.integrate", p=p, cells=cells, variant=variant), body)


task_integrate.contract_fn = "calculus.Integrate.scalar"


# --------------------------------------------------------------------------------------
# engine B: the integral formula with VECTOR-valued control points (numpy arrays): sum_i P_i (u_(i+p+1) - u_i) / (p + 1) holds coordinate by coordinate, for every method (D41)
# --------------------------------------------------------------------------------------
def task_vector_integral():
    from ..report import FAILED, PROVED, ob
    import numpy as np
    fn = "calculus.Integrate.scalar"
    out = []
    cases = {"p0": [F(0), F(1), F(3)], "p1": [F(0), F(0), F(1, 2), F(2), F(2)], "p2-double": [F(-1)] * 3 + [F(0), F(0), F(3)] + [F(4)] * 3, "p3-bezier": [F(0)] * 4 + [F(5, 2)] * 4}
    for name, U in cases.items():
        p = U.count(U[0]) - 1
        n = len(U) - p - 1
        P = [np.array([F((-1) ** i * (i + 1), 2), F(i * i, 3) - 1, F(3 - i)], dtype=object) for i in range(n)]
        want = [sum(P[i][d] * (U[i + p + 1] - U[i]) for i in range(n)) / (p + 1) for d in range(3)]
        for method in (None, "open-newton-cotes", "closed-newton-cotes", "chebyshev", "gauss-legendre"):
            if method == "closed-newton-cotes" and p == 0:
                continue        # the closed rule needs two nodes; the default size for degree 0 is one
            bad = None
            try:
                C = curves.Curve(list(U), [q.copy() for q in P])
                got = calculus.Integrate.scalar(C, None, method) if method else calculus.Integrate.scalar(C)
                if np.shape(got) != (3,):
                    bad = "result of shape %s, expected a 3-vector" % (np.shape(got),)
                elif method in (None, "open-newton-cotes", "closed-newton-cotes"):
                    if [F(x) for x in got] != want:
                        bad = "integral %s, expected exactly %s" % ([str(x) for x in got], [str(x) for x in want])
                elif any(abs(float(x) - float(y)) > 1e-9 * max(1.0, abs(float(y))) for x, y in zip(got, want)):
                    bad = "integral %s, expected %s" % ([float(x) for x in got], [float(x) for x in want])
            except Exception as e:
                bad = "%s: %s" % (type(e).__name__, str(e)[:100])
            out.append(ob("%s:vector-points[%s,%s]" % (fn, name, method or "default"), fn, FAILED if bad else PROVED, "B", "concrete", 0.0,
                          bad or "the integral formula holds in every coordinate", dict(kind="c10.vector", case=name, method=method) if bad else None, {"method": method or "default"}))
    return out + [{"_stats": dict(cases=len(out))}]


task_vector_integral.contract_fn = "calculus.Integrate.scalar"


def task_length():
    """Integrate.lenght of a polyline = sum of segment lengths (needs sqrt: concrete 3-4-5 polylines, bounded stand-in)."""
    fn = "calculus.Integrate.lenght"
    out = []
    cases = [([(0, 0), (3, 4)], 5), ([(0, 0), (3, 4), (3, 16)], 17), ([(1, 1), (1, 6), (13, 6), (13, 1)], 22), ([(0, 0, 0), (2, 3, 6), (2, 3, 8)], 9)]
    # a DISCONNECTED polyline (interior knot of multiplicity degree + 1 = 2): the jump between the two pieces is not part of the length
    try:
        Cj = curves.Curve([0, 0, 1, 2, 2, 3, 3], [np.array(q) for q in [(0, 0), (3, 4), (3, 16), (10, 16), (10, 11)]])
        gotj = calculus.Integrate.lenght(Cj)
        okj, detj = abs(float(gotj) - 22) <= 1e-9 * 22, "length %r of two pieces 5 + 12 and 5 (the jump of 7 between them does not count)" % (gotj,)
    except Exception as e:
        okj, detj = False, "%s: %s" % (type(e).__name__, str(e)[:100])
    out.append(ob("%s:polyline[disconnected]" % fn, fn, PROVED if okj else FAILED, "B", "concrete", 0.0, detj, None if okj else dict(kind="c10.length", pts="disconnected")))
    for pts, length in cases:
        n = len(pts)
        for U in ([0, 0] + list(range(1, n - 1)) + [n - 1, n - 1], [F(0), F(0)] + [F(i * i, n * n) + F(1, 7) for i in range(1, n - 1)] + [F(2), F(2)]):
            C = curves.Curve(U, [np.array(q) for q in pts])
            # default rule, and the closed rule on the (piecewise constant, jumping) speed: a sample at the end of a span belongs to that span (D12)
            for label, kw in (("default", {}), ("closed-newton-cotes", dict(method="closed-newton-cotes", nnodes=3)), ("open-newton-cotes", dict(method="open-newton-cotes", nnodes=3))):
                try:
                    got = calculus.Integrate.lenght(C, **kw)
                    ok = abs(float(got) - length) <= 1e-9 * length
                    detail = "length %r, sum of segment lengths %d" % (got, length)
                except Exception as e:
                    ok, detail = False, "%s: %s" % (type(e).__name__, str(e)[:100])
                out.append(ob("%s:polyline[%d points,%s knots,%s]" % (fn, n, "uniform" if isinstance(U[2], int) or n == 2 else "non-uniform", label), fn,
                              PROVED if ok else FAILED, "B", "concrete", 0.0, detail, None if ok else dict(kind="c10.length", pts=pts)))
    return out


task_length.contract_fn = "calculus.Integrate.lenght"


# --------------------------------------------------------------------------------------
# engine B: Integrate.* with an explicit rule does not depend on the rules requested earlier in the same process (same number of nodes)
# --------------------------------------------------------------------------------------
INTEG_SCRIPT = """
import sys, json
from fractions import Fraction as F
from compmec.nurbs import Curve, KnotVector
from compmec.nurbs.calculus import Integrate
seq = json.loads(sys.argv[1])
n = int(sys.argv[2])
kv = KnotVector([F(0), F(0), F(1), F(1), F(3), F(3)])          # a jump at u = 1
curve = Curve([F(0), F(0), F(1), F(1), F(3), F(3)], [F(1), F(4), F(-2), F(7)])
f = lambda u: sum((k + 1) * u ** k for k in range(2 * n))     # degree 2n - 1: exact only for Gauss-Legendre with n nodes
out = []
for m in seq:
    a = Integrate.function(kv, f, m, n)
    b = Integrate.scalar(curve, None, m, n)
    out.append([m, repr(a), type(a).__name__, repr(b), type(b).__name__])
print(json.dumps(out))
"""


def task_integrate_orders():
    fn = "calculus.Integrate.function"
    import json
    import subprocess
    import sys
    methods = ["closed-newton-cotes", "open-newton-cotes", "chebyshev", "gauss-legendre"]

    def run(seq, n):
        r = subprocess.run([sys.executable, "-c", INTEG_SCRIPT, json.dumps(seq), str(n)], capture_output=True, text=True, timeout=300,
                           env=dict(os.environ, PYTHONPATH=env.SRC, PYTHONWARNINGS="ignore"))
        if r.returncode != 0:
            raise RuntimeError(r.stderr[-300:])
        return json.loads(r.stdout.strip().splitlines()[-1])
    out = []
    for n in (3, 4):
        bad = []
        try:
            single = {m: run([m], n)[0][1:] for m in methods}
            for m1 in methods:
                res = run([m1] + [m for m in methods if m != m1] + [m1], n)
                for row in res:
                    if row[1:] != single[row[0]]:
                        bad.append("after %s first: %s gives %s, alone it gives %s" % (m1, row[0], row[1:], single[row[0]]))
            # exact data with the exact rules gives exact numbers
            for m in methods[:2]:
                if single[m][1] not in ("Fraction", "int") or single[m][3] not in ("Fraction", "int"):
                    bad.append("%s on Fraction data returns %s / %s" % (m, single[m][1], single[m][3]))
        except Exception as e:
            bad.append("%s: %s" % (type(e).__name__, str(e)[:200]))
        out.append(ob("%s:order-independent[nnodes=%d]" % (fn, n), fn, FAILED if bad else PROVED, "B", "fresh-process", 0.0,
                      ("%d differences; first: %s" % (len(bad), bad[0])) if bad else
                      "Integrate.function / Integrate.scalar with each of the 4 rules and %d nodes: identical after any other rule was used first (fresh interpreters)" % n,
                      dict(kind="c10.integ-order", n=n) if bad else None))
    return out + [{"_stats": dict(cases=2 * 8)}]


task_integrate_orders.contract_fn = "calculus.Integrate.function"


def shapes(tier):
    out = [(0, (0, 0, 0)), (0, (0, 1, 0)), (1, (0, 0, 0)), (1, (0, 1, 0)), (2, (1, 0, 0)), (2, (0, 2, 0)), (3, (0, 0, 0)), (2, (0, 3, 0)), (1, (2, 0, 0)), (3, (1, 0, 2))]
    if tier != "quick":
        out += [(4, (0, 0, 0)), (4, (1, 0, 0)), (3, (0, 4, 0)), (2, (1, 1, 1)), (5, (0, 0, 0))]
    return out


def tasks(tier, seed):
    from ..pyvc.driver import verify
    from ..contracts import misc
    nmax = 12 if tier == "quick" else 24
    ts = [(verify, (misc.CLOSED_LINSPACE, "heavy", "NodeSample.closed_linspace", None)),
          (verify, (misc.OPEN_LINSPACE, "heavy", "NodeSample.open_linspace", None)),
          (verify, (misc.FACTORIAL, "heavy", "Math.factorial", None)), (verify, (misc.COMB, "heavy", "Math.comb", None)),
          (task_memo_frames, ()), (task_orders, (nmax,)), (task_length, ()), (task_integrate_orders, ()), (task_vector_integral, ())]
    for name in FAMILIES:
        ts.append((task_rules, (name, nmax)))
    for p, cells in shapes(tier):
        for variant in ((0, 1) if tier == "quick" else (0, 1, 2)):
            ts.append((task_integrate, (p, cells, variant)))
    return ts


def replay(o):
    w = o["witness"]
    if w.get("kind") == "c10.length":
        rs = [x for x in task_length() if "id" in x and x["status"] == FAILED]
        return bool(rs), "the length of the polyline (sum of its segment lengths)", rs[0]["detail"] if rs else "all polyline lengths correct"
    if w.get("kind") == "c10.integ-order":
        r = [x for x in task_integrate_orders() if "id" in x and x["id"].endswith("[nnodes=%d]" % w["n"])][0]
        return r["status"] == FAILED, "same result whatever rule was used before", r["detail"]
    if w["kind"] == "c10.rule":
        try:
            facts, rule = rule_facts(w["family"], w["n"])
        except Exception as e:
            return True, "an interpolatory rule", "%s: %s" % (type(e).__name__, str(e)[:120])
        return any(v is False for v in facts.values()), "exact to order, nodes in [0,1] increasing, weights sum to 1", dict(facts=facts, nodes=rule[0], weights=rule[1])
    if w["kind"] == "c10.order":
        pairs_ = [(name, n) for name in FAMILIES for n in range(FAMILIES[name][2], 9)]
        a = _order_run([[x, y, z] for x, y in pairs_ for z in ("x", "w")])
        b = _order_run([[x, y, z] for x, y in pairs_ for z in ("w", "x")])
        diff = [k for k in a if a[k] != b[k]]
        return bool(diff), "the same rule whichever of nodes / weights is requested first (fresh interpreters)", \
            dict(differs=diff[:4], nodes_first={k: a[k] for k in diff[:2]}, weights_first={k: b[k] for k in diff[:2]})
    if w["kind"] == "c10.vector":
        r = [x for x in task_vector_integral() if "id" in x and x["id"].endswith("[%s,%s]" % (w["case"], w["method"] or "default"))][0]
        return r["status"] == "failed", "the integral formula in every coordinate", r["detail"]
    if w["kind"] == "c10.integrate":
        p, cells, variant = w["p"], tuple(w["cells"]), w["variant"]
        U = vec(p, cells, variant)
        n = len(U) - p - 1
        P = [F((-1) ** i * (i + 2), 3) for i in range(n)]
        C = curves.Curve(list(U), P)
        want = sum(P[i] * (U[i + p + 1] - U[i]) for i in range(n)) / (p + 1)
        method = (o.get("tags") or {}).get("method")
        if "function-" in o.get("id", "") or "no-exception" in o.get("id", ""):
            # the clauses on Integrate.function: defaults, and a per-span polynomial with the default method (concrete coefficients)
            kv = knotspace.KnotVector(list(U))
            cs = [F(k + 2, 3) for k in range(p + 2)]
            a, b = U[0], U[-1]
            cuts = sorted(set(U))

            def f_piece(u):
                k = max(i for i, x in enumerate(cuts[:-1]) if x <= u) if u < cuts[-1] else len(cuts) - 2
                return sum((c + k) * (k + 1) * u ** j for j, c in enumerate(cs[:p + 1]))
            want_low = sum(c * (b ** (k + 1) - a ** (k + 1)) / (k + 1) for k, c in enumerate(cs[:p + 1]))
            want_p = sum(sum((c + k) * (k + 1) * (hi ** (j + 1) - lo ** (j + 1)) / (j + 1) for j, c in enumerate(cs[:p + 1])) for k, (lo, hi) in enumerate(zip(cuts[:-1], cuts[1:])))
            try:
                got_low = calculus.Integrate.function(kv, lambda u: sum(c * u ** k for k, c in enumerate(cs[:p + 1])))
                got_p = calculus.Integrate.function(kv, f_piece, None, p + 1)
            except Exception as e:
                return True, dict(defaults=want_low, per_span=want_p), "%s: %s" % (type(e).__name__, str(e)[:100])
            return (got_low != want_low or got_p != want_p), dict(U=U, coefficients=cs, defaults=want_low, per_span=want_p), dict(defaults=got_low, per_span=got_p)
        try:
            got = calculus.Integrate.scalar(C, None, method) if method else calculus.Integrate.scalar(C)
        except Exception as e:
            return True, want, "%s: %s" % (type(e).__name__, str(e)[:100])
        bad = abs(F(got) - want) > F(1, 10 ** 9) if isinstance(got, float) else got != want
        return bad, dict(U=U, P=P, method=method or "default", integral=want), got
    return False, "see verifier output", "not replayed"


INFO = dict(
    assumptions=A.S_COMMON + [A.A4], trusted_base=A.TRUSTED, min_obligations=80, level="other",
    explanation="C10: closed/open linspace closed forms proved for all n by engine V; the memo tables are proved (frame analysis over the AST) to be written "
                "only by their getter, only at key npts => the rule for n depends on n alone, for every call order; exactness to order, weights summing to 1 and "
                "ordered nodes are exact arithmetic per n up to the bound (bounded, NOT a proof over n); Integrate.scalar / Integrate.function with symbolic "
                "control points / integrand coefficients on concrete knot vectors against the closed form; Integrate.lenght on 3-4-5 polylines (concrete).",
    functions=["heavy.NodeSample.closed_linspace (V)", "heavy.NodeSample.open_linspace (V)", "heavy.NodeSample.chebyshev/gauss_legendre",
               "heavy.IntegratorArray.closed_newton_cotes/open_newton_cotes/chebyshev/gauss_legendre (F + per-n)", "heavy.IntegratorArray.interpolate_bezier",
               "heavy.IntegratorArray.bezier_integrator_array", "calculus.Integrate.scalar", "calculus.Integrate.function", "calculus.Integrate.lenght"],
)


def info(tier, seed, obs):
    return dict(bounds="tier %s: every rule family for n <= %d; 3 call orders; %d spline shapes x %d knot-value grids, all four methods" % (
        tier, 12 if tier == "quick" else 24, len(shapes(tier)), 2 if tier == "quick" else 3))
