"""C17 — KnotVector union / intersection give the common refinement / common coarsening."""
from __future__ import annotations

from fractions import Fraction
from itertools import product

import z3

from .. import assume as A
from .. import spec
from ..report import FAILED, PROVED, ob
from ..env import heavy, knotspace
from ..symx import harness as H
from ..symx.sym import Sym

PROP = "C17"


def joint_shapes(pmax, m, pmin=0, same_degree=False):
    """(p, q, ((mU, mV), …)) for m distinct interior knot positions; each position is used by at least one vector."""
    out = []
    for p in range(pmin, pmax + 1):
        for q in range(pmin, pmax + 1):
            if same_degree and p != q:
                continue
            cells = [(a, b) for a in range(0, p + 2) for b in range(0, q + 2) if a or b]
            for combo in product(cells, repeat=m):
                out.append((p, q, tuple(combo)))
    return out


def tier_joint(tier):
    if tier == "quick":
        return joint_shapes(2, 0) + joint_shapes(2, 1) + [s for s in joint_shapes(1, 2)] + \
            [(2, 1, ((1, 0), (0, 1))), (2, 2, ((2, 1), (1, 3))), (1, 2, ((2, 0), (1, 2))), (0, 2, ((1, 1), (0, 2)))]
    return joint_shapes(3, 0) + joint_shapes(3, 1) + joint_shapes(2, 2) + [s for s in joint_shapes(1, 3)]


def jtag(js):
    p, q, cells = js
    return "p=%d,q=%d,m=%s" % (p, q, ";".join("%d/%d" % c for c in cells) or "-")


def joint_vectors(js, ks):
    p, q, cells = js
    U = [ks[0]] * (p + 1)
    V = [ks[0]] * (q + 1)
    for g, (a, b) in zip(ks[1:-1], cells):
        U += [g] * a
        V += [g] * b
    U += [ks[-1]] * (p + 1)
    V += [ks[-1]] * (q + 1)
    return U, V


def spec_union(js, ks):
    p, q, cells = js
    P = max(p, q)
    R = [ks[0]] * (P + 1)
    for g, (a, b) in zip(ks[1:-1], cells):
        need = 0
        if a:
            need = max(need, a + P - p)
        if b:
            need = max(need, b + P - q)
        R += [g] * need
    R += [ks[-1]] * (P + 1)
    return R, P


def spec_inter(js, ks):
    p, q, cells = js
    assert p == q
    R = [ks[0]] * (p + 1)
    for g, (a, b) in zip(ks[1:-1], cells):
        R += [g] * min(a, b)
    R += [ks[-1]] * (p + 1)
    return R


def vec_pairs(label, got, exp):
    prs = [("%s.len" % label, len(got), len(exp))]
    if len(got) == len(exp):
        prs += [("%s[%d]" % (label, i), a, b) for i, (a, b) in enumerate(zip(got, exp))]
    return prs


def jnames(js):
    return ["k%d" % i for i in range(len(js[2]) + 2)]


def jctx(js, extra=()):
    return H.new_ctx((0, tuple(1 for _ in js[2])), list(extra))


def task_union(js):
    p, q, cells = js
    ctx = jctx(js, ["e"])
    ctx.base.append(ctx.zv["e"] >= ctx.zv["k%d" % (len(cells) + 1)] + z3.RealVal(str(H.SEP)))
    fn = "heavy.ImmutableKnotVector.__or__"

    def body(chk):
        ks = [ctx.sym(n) for n in jnames(js)]
        U, V = joint_vectors(js, ks)
        R, P = spec_union(js, ks)
        IU = chk.call(heavy.ImmutableKnotVector, U)
        IV = chk.call(heavy.ImmutableKnotVector, V)
        got = chk.call(lambda: IU | IV)
        chk.identities("post-union", vec_pairs("U|V", list(got), R) + [("degree", got.degree, P)])
        got2 = chk.call(lambda: IV | IU)
        chk.identities("commutative", vec_pairs("V|U", list(got2), list(got)))
        chk.identities("idempotent", vec_pairs("U|U", list(chk.call(lambda: IU | IU)), U))
        chk.identities("operands-unchanged", vec_pairs("U", list(IU), U) + vec_pairs("V", list(IV), V))
        # facade: KnotVector |, |= ; operand objects keep their payload
        KU, KV = chk.call(knotspace.KnotVector, U), chk.call(knotspace.KnotVector, V)
        before = (KU.internal, KV.internal)
        K = chk.call(lambda: KU | KV)
        chk.identities("facade-union", vec_pairs("KU|KV", list(K), R) + [("degree", K.degree, P), ("npts", K.npts, len(R) - P - 1)])
        chk.add("facade-operands-unchanged", KU.internal is before[0] and KV.internal is before[1] and K is not KU and K is not KV,
                "| returns a new object and leaves both operands' payload objects in place")
        K2 = chk.call(knotspace.KnotVector, U)

        def ior():
            nonlocal K2
            K2 |= KV
        chk.call(ior)
        chk.identities("facade-ior", vec_pairs("KU|=KV", list(K2), R))
        # different intervals are refused
        e = ctx.sym("e")
        V2 = [x if x is not ks[-1] else e for x in V]
        IV2 = chk.call(heavy.ImmutableKnotVector, V2)
        try:
            r = chk.call(lambda: IU | IV2)
            chk.add("different-interval-raises", False, "no exception; result %s" % (tuple(r),))
        except ValueError:
            chk.add("different-interval-raises", True, "ValueError")
        KV2 = chk.call(knotspace.KnotVector, V2)
        K3 = chk.call(knotspace.KnotVector, U)
        keep = K3.internal
        try:
            def ior2():
                nonlocal K3
                K3 |= KV2
            chk.call(ior2)
            chk.add("facade-different-interval-raises", False, "no exception")
        except ValueError:
            chk.add("facade-different-interval-raises", K3.internal is keep, "ValueError and the left operand keeps its payload")
        if p == q:
            Rn = spec_inter(js, ks)
            g = chk.call(lambda: IU & IV)
            chk.identities("post-intersection", vec_pairs("U&V", list(g), Rn) + [("degree", g.degree, p)])
            chk.identities("intersection-commutative", vec_pairs("V&U", list(chk.call(lambda: IV & IU)), list(g)))
            chk.identities("intersection-idempotent", vec_pairs("U&U", list(chk.call(lambda: IU & IU)), U))
            Kn = chk.call(lambda: KU & KV)
            chk.identities("facade-intersection", vec_pairs("KU&KV", list(Kn), Rn))
            chk.add("facade-operands-unchanged-and", KU.internal is before[0] and KV.internal is before[1], "operands untouched by &")
            try:
                r = chk.call(lambda: IU & IV2)
                chk.add("and-different-interval-raises", False, "no exception")
            except ValueError:
                chk.add("and-different-interval-raises", True, "ValueError")

    return H.run_paths(ctx, fn, "S-sym", jtag(js), dict(kind="c17", js=js), body)


task_union.contract_fn = "heavy.ImmutableKnotVector.__or__"


# --------------------------------------------------------------------------------------
# engine B: operands on different intervals are refused - including a proper SUB-interval whose ends are full-multiplicity knots of the other operand
# --------------------------------------------------------------------------------------
def task_intervals():
    fn = "heavy.ImmutableKnotVector.__or__"
    from fractions import Fraction as F
    from ..env import knotspace
    KVc = knotspace.KnotVector
    pairs = [
        ([0, 0, 1, 1, 2, 2, 3, 3], [1, 1, 2, 2]), ([0, 0, 0, 1, 2, 2, 2, 4, 4, 4], [0, 0, 0, 1, 1, 2, 2, 2]), ([0, 0, 1, 1], [0, 0, 2, 2]),
        ([0, 0, 1, 1], [1, 1, 2, 2]), ([0, 1, 2, 3], [1, 2]), ([0, 1, 2, 3], [0, 1, 2]), ([-1, -1, -1, 0, 0, 0, 5, 5, 5], [0, 0, 0, 5, 5, 5]),
        ([0, 0, 1, 1], [F(1, 2), F(1, 2), 1, 1]), ([0, 0, 0, 1, 1, 1], [0, 0, 1 + F(1, 10 ** 12), 1 + F(1, 10 ** 12)]),
    ]
    ops = {"|": lambda a, b: a | b, "&": lambda a, b: a & b, "|=": lambda a, b: a.__ior__(b), "&=": lambda a, b: a.__iand__(b)}
    bad, cases = [], 0
    for U, V in pairs:
        for x, y in ((U, V), (V, U)):
            for name, op in ops.items():
                for wrap in ("KnotVector", "list"):
                    a = KVc([F(t) for t in x])
                    b = KVc([F(t) for t in y]) if wrap == "KnotVector" else [F(t) for t in y]
                    before = tuple(a)
                    cases += 1
                    try:
                        r = op(a, b)
                        bad.append(("%s %s %s (%s)" % (x, name, y, wrap), "returned %s" % (tuple(map(str, r)),)))
                    except ValueError:
                        if tuple(a) != before:
                            bad.append(("%s %s %s (%s)" % (x, name, y, wrap), "ValueError but the left operand changed"))
                    except Exception as e:
                        bad.append(("%s %s %s (%s)" % (x, name, y, wrap), "%s instead of ValueError" % type(e).__name__))
    if bad:
        return [ob("%s:different-intervals-refused" % fn, fn, FAILED, "B", "concrete", 0.0,
                   "%d of %d requests on different intervals not refused with ValueError; first: %s: %s" % (len(bad), cases, bad[0][0], bad[0][1]),
                   dict(kind="c17.intervals"))]
    return [ob("%s:different-intervals-refused" % fn, fn, PROVED, "B", "concrete", 0.0,
               "%d requests (| & |= &=, both operand orders, KnotVector / list operand) on 9 pairs of different intervals incl. sub-intervals ending at "
               "full-multiplicity knots: ValueError, left operand unchanged" % cases), {"_stats": dict(cases=cases)}]


task_intervals.contract_fn = "heavy.ImmutableKnotVector.__or__"


def tasks(tier, seed):
    from ..pyvc.driver import verify
    from ..contracts import facade, facade2, kvor
    # engine V, all vectors: `U | V` / `U & V` return a NEW object on the operands' interval and leave the operand's payload in place; `|=` / `&=`
    # install the result atomically (the values of the merge are decided per joint shape below)
    ts = [(verify, (c, m, q, v)) for c, m, q, v in facade2.ALL if c.name.endswith(("__or__", "__and__"))]
    ts += [(verify, (c, m, q, v)) for c, m, q, v in facade.ALL if c.name.endswith(("__ior__", "__iand__"))]
    # the multiplicity rule itself, for vectors of every length and degree: per distinct knot max(mult + degree raise) for |, min(mult) for &
    ts += [(verify, (c, m, q, v)) for c, m, q, v in kvor.ALL]
    return ts + [(task_intervals, ())] + [(task_union, (js,)) for js in tier_joint(tier)]


def replay(o):
    w = o["witness"]
    if w.get("kind") == "c17.intervals":
        r = task_intervals()[0]
        return r["status"] == FAILED, "ValueError for operands on different intervals", r["detail"]
    js = (w["js"][0], w["js"][1], tuple(tuple(c) for c in w["js"][2]))
    pt = H.frac_point(w["point"])
    ks = [pt["k%d" % i] for i in range(len(js[2]) + 2)]
    U, V = joint_vectors(js, ks)
    R, P = spec_union(js, ks)
    out = {}
    bad = False
    try:
        KU, KV = knotspace.KnotVector(U), knotspace.KnotVector(V)
        g = KU | KV
        out["U|V"] = tuple(g)
        bad |= list(g) != R or g.degree != P
        g2 = KV | KU
        bad |= list(g2) != R
        if js[0] == js[1]:
            Rn = spec_inter(js, ks)
            h = KU & KV
            out["U&V"] = tuple(h)
            bad |= list(h) != Rn
            out["expected U&V"] = Rn
        V2 = [x if x != ks[-1] else pt["e"] for x in V]
        try:
            r = KU | knotspace.KnotVector(V2)
            out["different interval"] = tuple(r)
            bad = True
        except ValueError:
            pass
    except Exception as e:
        return True, dict(U=U, V=V, union=R), "%s: %s" % (type(e).__name__, e)
    return bad, dict(U=U, V=V, union=R, degree=P), out


INFO = dict(
    assumptions=A.S_COMMON + [A.A10, A.A12], trusted_base=A.TRUSTED, min_obligations=100, level="other",
    explanation="C17: U|V and U&V against the closed-form multiplicity merge for every joint shape (degrees, per-knot multiplicity pairs, "
                "shared and distinct knots), commutativity, idempotence, operands untouched, facade operators, different intervals refused.",
    functions=["heavy.ImmutableKnotVector.__or__", "heavy.ImmutableKnotVector.__and__", "knotspace.KnotVector.__or__/__and__/__ior__/__iand__"],
)


def info(tier, seed, obs):
    return dict(bounds="tier %s: degrees p,q <= %s; up to %s distinct interior knot positions, each with every multiplicity pair (0..p+1, 0..q+1)" % (
        tier, "2" if tier == "quick" else "3", "1 (2 for p,q<=1 and selected pairs)" if tier == "quick" else "1 at degree 3, 2 at degree <=2, 3 at degree <=1"))
