"""C18 — generators and affine maps produce exactly the advertised knot vectors."""
from __future__ import annotations

import itertools
from fractions import Fraction

import numpy as np
import z3

from .. import assume as A
from .. import spec
from ..env import curves, heavy, knotspace
from ..report import FAILED, PROVED, ob
from ..symx import harness as H
from ..symx.sym import Sym
from .c01 import stag

PROP = "C18"
F = Fraction
G = knotspace.GeneratorKnotVector
KV = knotspace.KnotVector


def same_type(vals, cls):
    if cls is float:
        return all(isinstance(v, float) for v in vals)
    if cls is int:
        return all(isinstance(v, (int, np.integer)) and not isinstance(v, bool) for v in vals)
    return all(isinstance(v, cls) for v in vals)


class _Raised(tuple):
    """What a generator call left behind when it raised: compares unequal to every expected vector, so the case is recorded as a difference."""
    degree = npts = None


def _gen(f, *a):
    try:
        return f(*a)
    except Exception as e:       # an exception of the code under contract is a failed obligation of that case, not a crash of the check
        return _Raised(("%s: %s" % (type(e).__name__, str(e)[:60]),))


def task_generators(pmax, extra):
    """Closed forms for every (degree, npts, cls) up to the bound (bounded stand-in for the V proof over all p, n)."""
    out = []
    bad = {"bezier": [], "integer": [], "uniform": [], "weight": [], "random": []}
    count = 0
    for p in range(pmax + 1):
        for cls in (int, float, Fraction):
            count += 1
            k = _gen(G.bezier, p, cls)
            if list(k) != [0] * (p + 1) + [1] * (p + 1) or k.degree != p or k.npts != p + 1 or not same_type(list(k), cls):
                bad["bezier"].append((p, cls.__name__, tuple(k)))
            for n in range(p + 1, p + 1 + extra):
                count += 1
                m = n - p - 1
                k = _gen(G.integer, p, n, cls)
                want = [0] * p + list(range(m + 2)) + [m + 1] * p
                if list(k) != want or k.degree != p or k.npts != n or not same_type(list(k), cls):
                    bad["integer"].append((p, n, cls.__name__, tuple(k)))
                if cls is not int:
                    k = _gen(G.uniform, p, n, cls)
                    wantu = [F(x, m + 1) for x in want]
                    ok = not isinstance(k, _Raised) and k.degree == p and k.npts == n and len(k) == len(wantu) and k[0] == 0 and k[-1] == 1 and \
                        all((F(a) == b) if cls is Fraction else abs(float(a) - float(b)) <= 1e-15 for a, b in zip(k, wantu)) and same_type(list(k), cls)
                    if cls is Fraction:
                        ok = ok and all(F(k[i + 1]) - F(k[i]) == F(1, m + 1) for i in range(p, n))
                    if not ok:
                        bad["uniform"].append((p, n, cls.__name__, tuple(k)))
    for kind, b in bad.items():
        if kind in ("weight", "random"):
            continue
        fn = "knotspace.GeneratorKnotVector." + kind
        out.append(ob("%s:closed-form[p<=%d,npts<=p+%d]" % (fn, pmax, extra), fn, FAILED if b else PROVED, "B", "exhaustive-enumeration", 0.0,
                      ("%d cases differ, first %s" % (len(b), b[0])) if b else "every (degree, npts, cls in int/float/Fraction) up to the bound equals the closed form, "
                      "degree / npts / number class as requested, interval exactly [0,1] for bezier/uniform",
                      dict(kind="c18.gen", gen=kind, case=[str(x) for x in b[0]]) if b else None))
    # weight(p, w): clamped, spacing w, type of the weights
    bw = []
    for p in range(0, 4):
        for ws in ([1], [2], [1, 2], [F(1, 3), F(5, 2), F(1, 7)], [2.5, 0.25, 1.0, 4.0], [3, 1, 1, 2, 5],
                   # weight vectors of MIXED number classes: the knot spacing is still exactly w (no truncation to the class of the first weight)
                   [1, F(1, 2), F(3, 2)], [F(1, 2), 1, 2], [2, 0.5, 1.25], [1, 2, F(7, 3), 1]):
            k = _gen(G.weight, p, list(ws))
            acc = [type(ws[0])(0)]
            for w in ws:
                acc.append(acc[-1] + w)
            want = [acc[0]] * p + acc + [acc[-1]] * p
            mixed = len({type(w) for w in ws}) > 1
            if isinstance(k, _Raised) or list(k) != want or k.degree != p or k.npts != p + len(ws) or any(k[p + i + 1] - k[p + i] != ws[i] for i in range(len(ws))) or \
                    not (mixed or same_type(list(k), type(ws[0]))):
                bw.append((p, ws, tuple(k)))
    fn = "knotspace.GeneratorKnotVector.weight"
    out.append(ob("%s:closed-form" % fn, fn, FAILED if bw else PROVED, "B", "enumeration", 0.0,
                  ("differs: %s" % (bw[0],)) if bw else "prefix sums of the weights, clamped with degree+1 copies, knot spacing == w, degree and npts as requested",
                  dict(kind="c18.gen", gen="weight", case=[str(x) for x in bw[0]]) if bw else None))
    # random(p, n): every draw of randint is covered by patching it with adversarial draws (all equal, extremes, increasing)
    br = []
    orig = np.random.randint
    try:
        for p in range(0, 4):
            for n in (p + 1, p + 2, p + 4):
                m = n - p
                for draw in ([1] * m, [999] * m, [1, 999] * m, list(range(1, m + 1)), [999] + [1] * m, [500, 1, 999, 2, 777, 3]):
                    d = np.array((draw * m)[:m])
                    np.random.randint = lambda lo, hi, size, d=d: d
                    for cls in (float, Fraction):
                        k = G.random(p, n, cls)
                        tot = sum(int(x) for x in d)
                        acc = [0]
                        for w in d:
                            acc.append(acc[-1] + int(w))
                        want = [F(0)] * p + [F(a, tot) for a in acc] + [F(1)] * p
                        ok = k.degree == p and k.npts == n and len(k) == len(want) and k[0] == 0 and k[-1] == 1 and same_type(list(k), cls) and \
                            all((F(a) == b) if cls is Fraction else abs(float(a) - float(b)) <= 1e-15 for a, b in zip(k, want)) and \
                            all(k[i] < k[i + 1] for i in range(p, n))
                        if not ok:
                            br.append((p, n, cls.__name__, list(map(int, d)), tuple(k)))
    finally:
        np.random.randint = orig
    fn = "knotspace.GeneratorKnotVector.random"
    out.append(ob("%s:every-draw" % fn, fn, FAILED if br else PROVED, "B", "enumeration", 0.0,
                  ("differs: %s" % (br[0],)) if br else "for adversarial draws of randint (all equal, extremes, alternating, increasing): clamped, requested degree / npts, "
                  "simple interior knots, interval exactly [0,1]",
                  dict(kind="c18.random", case=[str(x) for x in br[0]]) if br else None))
    return out


task_generators.contract_fn = "knotspace.GeneratorKnotVector"


ADVERSARIAL_DOUBLES = [49.0, 339.5, 3.0, 7.0, 10.0, 0.1, 1e-3, 1234567.0, 2.0 ** 52 + 1, 0.3, 41.0, 47.0, 55.0, 83.0, 97.0, 98.0, 103.0, 107.0, 161.0]


def task_normalize_float():
    """normalize() on doubles maps umax to exactly 1.0 (bounded: doubles d for which d * (1/d) != 1 in IEEE arithmetic + generator cases)."""
    fn = "knotspace.KnotVector.normalize"
    bad = []
    cases = 0
    recips = [d for d in ADVERSARIAL_DOUBLES if d * (1 / d) != 1.0]
    for d in ADVERSARIAL_DOUBLES:
        for lo in (0.0, -1.5, 2.25):
            cases += 1
            k = KV([lo, lo, lo + d / 3, lo + d, lo + d])
            k.normalize()
            if k[0] != 0.0 or k[-1] != 1.0 or k.degree != 1 or k.npts != 3:
                bad.append(("KnotVector([%r, %r, %r, %r, %r]).normalize()" % (lo, lo, lo + d / 3, lo + d, lo + d), tuple(k)))
    for p in range(0, 4):
        for n in range(p + 1, 60):
            cases += 1
            k = G.uniform(p, n, float)
            if k.limits != (0.0, 1.0):
                bad.append(("uniform(%d, %d, float).limits" % (p, n), k.limits))
    return [ob("%s:float-interval-exactly-unit" % fn, fn, FAILED if bad else PROVED, "B", "concrete-IEEE", 0.0,
               ("%d of %d cases: %s -> %s" % (len(bad), cases, bad[0][0], bad[0][1])) if bad else
               "%d cases (including %d doubles with d*(1/d) != 1): umin == 0.0 and umax == 1.0 exactly" % (cases, len(recips)),
               dict(kind="c18.float", case=bad[0][0]) if bad else None)]


task_normalize_float.contract_fn = "knotspace.KnotVector.normalize"


def task_affine(shape):
    """shift / scale / normalize keep degree, npts, multiplicities, map every knot affinely; basis functions are invariant."""
    p, mults = shape
    n = p + 1 + sum(mults)
    nk = len(mults) + 2
    out = []
    fn = "knotspace.KnotVector.scale"
    for pos in H.positions(shape):
        ctx = H.new_ctx(shape, ["t", "s", "a"])
        t = H.constrain_param(ctx, shape, "t", pos)
        ctx.base += [ctx.zv["s"] >= 1]

        def body(chk, ctx=ctx, t=t, pos=pos):
            U, ks = H.sym_vector(ctx, shape)
            s, a = ctx.sym("s"), ctx.sym("a")
            k = chk.call(KV, list(U))
            chk.call(lambda: (k.knots, k.limits))          # inspected first: answers after the maps must not be stale
            chk.call(k.scale, s)
            kn_s = chk.call(lambda: k.knots)               # checked after EACH map (a later map may repair a stale answer)
            chk.identities("scaled-distinct-knots", [("nknots", len(kn_s), nk)] + [("knots[%d]" % i, g, w * s) for i, (g, w) in enumerate(zip(kn_s, ks))] +
                           [("limits[%d]" % i, g, w * s) for i, (g, w) in enumerate(zip(chk.call(lambda: k.limits), (ks[0], ks[-1])))])
            chk.call(k.shift, a)
            want = [u * s + a for u in U]
            got = list(k)
            chk.identities("affine-knots", [("len", len(got), len(want)), ("degree", k.degree, p), ("npts", k.npts, n)] +
                           [("U[%d]" % i, g, w) for i, (g, w) in enumerate(zip(got, want))])
            kn = chk.call(lambda: k.knots)
            chk.identities("affine-distinct-knots", [("nknots", len(kn), nk)] + [("knots[%d]" % i, g, w * s + a) for i, (g, w) in enumerate(zip(kn, ks))])
            mm = chk.call(k.mult, tuple(kn))
            chk.identities("affine-multiplicities", [("nknots", len(kn), nk)] + [("mult[%d]" % i, m, w) for i, (m, w) in enumerate(zip(mm, [p + 1] + list(mults) + [p + 1]))])
            # invariance of the basis: N_i over sU+a at st+a equals N_i over U at t (real evaluation code on both)
            M1 = chk.call(heavy.eval_spline_nodes, tuple(U), (t,), p)
            M2 = chk.call(heavy.eval_spline_nodes, tuple(got), (s * t + a,), p)
            chk.identities("basis-invariant", [("N_%d" % i, M2[i][0], M1[i][0]) for i in range(n)])
            P = [ctx.const(F(i * i - 3, 2)) for i in range(n)]
            c1 = chk.call(curves.Curve, list(U), P)
            c2 = chk.call(curves.Curve, got, P)
            chk.identities("curve-invariant", [("C", chk.call(c2, s * t + a), chk.call(c1, t))])

        out += H.run_paths(ctx, fn, "S-sym", stag(shape, pos), dict(kind="c18.affine", shape=shape, pos=pos, task=("c18", "task_affine", [shape])), body)
    # normalize: exactly [0, 1]
    ctx = H.new_ctx(shape, ["t"])
    ctx.base.append(ctx.zv["k%d" % (nk - 1)] - ctx.zv["k0"] <= 1)

    def body_n(chk):
        U, ks = H.sym_vector(ctx, shape)
        k = chk.call(KV, list(U))
        chk.call(lambda: (k.knots, k.limits))
        r = chk.call(k.normalize)
        L = ks[-1] - ks[0]
        want = [(u - ks[0]) / L for u in U]
        chk.identities("normalize", [("U[%d]" % i, g, w) for i, (g, w) in enumerate(zip(list(k), want))] +
                       [("umin", k[0], 0), ("umax", k[-1], 1), ("degree", k.degree, p), ("npts", k.npts, n)])
        kn = chk.call(lambda: k.knots)
        chk.identities("normalize-distinct-knots", [("knots[%d]" % i, g, (w - ks[0]) / L) for i, (g, w) in enumerate(zip(kn, ks))])
        chk.add("normalize-returns-self", r is k, "normalize returns the same instance")
        chk.exact("normalize-exact", list(k))

    out += H.run_paths(ctx, "knotspace.KnotVector.normalize", "S-sym", stag(shape, None, ",normalize"), dict(kind="c18.normalize", shape=shape, task=("c18", "task_affine", [shape])), body_n)
    return out


task_affine.contract_fn = "knotspace.KnotVector.scale"


def tasks(tier, seed):
    ts = [(task_generators, (5 if tier == "quick" else 8, 8 if tier == "quick" else 14)), (task_normalize_float, ())]
    from ..pyvc.driver import verify
    from ..contracts import facade
    ts += [(verify, (c, m, q, v)) for c, m, q, v in facade.ALL if any(x in c.name for x in ("shift", "scale", "normalize", "__imul__"))]
    from ..contracts import facade2
    ts += [(verify, (c, m, q, v)) for c, m, q, v in facade2.ALL if any(x in c.name for x in ("__add__[number]", "__sub__[number]", "__mul__", "__rmul__", "__truediv__"))]
    from ..contracts import gens
    ts += [(verify, (c, m, q, v)) for c, m, q, v in gens.ALL]
    shapes = spec.knot_shapes(2, 1) + [(3, (2,)), (1, (1, 2))] if tier == "quick" else spec.knot_shapes(3, 2)
    for sh in shapes:
        ts.append((task_affine, (sh,)))
    return ts


def replay(o):
    w = o["witness"]
    if w["kind"] == "c18.float":
        # the case is a Python expression over KnotVector / GeneratorKnotVector
        r = eval(w["case"], {"KnotVector": KV, "uniform": G.uniform, "float": float})
        lim = (r[0], r[-1]) if hasattr(r, "degree") else r
        return tuple(lim) != (0.0, 1.0), (0.0, 1.0), tuple(lim)
    if w.get("task"):
        return H.generic_replay(o)
    if w["kind"] == "c18.gen":
        # re-run the enumeration of the generators and report the obligation of that generator
        r = [x for x in task_generators(5, 8) if "id" in x and x["id"].startswith("knotspace.GeneratorKnotVector.%s:" % w["gen"])]
        bad = [x for x in r if x["status"] == FAILED]
        return bool(bad), "the closed form of %s for every enumerated case" % w["gen"], (bad[0]["detail"] if bad else "all enumerated cases agree")
    return False, "see verifier output", "not replayed"


INFO = dict(
    assumptions=A.S_COMMON + [A.A10, A.A12], trusted_base=A.TRUSTED, min_obligations=30, level="other",
    explanation="C18: engine V proves the generator closed forms for all degrees / npts / positive weight vectors and every randint draw, and shift / scale / "
                "normalize for all vectors (the constructor is used by contract there, A10). In addition: generator closed forms enumerated for every (degree, npts, number class) up to a bound and for adversarial randint draws (bounded); shift / "
                "scale / normalize with symbolic knots, shift and scale: every knot mapped affinely, degree / npts / multiplicities kept, normalize onto exactly "
                "[0,1] for exact numbers; invariance of basis functions and curves under s*U+a (the real evaluation code on both symbolic vectors); the float "
                "clause 'umax == 1.0 exactly' on doubles d with d*(1/d) != 1 (concrete IEEE, bounded).",
    functions=["knotspace.GeneratorKnotVector.bezier/integer/weight/uniform/random (V: closed forms for ALL degrees, npts, positive weight vectors and every randint draw)",
               "knotspace.KnotVector.shift/scale/normalize/__imul__ (V: affine image, degree/npts kept, exactly [0,1], atomic)", "knotspace.KnotVector.shift/scale/normalize", "heavy.eval_spline_nodes", "curves.Curve.eval"],
)


def info(tier, seed, obs):
    return dict(bounds="tier %s: generators for degree <= %d and npts <= degree+%d, three number classes; affine maps on %s symbolic shapes" % (
        tier, 5 if tier == "quick" else 8, 8 if tier == "quick" else 14, "p<=2 with <=1 interior knot (+2)" if tier == "quick" else "p<=3 with <=2 interior knots"))
