"""C01 — curve evaluation equals the B-spline / NURBS definition at every parameter."""
from __future__ import annotations

import time
from fractions import Fraction

import numpy as np

from .. import spec
from ..env import heavy, curves
from ..report import PROVED, FAILED, ob
from ..symx import harness as H
from ..symx.sym import Sym

PROP = "C01"


def tier_shapes(tier):
    if tier == "quick":
        sh = spec.knot_shapes(3, 1) + [s for s in spec.knot_shapes(2, 2) if len(s[1]) == 2]
    else:
        sh = spec.knot_shapes(4, 2) + [s for s in spec.knot_shapes(2, 3) if len(s[1]) == 3]
    return sh


def stag(shape, pos=None, extra=""):
    s = "p=%d,m=%s" % (shape[0], ",".join(map(str, shape[1])) or "-")
    if pos is not None:
        s += ",u=%s%d" % pos
    return s + extra


# --------------------------------------------------------------------------------------
# heavy.BasisFunction.speval_matrix : coefficient tables
# --------------------------------------------------------------------------------------
def task_speval(shape):
    p, mults = shape
    ctx = H.new_ctx(shape, ["tau"])
    fn = "heavy.BasisFunction.speval_matrix"

    def body(chk):
        U, ks = H.sym_vector(ctx, shape)
        tau = ctx.sym("tau")
        for j in range(p + 1):
            M = chk.call(heavy.BasisFunction.speval_matrix, tuple(U), j)
            nspans = len(ks) - 1
            pairs = []
            ok_shape = len(M) == nspans and all(len(M[z]) == j + 1 and all(len(r) == j + 1 for r in M[z]) for z in range(nspans))
            chk.add("shape,j=%d" % j, ok_shape, "table is (spans=%d) x (j+1) x (j+1)" % nspans)
            if not ok_shape:
                continue
            for z in range(nspans):
                kspec = H.spec_span_of(shape, ("open", z))
                u = ks[z] + (ks[z + 1] - ks[z]) * tau
                N = spec.cdb(U, j, kspec, u)
                for y in range(j + 1):
                    i = y + kspec - j
                    val = _horner(M[z][y], tau)
                    pairs.append(("span%d,y=%d" % (z, y), val, N[i]))
            chk.identities("post,j=%d" % j, pairs)
            chk.exact("exact,j=%d" % j, M)

    return H.run_paths(ctx, fn, "S-sym", stag(shape), dict(kind="c01.speval", shape=shape), body)


def _horner(coefs, x):
    acc = 0 * x
    for c in reversed(list(coefs)):
        acc = acc * x + c
    return acc


# --------------------------------------------------------------------------------------
# heavy.eval_spline_nodes / eval_rational_nodes
# --------------------------------------------------------------------------------------
def task_evalnodes(shape, rational):
    p, mults = shape
    n = p + 1 + sum(mults)
    out = []
    fn = "heavy.eval_rational_nodes" if rational else "heavy.eval_spline_nodes"
    for pos in H.positions(shape):
        wn = ["w%d" % i for i in range(n)] if rational else []
        ctx = H.new_ctx(shape, ["t"] + wn)
        H.positive(ctx, wn)
        t = H.constrain_param(ctx, shape, "t", pos)
        kspec = H.spec_span_of(shape, pos)

        def body(chk, ctx=ctx, t=t, kspec=kspec, wn=wn):
            U, ks = H.sym_vector(ctx, shape)
            N = spec.cdb(U, p, kspec, t)[:n]
            if rational:
                W = [ctx.sym(x) for x in wn]
                den = sum(w * v for w, v in zip(W, N))
                ctx.nonzero_elems = [den.e]     # A8: the weight function has no zero (precondition of C01)
                M = chk.call(heavy.eval_rational_nodes, tuple(U), tuple(W), (t,), p)
                S = [w * v / den for w, v in zip(W, N)]
            else:
                M = chk.call(heavy.eval_spline_nodes, tuple(U), (t,), p)
                S = N
            ok = len(M) == n and all(len(r) == 1 for r in M)
            chk.add("shape", ok, "matrix is npts x len(nodes)")
            if ok:
                chk.identities("post", [("i=%d" % i, M[i][0], S[i]) for i in range(n)])
                chk.exact("exact", M)

        out += H.run_paths(ctx, fn, "S-sym", stag(shape, pos),
                           dict(kind="c01.evalnodes", shape=shape, pos=pos, rational=rational), body)
    return out


# --------------------------------------------------------------------------------------
# curves.Curve.eval / __call__
# --------------------------------------------------------------------------------------
def task_curve(shape, rational, dim):
    p, mults = shape
    n = p + 1 + sum(mults)
    out = []
    fn = "curves.Curve.eval"
    pn = ["P%d_%d" % (i, d) for i in range(n) for d in range(max(dim, 1))]
    for pos in H.positions(shape) + [("below", 0), ("above", 0)]:
        wn = ["w%d" % i for i in range(n)] if rational else []
        ctx = H.new_ctx(shape, ["t"] + wn + pn)
        H.positive(ctx, wn)
        t = H.constrain_param(ctx, shape, "t", pos)
        inside = pos[0] in ("open", "knot")
        kspec = H.spec_span_of(shape, pos) if inside else None

        def body(chk, ctx=ctx, t=t, kspec=kspec, wn=wn, pos=pos, inside=inside):
            U, ks = H.sym_vector(ctx, shape)
            if dim == 0:
                P = [ctx.sym("P%d_0" % i) for i in range(n)]
            else:
                P = [np.array([ctx.sym("P%d_%d" % (i, d)) for d in range(dim)], dtype=object) for i in range(n)]
            W = [ctx.sym(x) for x in wn] if rational else None
            curve = chk.call(curves.Curve, list(U), P, W)
            before = (tuple(curve.knotvector), curve.ctrlpoints, curve.weights)
            if not inside:
                try:
                    val = chk.call(curve, t)
                    chk.add("outside-raises", False, "a parameter outside the interval returned %r" % (val,))
                except ValueError:
                    chk.add("outside-raises", True, "ValueError")
                try:
                    val = chk.call(curve.eval, (ks[0], t))
                    chk.add("outside-raises-seq", False, "a sequence with an outside parameter returned %r" % (val,))
                except ValueError:
                    chk.add("outside-raises-seq", True, "ValueError")
                return
            N = spec.cdb(U, p, kspec, t)[:n]
            k0spec = H.spec_span_of(shape, ("knot", 0))
            N0 = spec.cdb(U, p, k0spec, ks[0])[:n]
            if rational:
                den = sum(w * v for w, v in zip(W, N))
                den0 = sum(w * v for w, v in zip(W, N0))
                ctx.nonzero_elems = [den.e, den0.e]   # A8
                R = [w * v / den for w, v in zip(W, N)]
            else:
                R = N
            expect = sum(r * pt for r, pt in zip(R, P))
            val = chk.call(curve, t)
            pairs = []
            if dim == 0:
                pairs.append(("C(t)", val, expect))
            else:
                okshape = hasattr(val, "__len__") and len(val) == dim
                chk.add("point-shape", okshape, "scalar argument -> one point of dimension %d" % dim)
                if okshape:
                    pairs += [("C(t)[%d]" % d, val[d], expect[d]) for d in range(dim)]
            chk.identities("post-scalar", pairs)
            chk.exact("exact", val)
            # a sequence yields one point per node, in order (second node: the left end)
            if rational:
                R0 = [w * v / den0 for w, v in zip(W, N0)]
            else:
                R0 = N0
            expect0 = sum(r * pt for r, pt in zip(R0, P))
            seq = chk.call(curve.eval, [t, ks[0], t])
            ok = isinstance(seq, tuple) and len(seq) == 3
            chk.add("seq-shape", ok, "sequence of 3 nodes -> tuple of 3 points")
            if ok:
                pairs = []
                for idx, exp in enumerate((expect, expect0, expect)):
                    if dim == 0:
                        pairs.append(("seq[%d]" % idx, seq[idx], exp))
                    else:
                        pairs += [("seq[%d][%d]" % (idx, d), seq[idx][d], exp[d]) for d in range(dim)]
                chk.identities("post-seq", pairs)
            after = (tuple(curve.knotvector), curve.ctrlpoints, curve.weights)
            same = len(before[0]) == len(after[0]) and all(a is b or a.e == b.e for a, b in zip(before[0], after[0])) \
                and before[1] is not None and len(before[1]) == len(after[1])
            chk.add("operand-unchanged", same, "knot vector / control points identical after evaluation")

        out += H.run_paths(ctx, fn, "S-sym", stag(shape, pos, ",%s,dim=%d" % ("rat" if rational else "pol", dim)),
                           dict(kind="c01.curve", shape=shape, pos=pos, rational=rational, dim=dim), body)
    return out


def task_curve_seq(shape, rational):
    """Sequence arguments: one point per node, in order — ascending through every span and knot, descending, length 1."""
    p, mults = shape
    n = p + 1 + sum(mults)
    nk = len(mults) + 2
    tn = ["t%d" % z for z in range(nk - 1)]
    pn = ["P%d_0" % i for i in range(n)]
    wn = ["w%d" % i for i in range(n)] if rational else []
    ctx = H.new_ctx(shape, tn + wn + pn)
    H.positive(ctx, wn)
    for z in range(nk - 1):
        H.constrain_param(ctx, shape, "t%d" % z, ("open", z))
    fn = "curves.Curve.eval"

    def body(chk):
        U, ks = H.sym_vector(ctx, shape)
        P = [ctx.sym(x) for x in pn]
        W = [ctx.sym(x) for x in wn] if rational else None
        ts = [ctx.sym(x) for x in tn]
        nodes, poss = [], []
        for z in range(nk - 1):
            nodes += [ks[z], ts[z]]
            poss += [("knot", z), ("open", z)]
        nodes.append(ks[-1])
        poss.append(("knot", nk - 1))
        exp = []
        dens = []
        for u, pos in zip(nodes, poss):
            N = spec.cdb(U, p, H.spec_span_of(shape, pos), u)[:n]
            if rational:
                den = sum(w * v for w, v in zip(W, N))
                dens.append(den.e)
                exp.append(sum(w * v * pt for w, v, pt in zip(W, N, P)) / den)
            else:
                exp.append(sum(v * pt for v, pt in zip(N, P)))
        ctx.nonzero_elems = dens      # A8
        curve = chk.call(curves.Curve, list(U), P, W)
        for label, order in (("ascending", list(range(len(nodes)))), ("descending", list(range(len(nodes)))[::-1])):
            seq = chk.call(curve.eval, [nodes[i] for i in order])
            ok = isinstance(seq, tuple) and len(seq) == len(order)
            chk.add("seq-shape-" + label, ok, "one point per node")
            if ok:
                chk.identities("post-seq-" + label, [("%s[%d]=%s%d" % ((label, j) + poss[i]), seq[j], exp[i]) for j, i in enumerate(order)])
        one = chk.call(curve.eval, [ts[0]])
        ok1 = isinstance(one, tuple) and len(one) == 1
        chk.add("seq-of-one", ok1, "a sequence of one node yields a tuple of one point (got %s)" % type(one).__name__)
        if ok1:
            chk.identities("post-seq-of-one", [("C([t0])[0]", one[0], exp[1])])
        chk.identities("post-call-seq", [("curve((t0,))[0]", chk.call(curve, (ts[0],))[0], exp[1])] if ok1 else [])

    return H.run_paths(ctx, fn, "S-sym", stag(shape, None, ",seq,%s" % ("rat" if rational else "pol")),
                       dict(kind="c01.seq", shape=shape, rational=rational), body)


task_curve_seq.contract_fn = "curves.Curve.eval"
task_speval.contract_fn = "heavy.BasisFunction.speval_matrix"
task_evalnodes.contract_fn = "heavy.eval_spline_nodes"
task_curve.contract_fn = "curves.Curve.eval"


# --------------------------------------------------------------------------------------
# engine B: histories on one curve object - evaluate, change weights / control points / the knot vector, evaluate again at the SAME parameters
# --------------------------------------------------------------------------------------
def task_curve_history():
    fn = "curves.Curve.eval"
    from fractions import Fraction as F
    out = []
    cases = {"p2": ([F(0)] * 3 + [F(1), F(2)] + [F(3)] * 3, [F(1), F(-2), F(4), F(0), F(3)]), "p1-jump": ([F(-1)] * 2 + [F(0), F(0), F(2)] + [F(5)] * 2, [F(2), F(0), F(1), F(-3), F(4)]),
             "p3": ([F(0)] * 4 + [F(1, 2)] + [F(1)] * 4, [F(1), F(2), F(-1), F(0), F(5)])}
    for name, (U, P) in cases.items():
        p = U.count(U[0]) - 1
        n = len(P)
        ks = sorted(set(U))
        us = ks + [(a + b) / 2 for a, b in zip(ks[:-1], ks[1:])] + [F(1, 7) + ks[0]]
        W1 = [F(i % 3 + 1) for i in range(n)]
        W2 = [F(1, i + 1) for i in range(n)]
        P2 = [x * 2 - 1 for x in P]
        steps = [("fresh", lambda c: None), ("weights-set", lambda c: setattr(c, "weights", list(W1))), ("weights-replaced", lambda c: setattr(c, "weights", list(W2))),
                 ("points-replaced", lambda c: setattr(c, "ctrlpoints", list(P2))), ("weights-removed", lambda c: setattr(c, "weights", None)),
                 ("knot-inserted", lambda c: c.knot_insert([us[-1]])), ("float-parameters-first", None)]
        c = curves.Curve(list(U), list(P))
        cur = dict(U=list(U), P=list(P), W=None)
        bad = None
        for label, step in steps:
            if label == "float-parameters-first":
                c(tuple(float(u) for u in us))          # the same parameters as floats, then exactly: the exact answer must not be a cached float one
            else:
                step(c)
                if label in ("weights-set", "weights-replaced"):
                    cur["W"] = W1 if label == "weights-set" else W2
                elif label == "weights-removed":
                    cur["W"] = None
                elif label == "points-replaced":
                    cur["P"] = P2
            got = c(tuple(us))          # the FIRST call after the change repeats exactly the LAST call before it
            got1 = c(us[1])
            again = c(tuple(us))          # (and leaves the sequence call as the last one before the next change)
            want = [spec.curve_value(cur["U"], p, cur["P"], u, cur["W"]) for u in us]
            if label == "knot-inserted":
                want = [spec.curve_value(list(U), p, P2, u, None) for u in us]
            if list(got) != want or list(again) != want or got1 != want[1] or any(isinstance(x, float) for x in got):
                bad = "after '%s': curve(us) = %s, expected %s" % (label, [str(x) for x in got][:4], [str(x) for x in want][:4])
                break
        out.append(ob("%s:history[%s]" % (fn, name), fn, FAILED if bad else PROVED, "B", "concrete", 0.0,
                      bad or "7 evaluations at the same %d parameters while weights / control points / knot vector change in between: always the current curve, exact" % len(us),
                      dict(kind="c01.history", case=name) if bad else None))
    return out + [{"_stats": dict(cases=len(out) * 7)}]


task_curve_history.contract_fn = "curves.Curve.eval"


# --------------------------------------------------------------------------------------
# --------------------------------------------------------------------------------------
# engine B: positive weights of very small / very large magnitude (the rational curve does not depend on a common factor of its weights): the curve is accepted
# and evaluates to the same values
# --------------------------------------------------------------------------------------
def task_weight_scales():
    from fractions import Fraction as F
    fn = "curves.Curve.eval"
    out = []
    U = [0.0, 0.0, 0.0, 0.25, 1.0, 1.0, 1.0]
    P = [1.0, -2.0, 3.0, 0.5]
    W = [1.0, 2.0, 0.5, 3.0]
    us = [0.0, 0.125, 0.25, 0.6, 1.0]
    base = [curves.Curve(list(U), list(P), list(W))(u) for u in us]
    for label, s_ in (("1e-170", 1e-170), ("1e-250", 1e-250), ("1e100", 1e100), ("Fraction(1,10**30)", F(1, 10 ** 30)), ("2**-600", 2.0 ** -600)):
        bad = None
        try:
            c = curves.Curve(list(U), list(P), [w * s_ if not isinstance(s_, F) else F(w) * s_ for w in W])
            got = [c(u) for u in us]
            if any(abs(float(a) - float(b)) > 1e-9 * max(1.0, abs(float(b))) for a, b in zip(got, base)):
                bad = "values %s, with unscaled weights %s" % ([float(x) for x in got], [float(x) for x in base])
        except Exception as e:
            bad = "%s: %s" % (type(e).__name__, str(e)[:100])
        out.append(ob("%s:weights-scaled[%s]" % (fn, label), fn, FAILED if bad else PROVED, "B", "concrete", 0.0,
                      bad or "accepted, same values as with the unscaled weights", dict(kind="c01.wscale", case=label) if bad else None))
    return out + [{"_stats": dict(cases=len(out))}]


task_weight_scales.contract_fn = "curves.Curve.eval"


def tasks(tier, seed):
    from ..pyvc.driver import verify
    from ..contracts import curvesv, kv, misc
    ts = [(verify, (c, m, q, v)) for c, m, q, v in curvesv.ALL if q == "Curve.eval"] + [(task_curve_history, ()), (task_weight_scales, ())]
    ts += [(verify, (kv.SPAN_SINGLE, "heavy", "ImmutableKnotVector.__span_single")),
          (verify, (kv.VALID_SINGLE, "heavy", "ImmutableKnotVector.__valid_single")),
          (verify, (misc.HORNER, "heavy", "BasisFunction.horner_method"))]
    for sh in tier_shapes(tier):
        ts.append((task_speval, (sh,)))
        ts.append((task_evalnodes, (sh, False)))
        if sh[0] <= 3:          # rational functions in 5+ symbolic weights blow up in the field; degree 4 stays polynomial-only
            ts.append((task_evalnodes, (sh, True)))
        ts.append((task_curve, (sh, False, 0)))
        ts.append((task_curve_seq, (sh, False)))
        if sh[0] <= 2:
            ts.append((task_curve_seq, (sh, True)))
        if (tier != "quick" and sh[0] <= 3) or sh[0] <= 2:
            ts.append((task_curve, (sh, True, 0)))
        if tier != "quick" or sh[0] <= 2:
            ts.append((task_curve, (sh, False, 2)))
        if tier != "quick" and sh[0] <= 3:
            ts.append((task_curve, (sh, True, 2)))
    return ts


# --------------------------------------------------------------------------------------
# replay on the real code with Fractions
# --------------------------------------------------------------------------------------
def concrete_inputs(w):
    pt = H.frac_point(w["point"])
    shape = (w["shape"][0], tuple(w["shape"][1]))
    ks = [pt["k%d" % i] for i in range(len(shape[1]) + 2)]
    U = spec.shape_vector(shape[0], shape[1], ks)
    return shape, pt, U, ks


def replay(o):
    w = o["witness"]
    if w.get("kind") == "c01.wscale":
        r = [x for x in task_weight_scales() if "id" in x and x["id"].endswith("[%s]" % w["case"])][0]
        return r["status"] == FAILED, "accepted and the same values as with the unscaled weights", r["detail"]
    if w.get("kind") == "c01.history":
        r = [x for x in task_curve_history() if "id" in x and x["id"].endswith("[%s]" % w["case"])][0]
        return r["status"] == FAILED, "the value of the CURRENT curve at every step", r["detail"]
    shape, pt, U, ks = concrete_inputs(w)
    p = shape[0]
    n = len(U) - p - 1
    kind = w["kind"]
    if kind == "c01.speval":
        bad = []
        obs = []
        for j in range(p + 1):
            M = heavy.BasisFunction.speval_matrix(tuple(U), j)
            for z in range(len(ks) - 1):
                for tau in (Fraction(1, 3), Fraction(3, 5), Fraction(0), pt.get("tau", Fraction(1, 7))):
                    u = ks[z] + (ks[z + 1] - ks[z]) * tau
                    if tau == 0:
                        k = spec.spec_span(U, p, u)
                    else:
                        k = spec.spec_span(U, p, u)
                    N = spec.cdb(U, j, k, u)
                    for y in range(j + 1):
                        v = _horner(M[z][y], tau)
                        if v != N[y + k - j] or isinstance(v, float):
                            bad.append((j, z, y, str(tau)))
                            obs.append((str(v), str(N[y + k - j])))
        return bool(bad), "table == Cox-de Boor Taylor coefficients", dict(mismatch=bad[:5], values=obs[:5], U=U)
    rational = w.get("rational")
    W = [pt["w%d" % i] for i in range(n)] if rational else None
    if kind != "c01.seq":
        pos = tuple(w["pos"])
        t = ks[pos[1]] if pos[0] == "knot" else pt["t"]
    if kind == "c01.evalnodes":
        exp = spec.basis(U, p, p, t, W)
        try:
            if rational:
                M = heavy.eval_rational_nodes(tuple(U), tuple(W), (t,), p)
            else:
                M = heavy.eval_spline_nodes(tuple(U), (t,), p)
            got = [M[i][0] for i in range(len(M))]
        except Exception as e:
            return True, exp, "%s: %s" % (type(e).__name__, e)
        bad = len(got) != n or any(isinstance(g, float) or g != e for g, e in zip(got, exp))
        return bad, dict(U=U, t=t, W=W, values=exp), got
    if kind == "c01.seq":
        P = [pt["P%d_0" % i] for i in range(n)]
        nodes = []
        for z in range(len(ks) - 1):
            nodes += [ks[z], pt["t%d" % z]]
        nodes.append(ks[-1])
        curve = curves.Curve(list(U), P, W)
        exp = [spec.curve_value(U, p, P, u, W) for u in nodes]
        try:
            asc = curve.eval(list(nodes))
            desc = curve.eval(list(nodes)[::-1])
            one = curve.eval([nodes[1]])
        except Exception as e:
            return True, dict(U=U, P=P, W=W, nodes=nodes, values=exp), "%s: %s" % (type(e).__name__, e)
        bad = list(asc) != exp or list(desc) != exp[::-1] or not isinstance(one, tuple) or len(one) != 1 or one[0] != exp[1]
        return bad, dict(U=U, P=P, W=W, nodes=nodes, values=exp, one=[exp[1]]), dict(ascending=asc, descending=desc, one=one)
    if kind == "c01.curve":
        dim = w["dim"]
        if dim == 0:
            P = [pt["P%d_0" % i] for i in range(n)]
        else:
            P = [np.array([pt["P%d_%d" % (i, d)] for d in range(dim)], dtype=object) for i in range(n)]
        curve = curves.Curve(list(U), P, W)
        if pos[0] in ("below", "above"):
            try:
                v = curve(t)
                return True, "ValueError", v
            except ValueError:
                return False, "ValueError", "ValueError"
            except Exception as e:
                return True, "ValueError", "%s: %s" % (type(e).__name__, e)
        exp = spec.curve_value(U, p, P, t, W)
        try:
            got = curve(t)
            seq = curve.eval([t, ks[0], t])
        except Exception as e:
            return True, exp, "%s: %s" % (type(e).__name__, e)
        exp0 = spec.curve_value(U, p, P, ks[0], W)

        def neq(a, b):
            return bool(np.any(np.array(a != b))) or any(isinstance(x, float) for x in np.ravel(np.array(a, dtype=object)))
        bad = neq(got, exp) or len(seq) != 3 or neq(seq[0], exp) or neq(seq[1], exp0) or neq(seq[2], exp)
        return bad, dict(U=U, t=t, P=P, W=W, value=exp), dict(value=got, seq=seq)
    raise ValueError(kind)


from .. import assume as A

INFO = dict(
    assumptions=A.S_COMMON + [A.A13], trusted_base=A.TRUSTED, min_obligations=500,
    explanation="C01: contracts on the evaluation chain, callees inlined (each function also has its own contract, so a defect is "
                "reported at the innermost function whose contract fails).",
    functions=["heavy.ImmutableKnotVector.__span_single (V)", "heavy.ImmutableKnotVector.__valid_single (V)",
               "heavy.BasisFunction.horner_method (V)", "heavy.BasisFunction.speval_matrix", "heavy.eval_spline_nodes", "heavy.eval_rational_nodes",
               "curves.Curve.eval"],
    level="other",
)


def info(tier, seed, obs):
    return dict(bounds="tier %s: shapes %s" % (tier, "p<=3 with <=1 distinct interior knot, p<=2 with 2" if tier == "quick"
                                                else "p<=4 with <=2 distinct interior knots, p<=2 with 3")
                + "; rational (symbolic weights) up to degree 3; all multiplicities 1..p+1; parameter in every open span, at every knot, both ends, outside; scalar and 2-D points")
