"""C06 — degree elevation is exact; degree reduction is its inverse or is refused."""
from __future__ import annotations

from fractions import Fraction

import numpy as np
import z3

from .. import assume as A
from .. import spec
from ..env import curves, heavy
from ..report import FAILED, PROVED, ob
from ..symx import con
from ..symx import harness as H
from ..symx.sym import Sym
from .c04 import same_state, snapshot
from .c05 import weights_for
from .fitcommon import (ErrRecorder, apply_T, concrete_curve_equal, curve_eq_pairs, lin_rows, stag2, value_at)

PROP = "C06"
F = Fraction


def tier_shapes(tier):
    if tier == "quick":
        return [(0, ()), (1, ()), (2, ()), (3, ()), (1, (1,)), (2, (1,)), (2, (2,)), (1, (2,)), (2, (1, 2)), (0, (1,)), (3, (2,))]
    return spec.knot_shapes(3, 2) + [(4, ()), (4, (1,)), (4, (3,))]


def task_elevate(shape, variant, ks, U, tier):
    p = shape[0]
    n = len(U) - p - 1
    fn = "curves.Curve.degree_increase"
    out = []
    mon = con.Monitor().install(heavy)
    wb = dict(kind="c06", shape=shape, variant=variant, ks=ks)
    try:
        for times in ((1, 2) if (tier != "quick" or p <= 2) else (1,)):
            Ue = spec.elevate_vector(U, p, times)
            for rational in (False, True):
                if rational and (p == 0 or (tier == "quick" and (p > 2 or times > 1))):
                    continue
                pn = ["P%d" % i for i in range(n)]
                wn = ["w%d" % i for i in range(n)] if rational else []
                ctx = con.con_ctx(pn + wn + ["t"])
                H.positive(ctx, wn)

                def body(chk, ctx=ctx, times=times, Ue=Ue, rational=rational, wn=wn):
                    P = [ctx.sym(x) for x in pn]
                    W = [ctx.sym(x) for x in wn] if rational else None
                    t = ctx.sym("t")
                    for how in ("method", "setter"):
                        curve = chk.call(curves.Curve, list(U), P, W)
                        if how == "method":
                            chk.call(curve.degree_increase, times)
                        else:
                            chk.call(setattr, curve, "degree", p + times)
                        got = list(curve.knotvector)
                        chk.identities("post-knots-" + how, [("len", len(got), len(Ue)), ("degree", curve.degree, p + times)] +
                                       [("U[%d]" % i, a, b) for i, (a, b) in enumerate(zip(got, Ue))])
                        okc = curve.ctrlpoints is not None and len(curve.ctrlpoints) == len(got) - curve.degree - 1 and \
                            ((curve.weights is None) == (W is None)) and (W is None or len(curve.weights) == len(curve.ctrlpoints))
                        chk.add("consistent-" + how, okc, "len(ctrlpoints) == npts (== len(weights))")
                        if okc and got == list(Ue):
                            cw = None if W is None else list(curve.weights)
                            chk.identities("post-function-" + how, curve_eq_pairs(ctx, U, P, W, p, Ue, list(curve.ctrlpoints), cw, p + times, t))
                            chk.exact("exact-" + how, [curve.ctrlpoints, curve.weights])

                out += H.run_paths(ctx, fn, "S-con", stag2(shape, variant, ",t=%d,%s" % (times, "rat" if rational else "pol")),
                                   dict(wb, scenario="elevate", times=times, rational=rational), body)

            # ---- reduction of an elevated curve gives the original back; generic: refused (unchanged) or within tolerance ----
            pe = p + times
            ne = len(Ue) - pe - 1
            Tref = spec.refine_matrix(U, p, Ue, pe)
            qn = ["Q%d" % i for i in range(n)]
            ctx = con.con_ctx(qn + ["t"])

            def body_inv(chk, ctx=ctx, times=times, Ue=Ue, pe=pe):
                Q = [ctx.sym(x) for x in qn]
                t = ctx.sym("t")
                curve = chk.call(curves.Curve, list(Ue), apply_T(Tref, Q))
                try:
                    chk.call(curve.degree_decrease, times)
                except ValueError as e:
                    chk.add("inverse-succeeds", False, "reduction of an elevated curve was refused: %s" % str(e)[:100])
                    return
                chk.add("inverse-succeeds", True, "reduction of an elevated curve succeeded")
                got = list(curve.knotvector)
                okk = got == list(U) and curve.degree == p and curve.ctrlpoints is not None and len(curve.ctrlpoints) == n
                chk.add("inverse-knots", okk, "knot vector and degree are the original ones")
                if okk:
                    chk.identities("inverse-points", [("Q[%d]" % i, a, b) for i, (a, b) in enumerate(zip(curve.ctrlpoints, Q))])

            out += H.run_paths(ctx, "curves.Curve.degree_decrease", "S-con", stag2(shape, variant, ",t=%d,inverse" % times),
                               dict(wb, scenario="inverse", times=times, rational=False), body_inv)

            en = ["P%d" % i for i in range(ne)]
            ctx = con.con_ctx(en + ["t"])
            seen = {"ok": 0, "refused": 0}
            L = U[-1] - U[0]

            def body_gen(chk, ctx=ctx, times=times, Ue=Ue, pe=pe, seen=seen):
                P = [ctx.sym(x) for x in en]
                curve = chk.call(curves.Curve, list(Ue), P)
                before = snapshot(curve)
                with ErrRecorder() as rec:
                    try:
                        chk.call(curve.degree_decrease, times)
                        ok = True
                    except ValueError:
                        ok = False
                if not ok:
                    seen["refused"] += 1
                    chk.add("refusal-atomic", same_state(before, snapshot(curve)), "ValueError and the curve is unchanged")
                    return
                seen["ok"] += 1
                got = list(curve.knotvector)
                chk.add("success-knots", got == list(U) and curve.degree == p, "multiplicities and degree reduced by t")
                try:
                    T = lin_rows(curve.ctrlpoints, en)
                    E = con.quadratic_form(rec.values[-1], en) if isinstance(rec.values[-1], Sym) else None
                except (ValueError, IndexError) as e:
                    chk.add("success-linear", False, str(e))
                    return
                if E is not None and got == list(U):
                    R = spec.residual_form(Ue, pe, U, p, T)
                    fac = 2 * max(F(1), L)
                    D = [[fac * E[i][j] - R[i][j] for j in range(ne)] for i in range(ne)]
                    chk.add("success-deviation", spec.is_psd(D), "2*max(1,L)*E - R positive semidefinite (exact): an accepted reduction deviates by "
                            "no more than the tolerance allows", backend="exact-LDLt")

            obs = H.run_paths(ctx, "curves.Curve.degree_decrease", "S-con", stag2(shape, variant, ",t=%d,generic" % times),
                              dict(wb, scenario="generic", times=times, rational=False), body_gen)
            obs.append(ob("curves.Curve.degree_decrease:both-outcomes-reachable[%s]" % stag2(shape, variant, ",t=%d" % times),
                          "curves.Curve.degree_decrease", PROVED if (seen["ok"] and seen["refused"]) else FAILED, "S-con", "explorer", 0.0,
                          "paths: %d accepted, %d refused" % (seen["ok"], seen["refused"])))
            out += obs

            ctx = con.con_ctx(en + ["t"])

            def body_none(chk, ctx=ctx, times=times, Ue=Ue, pe=pe):
                P = [ctx.sym(x) for x in en]
                curve = chk.call(curves.Curve, list(Ue), P)
                try:
                    chk.call(curve.degree_decrease, times, None)
                except ValueError as e:
                    chk.add("none-succeeds", False, "tolerance=None refused: %s" % str(e)[:80])
                    return
                okk = list(curve.knotvector) == list(U) and curve.ctrlpoints is not None and len(curve.ctrlpoints) == n
                chk.add("none-knots", okk, "reduced knot vector")
                if okk and p > 0:
                    chk.identities("none-interpolates", [("D(%s)" % z, value_at(U, p, list(curve.ctrlpoints), None, z), value_at(Ue, pe, P, None, z))
                                                         for z in spec.knots_of(U)])

            out += H.run_paths(ctx, "curves.Curve.degree_decrease", "S-con", stag2(shape, variant, ",t=%d,tol=None" % times),
                               dict(wb, scenario="none", times=times, rational=False), body_none)

        # ---- invalid requests ----
        pn = ["P%d" % i for i in range(n)]
        ctx = con.con_ctx(pn)

        def body_bad(chk, ctx=ctx):
            P = [ctx.sym(x) for x in pn]
            for label, call in (("increase-0", lambda c: c.degree_increase(0)), ("increase-neg", lambda c: c.degree_increase(-1)),
                                ("decrease-too-much", lambda c: c.degree_decrease(p + 1)), ("decrease-0", lambda c: c.degree_decrease(0)),
                                ("set-negative", lambda c: setattr(c, "degree", -1))):
                curve = chk.call(curves.Curve, list(U), P)
                before = snapshot(curve)
                try:
                    chk.call(call, curve)
                    chk.add("rejects-" + label, False, "no exception")
                except ValueError:
                    chk.add("rejects-" + label, same_state(before, snapshot(curve)), "ValueError, unchanged")
                except (AssertionError, IndexError, ZeroDivisionError, TypeError) as e:
                    chk.add("rejects-" + label, False, "expected ValueError, got %s: %s" % (type(e).__name__, str(e)[:80]))

        out += H.run_paths(ctx, fn, "S-con", stag2(shape, variant, ",bad"), dict(wb, scenario="bad", times=0, rational=False), body_bad)
    finally:
        mon.uninstall()
    out += mon.obligations(stag2(shape, variant))
    return out


task_elevate.contract_fn = "curves.Curve.degree_increase"


def task_bezier_sym(p, times):
    """heavy.Operations.degree_increase_bezier with symbolic interval ends: Bernstein identity."""
    shape = (p, ())
    ctx = H.new_ctx(shape, ["t"])
    fn = "heavy.Operations.degree_increase_bezier"

    def body(chk):
        U, ks = H.sym_vector(ctx, shape)
        t = ctx.sym("t")
        T = chk.call(heavy.Operations.degree_increase_bezier, tuple(U), times)
        q = p + times
        Ue = [ks[0]] * (q + 1) + [ks[1]] * (q + 1)
        ok = len(T) == q + 1 and all(len(r) == p + 1 for r in T)
        chk.add("shape", ok, "matrix is (p+t+1) x (p+1)")
        if ok:
            Nn = spec.cdb(Ue, q, q, t)[:q + 1]
            No = spec.cdb(U, p, p, t)[:p + 1]
            chk.identities("post", [("col%d" % i, sum(Nn[j] * T[j][i] for j in range(q + 1)), No[i]) for i in range(p + 1)])
            chk.exact("exact", T)

    return H.run_paths(ctx, fn, "S-sym", "p=%d,t=%d" % (p, times), dict(kind="c06", scenario="bezier-sym", shape=shape, times=times, task=("c06", "task_bezier_sym", [p, times])), body)


task_bezier_sym.contract_fn = "heavy.Operations.degree_increase_bezier"


# --------------------------------------------------------------------------------------
# engine B: the result of an elevation / reduction does not depend on what ran before in the same process
# --------------------------------------------------------------------------------------
def task_order():
    """Elevation / reduction of a Fraction curve right after the same operation on a float (and an int) curve with numerically EQUAL knots:
    the exact curve still gets exact control points, equal to those of a fresh history (0 == 0.0 == Fraction(0) must not be conflated)."""
    fn = "curves.Curve.degree_increase"
    out = []
    F = Fraction
    cases = {"bezier": ([0, 0, 0, 1, 1, 1], [1, 3, 2]), "spline": ([0, 0, 0, 1, 2, 2, 3, 3, 3], [1, -1, 4, 2, 0, 5])}
    for name, (U, P) in cases.items():
        for t in (1, 2):
            T = spec.elevate_vector([F(x) for x in U], U.count(U[0]) - 1, t)
            for first in ("float", "int"):
                conv = float if first == "float" else int
                warm = curves.Curve([conv(x) for x in U], [conv(x) for x in P])
                warm.degree_increase(t)
                c = curves.Curve([F(x) for x in U], [F(x, 3) for x in P])
                c.degree_increase(t)
                ok_types = all(type(x) in (int, Fraction) for x in c.ctrlpoints) and all(type(x) in (int, Fraction) for x in c.knotvector)
                p = U.count(U[0]) - 1
                same = bool(ok_types) and concrete_curve_equal([F(x) for x in U], [F(x, 3) for x in P], None, p, list(c.knotvector), list(c.ctrlpoints), None, c.degree)
                same = same is True or (isinstance(same, tuple) and same[0] is True)
                ok = ok_types and same and [F(x) for x in c.knotvector] == list(T)
                out.append(ob("%s:after-%s-run[%s,t=%d]" % (fn, first, name, t), fn, PROVED if ok else FAILED, "B", "concrete", 0.0,
                              "exact types %s, same function %s" % (ok_types, same), None if ok else dict(kind="c06.order", case=name, t=t, first=first)))
    return out + [{"_stats": dict(cases=len(out))}]


task_order.contract_fn = "curves.Curve.degree_increase"


# --------------------------------------------------------------------------------------
# engine B: a reduction by t >= 2 of a curve that is reducible FEWER than t times is refused with the curve untouched - through degree_decrease(t) AND through
# the setter forms `curve.degree = v`, `curve.degree -= t` (a reduction done one degree at a time commits its first steps)
# --------------------------------------------------------------------------------------
def task_partial_reduction():
    fn = "curves.BaseCurve.degree"
    out = []
    bases = {"parabola-as-cubic": ([F(0)] * 3 + [F(2)] * 3, [F(1), F(-2), F(4)], 1), "quadratic-spline-as-cubic": ([F(0)] * 3 + [F(1, 3)] + [F(2)] * 3, [F(1), F(-2), F(4), F(0)], 1),
             "line-as-cubic": ([F(0), F(0), F(3), F(3)], [F(1), F(5)], 2)}
    forms = {"degree_decrease(t)": lambda c, t: c.degree_decrease(t), "degree = p - t": lambda c, t: setattr(c, "degree", c.degree - t),
             "degree -= t": lambda c, t: c.__setattr__("degree", c.degree - t)}
    for name, (U, P, up) in bases.items():
        for fname, f in forms.items():
            bad = None
            try:
                c = curves.Curve(list(U), list(P))
                c.degree_increase(up)                       # stored with a degree higher than needed: reducible exactly `up` times
                before = (tuple(c.knotvector), tuple(c.ctrlpoints), c.weights)
                p0 = c.degree
                t = up + 1
                try:
                    f(c, t)
                    bad = "reduction by %d of a curve reducible %d time(s) was accepted (degree %d -> %d)" % (t, up, p0, c.degree)
                except ValueError:
                    after = (tuple(c.knotvector), tuple(c.ctrlpoints), c.weights)
                    if after != before:
                        bad = "ValueError, but the curve changed: degree %d -> %d, %d -> %d control points" % (p0, c.degree, len(before[1]), len(after[1]))
                if not bad:
                    f(c, up)                                # the admissible reduction still works, exactly
                    if c.degree != p0 - up or [F(x) for x in c.knotvector] != [F(x) for x in U] or list(c.ctrlpoints) != list(P):
                        bad = "reduction by %d does not give back the original curve" % up
            except Exception as e:
                bad = "%s: %s" % (type(e).__name__, str(e)[:100])
            out.append(ob("%s:partial-reduction-refused-atomically[%s,%s]" % (fn, name, fname), fn, FAILED if bad else PROVED, "B", "concrete", 0.0,
                          bad or "refused with the curve untouched; the admissible reduction restores the original", dict(kind="c06.partial", case=name, form=fname) if bad else None))
    return out + [{"_stats": dict(cases=len(out))}]


task_partial_reduction.contract_fn = "curves.BaseCurve.degree"


# --------------------------------------------------------------------------------------
# engine B: degree_decrease(t, None) is the CONSTRAINED BEST approximation: it keeps the values at the remaining knots and its residual is L2-orthogonal to every
# lower-degree spline that vanishes at those knots - on knot vectors with spans of UNEQUAL length and interior knots that stay
# --------------------------------------------------------------------------------------
def task_best_approximation():
    fn = "curves.Curve.degree_decrease"
    out = []
    cases = {"cubic-unequal": ([F(0)] * 4 + [F(1), F(1)] + [F(4)] * 4, 3, 1), "quartic-unequal": ([F(-1)] * 5 + [F(0), F(0), F(0), F(5, 2)] + [F(3)] * 5, 4, 1),
             "cubic-by-2": ([F(0)] * 4 + [F(1, 2), F(1, 2), F(1, 2), F(3), F(3), F(3)] + [F(5)] * 4, 3, 2)}
    for name, (U, p, t) in cases.items():
        n = len(U) - p - 1
        P = [F((-1) ** i * (i * i + 1), i + 2) for i in range(n)]
        bad = None
        try:
            c = curves.Curve(list(U), list(P))
            c.degree_decrease(t, None)
            V, q = [F(x) for x in c.knotvector], c.degree
            Q = list(c.ctrlpoints)
            m = len(V) - q - 1
            if q != p - t:
                bad = "degree %d, expected %d" % (q, p - t)
            else:
                nodes = sorted(set(V))
                for z in nodes:
                    if spec.curve_value(V, q, Q, z) != spec.curve_value(list(U), p, P, z):
                        bad = "value at the remaining knot %s changed" % z
                        break
            if not bad:
                Gtt, Gts = spec.gram(V, q, V, q), spec.gram(V, q, list(U), p)
                Mv = [sum(Gtt[i][j] * Q[j] for j in range(m)) - sum(Gts[i][j] * P[j] for j in range(n)) for i in range(m)]
                At = spec.collocation(V, q, nodes)
                NS = spec.null_space(At, m)
                if any(sum(v[i] * Mv[i] for i in range(m)) != 0 for v in NS):
                    bad = "the residual is not L2-orthogonal to the %d-dimensional space of degree-%d splines vanishing at the remaining knots: not the constrained best approximation" % (len(NS), q)
        except Exception as e:
            bad = "%s: %s" % (type(e).__name__, str(e)[:100])
        out.append(ob("%s:none-best-approximation[%s]" % (fn, name), fn, FAILED if bad else PROVED, "B", "concrete", 0.0,
                      bad or "keeps the values at the remaining knots; residual orthogonal to the constrained space (exact Gram matrices)",
                      dict(kind="c06.best", case=name) if bad else None))
    return out + [{"_stats": dict(cases=len(out))}]


task_best_approximation.contract_fn = "curves.Curve.degree_decrease"


def tasks(tier, seed):
    from ..pyvc.driver import verify
    from ..contracts import misc
    from ..contracts import curvesv
    ts = [(verify, (misc.BEZIER_ONCE, "heavy", "Operations.degree_increase_bezier_once", None)), (task_order, ()), (task_best_approximation, ()), (task_partial_reduction, ())]
    # shape-level contracts (all curves, all arguments): degree +- t, INV, refusals atomic; degree setter dispatches to them
    ts += curvesv.tasks_for(("Curve.degree_increase", "Curve.degree_decrease", "BaseCurve.degree", "BaseCurve.apply"))
    for sh in tier_shapes(tier):
        for variant, ks, U in con.vectors(sh, tier, seed):
            if tier == "quick" and variant == 1 and sh[0] == 3:
                continue
            ts.append((task_elevate, (sh, variant, ks, U, tier)))
    for p in range(0, 4 if tier == "quick" else 6):
        for times in (1, 2, 3):
            ts.append((task_bezier_sym, (p, times)))
    from . import kinds
    ts += [(kinds.task_kinds, ("C06", op)) for op in kinds.OPS["C06"][1]]
    return ts


def replay(o):
    if (o.get("witness") or {}).get("kind") == "c06.best":
        r = [x for x in task_best_approximation() if "id" in x and x["id"].endswith("[%s]" % o["witness"]["case"])][0]
        return r["status"] == FAILED, "constrained best approximation", r["detail"]
    if (o.get("witness") or {}).get("kind") == "kinds":
        from . import kinds
        return kinds.replay(o)
    if (o.get("witness") or {}).get("kind") == "c06.partial":
        w = o["witness"]
        r = [x for x in task_partial_reduction() if "id" in x and x["id"].endswith("[%s,%s]" % (w["case"], w["form"]))][0]
        return r["status"] == FAILED, "ValueError with the curve untouched; the admissible reduction restores the original", r["detail"]
    if (o.get("witness") or {}).get("kind") == "c06.order":
        w = o["witness"]
        r = [x for x in task_order() if "id" in x and x["id"].endswith(":after-%s-run[%s,t=%d]" % (w["first"], w["case"], w["t"]))][0]
        return r["status"] == FAILED, "exact control points equal to a fresh history", r["detail"]
    w = o["witness"]
    shape = (w["shape"][0], tuple(w["shape"][1]))
    sc = w["scenario"]
    if sc == "bezier-sym" and w.get("task"):
        return H.generic_replay(o)
    if sc in ("bad", "bezier-sym"):
        return False, "see verifier output", "not replayed concretely"
    ks = [F(x) for x in w["ks"]]
    U = spec.shape_vector(shape[0], shape[1], ks)
    p = shape[0]
    n = len(U) - p - 1
    times = w["times"]
    pt = {k: F(v) for k, v in (w.get("point") or {}).items()}
    default = [F(3), F(-1), F(4), F(1, 2), F(-5), F(9, 2), F(2), F(-6), F(5), F(3, 7), F(1), F(-2), F(7), F(-3), F(1, 3), F(8)]
    Ue = spec.elevate_vector(U, p, times)
    pe = p + times
    if sc == "elevate":
        P = [pt.get("P%d" % i, default[i]) for i in range(n)]
        if all(x == 0 for x in P):
            P = default[:n]
        W = [pt.get("w%d" % i, weights_for(n)[i]) for i in range(n)] if w["rational"] else None
        curve = curves.Curve(list(U), P, W)
        try:
            curve.degree_increase(times)
        except Exception as e:
            return True, dict(U=U, P=P, W=W, times=times), "%s: %s" % (type(e).__name__, str(e)[:100])
        cw = None if curve.weights is None else list(curve.weights)
        same, u = concrete_curve_equal(U, P, W, p, list(curve.knotvector), list(curve.ctrlpoints), cw, curve.degree)
        bad = list(curve.knotvector) != list(Ue) or not same or any(isinstance(x, float) for x in curve.ctrlpoints)
        return bad, dict(U=U, P=P, W=W, times=times, expected_knots=Ue), dict(knots=tuple(curve.knotvector), ctrlpoints=curve.ctrlpoints, weights=curve.weights, differs_at=u)
    if sc == "inverse":
        Q = [pt.get("Q%d" % i, default[i]) for i in range(n)]
        if all(x == 0 for x in Q):
            Q = default[:n]
        Tref = spec.refine_matrix(U, p, Ue, pe)
        curve = curves.Curve(list(Ue), apply_T(Tref, Q))
        try:
            curve.degree_decrease(times)
        except Exception as e:
            return True, dict(U=Ue, P=apply_T(Tref, Q), times=times, expected=Q), "%s: %s" % (type(e).__name__, str(e)[:100])
        return list(curve.ctrlpoints) != Q or list(curve.knotvector) != list(U), dict(expected_points=Q, expected_knots=U), dict(ctrlpoints=curve.ctrlpoints, knots=tuple(curve.knotvector))
    ne = len(Ue) - pe - 1
    P = [pt.get("P%d" % i, default[i]) for i in range(ne)]
    if all(x == 0 for x in P):
        P = default[:ne]
    curve = curves.Curve(list(Ue), P)
    before = (tuple(curve.knotvector), curve.ctrlpoints)
    try:
        if sc == "none":
            curve.degree_decrease(times, None)
        else:
            curve.degree_decrease(times)
        outcome = "accepted"
    except ValueError:
        outcome = "refused"
    except Exception as e:
        return True, dict(U=Ue, P=P, times=times), "%s: %s" % (type(e).__name__, str(e)[:100])
    after = (tuple(curve.knotvector), curve.ctrlpoints)
    if outcome == "refused":
        return before != after or sc == "none", dict(U=Ue, P=P, times=times, expected="unchanged"), dict(outcome=outcome, state=after)
    if sc == "none":
        badz = [z for z in spec.knots_of(U) if p > 0 and value_at(U, p, list(curve.ctrlpoints), None, z) != value_at(Ue, pe, P, None, z)]
        return bool(badz), dict(U=Ue, P=P, times=times, expected="interpolation at remaining knots"), dict(mismatch_at=badz)
    return False, "accepted within tolerance", dict(outcome=outcome)


INFO = dict(
    assumptions=A.S_COMMON + [A.A4, A.A11, A.A12], trusted_base=A.TRUSTED, min_obligations=100, level="other",
    explanation="C06: Curve.degree_increase / degree setter / Operations.degree_increase(_bezier) / degree_decrease on concrete rational knot vectors with "
                "symbolic control points and weights: multiplicities + t, C_new == C_old on every span, exactness; reduction of elevated input returns the "
                "original control points; generic input: refused (unchanged) or accepted within the tolerance (exact LDL^T); tolerance=None: interpolation; "
                "Bezier elevation matrices also with symbolic interval ends (Bernstein identity).",
    functions=["curves.Curve.degree_increase", "curves.Curve.degree (setter)", "curves.Curve.degree_decrease", "curves.BaseCurve.apply",
               "heavy.Operations.degree_increase", "heavy.Operations.degree_increase_bezier", "heavy.Operations.degree_increase_bezier_once",
               "heavy.Operations.split_curve", "heavy.Operations.knot_remove", "knotspace.KnotVector.degree (setter)"],
)


def info(tier, seed, obs):
    return dict(bounds="tier %s: %d shapes (degree 0..%d, mixed multiplicities) x %d concrete knot vectors, t in {1,2}; Bezier matrices p<=%d, t<=3 symbolic" % (
        tier, len(tier_shapes(tier)), 3 if tier == "quick" else 4, 2 if tier == "quick" else 4, 3 if tier == "quick" else 5))
