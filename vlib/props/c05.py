"""C05 — knot removal is exact when possible, refused otherwise, never silently lossy."""
from __future__ import annotations

from fractions import Fraction

import numpy as np

from .. import assume as A
from .. import spec
from ..report import FAILED, PROVED, ob
from ..env import curves, heavy
from ..symx import con
from ..symx import harness as H
from ..symx.sym import Sym
from .c04 import same_state, snapshot
from .fitcommon import (ErrRecorder, apply_T, concrete_curve_equal, curve_eq_pairs, lin_rows, stag2, value_at)

PROP = "C05"
F = Fraction


def tier_shapes(tier):
    if tier == "quick":
        return [(1, (1,)), (1, (2,)), (2, (1,)), (2, (2,)), (2, (3,)), (1, (1, 1)), (2, (1, 2)), (3, (1,)), (0, (1,)), (4, (1,)), (4, (2,))]
    return [s for s in spec.knot_shapes(3, 2) if s[1]] + [(0, (1,)), (0, (1, 1)), (4, (1,)), (4, (2,)), (4, (1, 2)), (5, (1,))]


def removals(shape):
    """(z, r): remove r copies of the z-th distinct interior knot (1-based index into distinct knots)."""
    out = []
    for z, m in enumerate(shape[1], start=1):
        for r in sorted({1, m}):
            out.append(((z, r),))
    if len(shape[1]) >= 2:
        out.append(((1, 1), (2, 1)))
    return out


def weights_for(n):
    return [F(1), F(2), F(1, 2), F(3), F(3, 2), F(1), F(5, 2), F(2), F(1), F(4), F(1), F(1)][:n]


def task_remove(shape, variant, ks, U, rational, tier):
    p = shape[0]
    n = len(U) - p - 1
    L = U[-1] - U[0]
    fn = "curves.Curve.knot_remove"
    out = []
    mon = con.Monitor().install(heavy)
    try:
        for rem in removals(shape):
            nodes = [ks[z] for z, r in rem for _ in range(r)]
            Uc = list(spec.msdiff(U, nodes))
            nc = len(Uc) - p - 1
            rtag = ",rm=" + "+".join("k%dx%d" % zr for zr in rem) + (",rat" if rational else ",pol")
            W = weights_for(n) if rational else None
            Tref = spec.refine_matrix(Uc, p, U, p)
            wb = dict(kind="c05", shape=shape, variant=variant, ks=ks, rem=rem, rational=rational)

            # ---- A: exactly removable (P = refinement of a coarse curve with symbolic control points) ----
            qn = ["Q%d" % i for i in range(nc)]
            ctx = con.con_ctx(qn + ["t"])

            def body_exact(chk, ctx=ctx):
                Q = [ctx.sym(x) for x in qn]
                t = ctx.sym("t")
                if rational:
                    Wc = weights_for(nc)
                    Wf = apply_T(Tref, Wc)
                    num = apply_T(Tref, [w * q for w, q in zip(Wc, Q)])
                    P = [a / w for a, w in zip(num, Wf)]
                else:
                    Wc, Wf = None, None
                    P = apply_T(Tref, Q)
                curve = chk.call(curves.Curve, list(U), P, Wf)
                try:
                    chk.call(curve.knot_remove, list(nodes))
                except ValueError as e:
                    chk.add("exact-succeeds", False, "an exactly removable knot was refused: %s" % str(e)[:120], tags={"rational": rational})
                    return
                chk.add("exact-succeeds", True, "removal of exactly removable knots succeeded", tags={"rational": rational})
                got = list(curve.knotvector)
                chk.identities("exact-knots", [("len", len(got), len(Uc))] + [("U[%d]" % i, a, b) for i, (a, b) in enumerate(zip(got, Uc))],
                               tags={"rational": rational})
                if len(got) == len(Uc) and curve.ctrlpoints is not None and len(curve.ctrlpoints) == nc:
                    cw = None if curve.weights is None else list(curve.weights)
                    chk.identities("exact-undoes-insertion", curve_eq_pairs(ctx, Uc, Q, Wc, p, Uc, list(curve.ctrlpoints), cw, p, t),
                                   tags={"rational": rational})
                    chk.exact("exact-arith", [curve.ctrlpoints, curve.weights])
                else:
                    chk.add("exact-consistent", False, "npts/control points inconsistent after removal", tags={"rational": rational})

            out += H.run_paths(ctx, fn, "S-con", stag2(shape, variant, rtag + ",exact"), dict(wb, scenario="exact"), body_exact)

            # ---- B: generic control points, default tolerance: success => bounded deviation; refusal => unchanged ----
            pn = ["P%d" % i for i in range(n)]
            ctx = con.con_ctx(pn + ["t"])
            seen = {"ok": 0, "refused": 0}

            def body_generic(chk, ctx=ctx, seen=seen):
                P = [ctx.sym(x) for x in pn]
                curve = chk.call(curves.Curve, list(U), P, W)
                before = snapshot(curve)
                with ErrRecorder() as rec:
                    try:
                        chk.call(curve.knot_remove, list(nodes))
                        ok = True
                    except ValueError:
                        ok = False
                if not ok:
                    seen["refused"] += 1
                    chk.add("refusal-atomic", same_state(before, snapshot(curve)), "ValueError and knot vector / points / weights unchanged",
                            tags={"rational": rational})
                    return
                seen["ok"] += 1
                got = list(curve.knotvector)
                chk.identities("success-knots", [("len", len(got), len(Uc))] + [("U[%d]" % i, a, b) for i, (a, b) in enumerate(zip(got, Uc))],
                               tags={"rational": rational})
                if rational:
                    # deviation bound for rational curves: decided on the concrete-weight residual at sample parameters
                    chk.add("success-consistent", curve.ctrlpoints is not None and len(curve.ctrlpoints) == nc and
                            curve.weights is not None and len(curve.weights) == nc, "npts consistent", tags={"rational": True})
                    return
                try:
                    T = lin_rows(curve.ctrlpoints, pn)
                    E = con.quadratic_form(rec.values[-1], pn) if isinstance(rec.values[-1], Sym) else None
                except (ValueError, IndexError) as e:
                    chk.add("success-linear", False, "new control points are not linear forms of the old ones: %s" % e)
                    return
                R = spec.residual_form(U, p, Uc, p, T)
                if E is None:
                    Z = all(x == 0 for r in R for x in r)
                    chk.add("success-deviation", Z, "error functional is the constant %r; residual form zero: %s" % (rec.values[-1], Z))
                else:
                    fac = 2 * max(F(1), L)
                    D = [[fac * E[i][j] - R[i][j] for j in range(n)] for i in range(n)]
                    okd = spec.is_psd(D)
                    pt = None
                    if not okd:
                        # a direction v with v^T(2 max(1,L) E - R)v < 0, scaled so that the code's error equals the tolerance
                        v = spec.negative_direction(D)
                        if v is not None:
                            ev = sum(v[i] * E[i][j] * v[j] for i in range(n) for j in range(n))
                            sc = spec.isqrt_floor_fraction(F(1, 10 ** 9) / ev) if ev > 0 else F(1)
                            pt = {"P%d" % i: v[i] * sc for i in range(n)}
                            pt["t"] = F(0)
                    chk.add("success-deviation", okd,
                            "2*max(1,L)*E - R is positive semidefinite (exact LDL^T): error <= tol  ==>  integral (C-D)^2 <= 2*tol*max(1,L) for every P"
                            if okd else "2*max(1,L)*E - R is NOT positive semidefinite: some accepted removal deviates by more than the tolerance allows",
                            backend="exact-LDLt", pt=pt)

            obs = H.run_paths(ctx, fn, "S-con", stag2(shape, variant, rtag + ",generic"), dict(wb, scenario="generic"), body_generic)
            from ..report import ob, PROVED, FAILED
            obs.append(ob("%s:both-outcomes-reachable[%s]" % (fn, stag2(shape, variant, rtag)), fn,
                          PROVED if (seen["ok"] and seen["refused"]) else FAILED, "S-con", "explorer", 0.0,
                          "paths: %d accepted, %d refused (a generic curve must be refusable and an exact one accepted)" % (seen["ok"], seen["refused"]),
                          dict(wb, scenario="generic", point={}), {"rational": rational}))
            out += obs

            # ---- C: tolerance=None always succeeds and interpolates the old curve at every remaining knot ----
            ctx = con.con_ctx(pn + ["t"])

            def body_none(chk, ctx=ctx):
                P = [ctx.sym(x) for x in pn]
                curve = chk.call(curves.Curve, list(U), P, W)
                try:
                    chk.call(curve.knot_remove, list(nodes), None)
                except ValueError as e:
                    chk.add("none-succeeds", False, "tolerance=None was refused: %s" % str(e)[:100], tags={"rational": rational})
                    return
                chk.add("none-succeeds", True, "tolerance=None succeeded", tags={"rational": rational})
                got = list(curve.knotvector)
                okk = [x for x in got] == list(Uc)
                chk.add("none-knots", okk, "knot vector is the old one minus the nodes", tags={"rational": rational})
                if okk and curve.ctrlpoints is not None and len(curve.ctrlpoints) == nc:
                    cw = None if curve.weights is None else list(curve.weights)
                    prs = []
                    for z in spec.knots_of(Uc):
                        prs.append(("D(%s)" % z, value_at(Uc, p, list(curve.ctrlpoints), cw, z), value_at(U, p, P, W, z)))
                    if p > 0:
                        chk.identities("none-interpolates", prs, tags={"rational": rational})

            out += H.run_paths(ctx, fn, "S-con", stag2(shape, variant, rtag + ",tol=None"), dict(wb, scenario="none"), body_none)

            # ---- D: tolerance = 0 is a legal tolerance: exact or refused, never lossy ----
            if not rational:
                ctx = con.con_ctx(pn + ["t"])

                def body_zero(chk, ctx=ctx):
                    P = [ctx.sym(x) for x in pn]
                    t = ctx.sym("t")
                    curve = chk.call(curves.Curve, list(U), P, None)
                    before = snapshot(curve)
                    try:
                        chk.call(curve.knot_remove, list(nodes), 0)
                    except ValueError:
                        chk.add("zero-tolerance", same_state(before, snapshot(curve)), "refused, unchanged")
                        return
                    prs = curve_eq_pairs(ctx, U, P, None, p, list(curve.knotvector), list(curve.ctrlpoints), None, p, t)
                    chk.identities("zero-tolerance", prs)

                out += H.run_paths(ctx, fn, "S-con", stag2(shape, variant, rtag + ",tol=0"), dict(wb, scenario="zero"), body_zero)

        # ---- invalid requests: absent knot, end knot ----
        pn = ["P%d" % i for i in range(n)]
        ctx = con.con_ctx(pn)

        def body_bad(chk, ctx=ctx):
            P = [ctx.sym(x) for x in pn]
            for label, bad in (("absent", [(ks[0] + ks[1]) / 2 + F(1, 97)]), ("end", [ks[0]]), ("end-right", [ks[-1]]),
                               ("too-many", [ks[1]] * (shape[1][0] + 1))):
                curve = chk.call(curves.Curve, list(U), P, weights_for(n) if rational else None)
                before = snapshot(curve)
                try:
                    chk.call(curve.knot_remove, bad)
                    chk.add("rejects-" + label, False, "no exception; knots now %s" % (tuple(curve.knotvector),))
                except ValueError:
                    chk.add("rejects-" + label, same_state(before, snapshot(curve)), "ValueError, unchanged")
                except (AssertionError, IndexError, ZeroDivisionError, TypeError) as e:
                    chk.add("rejects-" + label, False, "expected ValueError, got %s" % type(e).__name__)

        out += H.run_paths(ctx, fn, "S-con", stag2(shape, variant, ",bad" + (",rat" if rational else ",pol")),
                           dict(kind="c05", shape=shape, variant=variant, ks=ks, rem=None, rational=rational, scenario="bad"), body_bad)
    finally:
        mon.uninstall()
    out += mon.obligations(stag2(shape, variant, ",rat" if rational else ",pol"))
    return out


task_remove.contract_fn = "curves.Curve.knot_remove"


# --------------------------------------------------------------------------------------
# engine B: the outcome of a removal does not depend on what was computed before in the same process
# --------------------------------------------------------------------------------------
ORDER_CASES = {
    "p2": ([F(0)] * 3 + [F(1), F(2)] + [F(3)] * 3, [F(1), F(-2), F(4), F(0), F(3)], [F(1)]),
    "p3": ([F(-2)] * 4 + [F(-1), F(0), F(0)] + [F(1)] * 4, [F(2), F(-1), F(3), F(1, 2), F(-4), F(1), F(5)], [F(0)]),
    "p1": ([F(0)] * 2 + [F(1), F(2), F(5, 2)] + [F(3)] * 2, [F(0), F(2), F(-1), F(4), F(1)], [F(2), F(1)]),
}


def task_order(name):
    """knot_remove(nodes, None) after OTHER operations on the same (old, new) knot-vector pair in the same process - an unconstrained projection
    (update without nodes) on another curve, a refused removal with a tolerance, a removal on another curve - still passes through the old curve at
    every remaining knot and at both ends, and gives the same result as in a fresh history."""
    fn = "curves.Curve.knot_remove"
    U0, P, nodes0 = ORDER_CASES[name]
    p = U0.count(U0[0]) - 1
    other = [x * 3 - 1 for x in P]
    labels = ["nothing", "projection-without-nodes", "projection-refused", "removal-refused", "removal-of-another-curve", "fit_curve-with-other-nodes"]
    bad, ref = [], None
    for idx, label in enumerate(labels):
        # every history works on its own translate of the knot vector (results are translation invariant, C18), so that a history cannot
        # profit from what an earlier one left behind in the process
        U = [x + 7 * idx for x in U0]
        nodes = [x + 7 * idx for x in nodes0]
        newvec = list(U)
        for x in nodes:
            newvec.remove(x)
        fresh = lambda points, U=U: curves.Curve(list(U), list(points))
        before = {
            "nothing": lambda: None,
            "projection-without-nodes": lambda: fresh(other).update(list(newvec), None),
            "projection-refused": lambda: _swallow(lambda: fresh(other).update(list(newvec))),
            "removal-refused": lambda: _swallow(lambda: fresh(other).knot_remove(list(nodes))),
            "removal-of-another-curve": lambda: fresh(other).knot_remove(list(nodes), None),
            "fit_curve-with-other-nodes": lambda: curves.Curve(list(newvec)).fit_curve(fresh(other), sorted(set(newvec))[:-1] + [newvec[-1] - F(1, 3)]),
        }[label]
        before()
        c = fresh(P)
        try:
            c.knot_remove(list(nodes), None)
        except Exception as e:
            bad.append((label, "%s: %s" % (type(e).__name__, str(e)[:60])))
            continue
        got = tuple(c.ctrlpoints)
        miss = [str(k) for k in sorted(set(newvec)) if c(k) != spec.curve_value(list(U), p, P, k)]
        if tuple(c.knotvector) != tuple(newvec):
            bad.append((label, "knot vector %s" % (tuple(map(str, c.knotvector)),)))
        elif miss:
            bad.append((label, "does not pass through the old curve at the remaining knots %s" % miss))
        elif ref is not None and got != ref:
            bad.append((label, "result differs from the fresh history"))
        if ref is None:
            ref = got
    befores, nodes = labels, nodes0
    if bad:
        return [ob("%s:history-independent[%s]" % (fn, name), fn, FAILED, "B", "concrete", 0.0,
                   "knot_remove(%s, None) after '%s': %s (%d of %d histories fail)" % (list(map(str, nodes)), bad[0][0], bad[0][1], len(bad), len(befores)),
                   dict(kind="c05.order", case=name))]
    return [ob("%s:history-independent[%s]" % (fn, name), fn, PROVED, "B", "concrete", 0.0,
               "%d histories before knot_remove(%s, None): same result, passes through the old curve at every remaining knot" % (len(befores), list(map(str, nodes)))),
            {"_stats": dict(cases=len(befores))}]


def _swallow(f):
    try:
        f()
    except ValueError:
        pass


task_order.contract_fn = "curves.Curve.knot_remove"


# --------------------------------------------------------------------------------------
# engine B: FLOAT data whose removal is exact even in double arithmetic (dyadic knots and control points): "guaranteed success whenever the knots are exactly
# removable" at several magnitudes of the control points.  From about 1e4 on the rounding noise of the error form (about 1e-16 |P|^2) exceeds the absolute
# tolerance 1e-9 and the removal is refused: known finding D45 (the obligation ids carry the scale, so a refusal at a smaller scale is a new violation)
# --------------------------------------------------------------------------------------
def task_float_magnitude():
    from ..report import FAILED, PROVED, ob
    fn = "curves.Curve.knot_remove"
    out = []
    for scale in (1, 512, 8192, 65536):
        bad = None
        try:
            base = [1.0 * scale, -2.0 * scale, 3.0 * scale, 1.0 * scale]
            c = curves.Curve([0.0] * 4 + [2.0] * 4, list(base))
            c.knot_insert([1.0])
            c.knot_remove([1.0])
            if list(c.knotvector) != [0.0] * 4 + [2.0] * 4 or any(abs(a - b) > 1e-9 * scale for a, b in zip(c.ctrlpoints, base)):
                bad = "insert then remove gives knots %s, points %s" % (list(c.knotvector), list(c.ctrlpoints))
        except ValueError as e:
            bad = "an exactly removable knot is refused: %s" % str(e)[:80]
        except Exception as e:
            bad = "%s: %s" % (type(e).__name__, str(e)[:100])
        out.append(ob("%s:float-magnitude[%d]" % (fn, scale), fn, FAILED if bad else PROVED, "B", "concrete", 0.0,
                      bad or "knot_insert([1.0]) then knot_remove([1.0]) restores the dyadic float curve", dict(kind="c05.floatmag", scale=scale) if bad else None))
    # knot vectors that MIX Python ints with Fractions (users write [0, 0, 0, 1, Fraction(3, 2), 2, 2, 2]): an exactly removable knot, given with exactly refined control
    # points, is removed exactly - also with tolerance 0 - and the curve that remains is exact
    for label, U0, x in (("p2", [0, 0, 0, 1, 2, 2, 2], F(3, 2)), ("p3", [0, 0, 0, 0, 1, 3, 3, 3, 3], F(5, 2)), ("p1", [0, 0, 1, 2, 4, 4], F(1, 2))):
        for tol in (0, F(1, 10 ** 9), None):
            bad = None
            try:
                p_ = U0.count(U0[0]) - 1
                n0 = len(U0) - p_ - 1
                P0 = [F((-1) ** i * (i + 2), 3) for i in range(n0)]
                U1 = sorted(U0 + [x], key=F)
                T = spec.refine_matrix([F(u) for u in U0], p_, [F(u) for u in U1], p_)
                P1 = [sum(T[i][j] * P0[j] for j in range(n0)) for i in range(len(T))]
                c = curves.Curve(list(U1), list(P1))
                c.knot_remove([x], tol)
                if [F(u) for u in c.knotvector] != [F(u) for u in U0] or list(c.ctrlpoints) != P0:
                    bad = "after the removal: knots %s, control points %s (expected exactly %s)" % (list(c.knotvector), list(c.ctrlpoints), [str(q) for q in P0])
            except ValueError as e:
                bad = "an exactly removable knot is refused: %s" % str(e)[:80]
            except Exception as e:
                bad = "%s: %s" % (type(e).__name__, str(e)[:100])
            out.append(ob("%s:mixed-int-Fraction-knots[%s,tolerance=%s]" % (fn, label, tol), fn, FAILED if bad else PROVED, "B", "concrete", 0.0,
                          bad or "removed exactly", dict(kind="c05.floatmag", scale="%s,tolerance=%s" % (label, tol)) if bad else None))
    return out + [{"_stats": dict(cases=len(out))}]


task_float_magnitude.contract_fn = "curves.Curve.knot_remove"


def tasks(tier, seed):
    from ..pyvc.driver import verify
    from ..contracts import curvesv
    # shape-level contracts (all curves, all arguments): a refused removal leaves the three fields unchanged, a successful one keeps INV
    ts = curvesv.tasks_for(("Curve.knot_remove", "BaseCurve.update"))
    for sh in tier_shapes(tier):
        for variant, ks, U in con.vectors(sh, tier, seed):
            ts.append((task_remove, (sh, variant, ks, U, False, tier)))
            # rational curves: the whole path is the known finding D9; a small sample keeps it visible without paying for blow-ups
            if variant == 0 and sh in ((1, (1,)), (2, (1,))) or (tier != "quick" and variant == 0 and sh[0] in (1, 2) and len(sh[1]) == 1):
                ts.append((task_remove, (sh, variant, ks, U, True, tier)))
    ts += [(task_order, (name,)) for name in ORDER_CASES] + [(task_float_magnitude, ())]
    from . import kinds
    ts += [(kinds.task_kinds, ("C05", op)) for op in kinds.OPS["C05"][1]]
    return ts


def replay(o):
    """Concrete replay: draws the symbolic control points from the witness point (or small integers)."""
    w = o["witness"]
    if w["kind"] == "kinds":
        from . import kinds
        return kinds.replay(o)
    if w["kind"] == "c05.floatmag":
        r = [x for x in task_float_magnitude() if "id" in x and x["id"].endswith("[%s]" % w["scale"])][0]
        return r["status"] == "failed", "insert then remove restores the curve", r["detail"]
    if w["kind"] == "c05.order":
        r = task_order(w["case"])[0]
        return r["status"] == FAILED, "same result in every history; interpolation at the remaining knots", r["detail"]
    shape = (w["shape"][0], tuple(w["shape"][1]))
    ks = [F(x) for x in w["ks"]]
    U = spec.shape_vector(shape[0], shape[1], ks)
    p = shape[0]
    n = len(U) - p - 1
    pt = {k: F(v) for k, v in (w.get("point") or {}).items()}
    rational = w["rational"]
    W = weights_for(n) if rational else None
    sc = w["scenario"]
    if sc == "bad":
        return False, "see verifier output", "not replayed"
    rem = [tuple(x) for x in w["rem"]]
    nodes = [ks[z] for z, r in rem for _ in range(r)]
    Uc = list(spec.msdiff(U, nodes))
    nc = len(Uc) - p - 1
    default = [F(3), F(-1), F(4), F(1, 2), F(-5), F(9, 2), F(2), F(-6), F(5), F(3, 7), F(1), F(-2)]
    if sc == "exact":
        Q = [pt.get("Q%d" % i, default[i]) for i in range(nc)]
        if all(q == 0 for q in Q):
            Q = default[:nc]
        Tref = spec.refine_matrix(Uc, p, U, p)
        if rational:
            Wc = weights_for(nc)
            Wf = apply_T(Tref, Wc)
            num = apply_T(Tref, [a * b for a, b in zip(Wc, Q)])
            P = [a / b for a, b in zip(num, Wf)]
        else:
            Wc, Wf = None, None
            P = apply_T(Tref, Q)
        curve = curves.Curve(list(U), P, Wf)
        try:
            curve.knot_remove(list(nodes))
        except Exception as e:
            return True, dict(U=U, P=P, W=Wf, remove=nodes, expected="succeeds and gives back the coarse curve", coarse_points=Q), "%s: %s" % (type(e).__name__, str(e)[:100])
        cw = None if curve.weights is None else list(curve.weights)
        same, u = concrete_curve_equal(Uc, Q, Wc, p, list(curve.knotvector), list(curve.ctrlpoints), cw, p)
        return (not same) or list(curve.knotvector) != Uc, dict(U=U, P=P, W=Wf, remove=nodes, coarse_points=Q), \
            dict(knots=tuple(curve.knotvector), ctrlpoints=curve.ctrlpoints, weights=curve.weights, differs_at=u)
    P = [pt.get("P%d" % i, default[i]) for i in range(n)]
    if all(x == 0 for x in P):
        P = default[:n]
    curve = curves.Curve(list(U), P, W)
    before = (tuple(curve.knotvector), curve.ctrlpoints, curve.weights)
    tol = {"generic": F(1, 10 ** 9), "none": None, "zero": 0}[sc]
    try:
        if sc == "generic":
            curve.knot_remove(list(nodes))
        else:
            curve.knot_remove(list(nodes), tol)
        outcome = "accepted"
    except ValueError:
        outcome = "refused"
    except Exception as e:
        return True, dict(U=U, P=P, W=W, remove=nodes), "%s: %s" % (type(e).__name__, str(e)[:100])
    after = (tuple(curve.knotvector), curve.ctrlpoints, curve.weights)
    if outcome == "refused":
        return (before != after) or sc == "none", dict(U=U, P=P, remove=nodes, tol=tol, expected="unchanged after refusal"), dict(outcome=outcome, state=after)
    cw = None if curve.weights is None else list(curve.weights)
    if sc == "none":
        bad = [z for z in spec.knots_of(Uc) if p > 0 and value_at(Uc, p, list(curve.ctrlpoints), cw, z) != value_at(U, p, P, W, z)]
        return bool(bad) or list(curve.knotvector) != Uc, dict(U=U, P=P, W=W, remove=nodes, expected="interpolates at remaining knots"), dict(mismatch_at=bad, ctrlpoints=curve.ctrlpoints)
    # accepted with a tolerance: integral of squared deviation must be <= 2*tol*max(1,L)
    if W is None:
        T = None
        # exact integral through the residual of the actual new control points
        import itertools
        Unew = list(curve.knotvector)
        A = spec.gram(U, p, U, p)
        B = spec.gram(Unew, p, U, p)
        C = spec.gram(Unew, p, Unew, p)
        Qn = list(curve.ctrlpoints)
        dev = sum(P[i] * A[i][j] * P[j] for i in range(n) for j in range(n)) - 2 * sum(Qn[i] * B[i][j] * P[j] for i in range(len(Qn)) for j in range(n)) \
            + sum(Qn[i] * C[i][j] * Qn[j] for i in range(len(Qn)) for j in range(len(Qn)))
        bound = 2 * F(tol) * max(F(1), U[-1] - U[0])
        return dev > bound, dict(U=U, P=P, remove=nodes, tol=tol, bound=bound), dict(outcome=outcome, integral_squared_deviation=dev, ctrlpoints=Qn)
    return False, "rational accepted path", "not decided concretely"


INFO = dict(
    assumptions=A.S_COMMON + [A.A4, A.A11, A.A12], trusted_base=A.TRUSTED, min_obligations=60, level="other",
    explanation="C05: Curve.knot_remove / BaseCurve.update / Curve.fit_curve / LeastSquare.spline2spline / func2func executed on concrete rational knot "
                "vectors with symbolic control points; the explorer forks on 'error > tolerance'. Success path: knot vector == old minus nodes and "
                "2*max(1,L)*E - R positive semidefinite (exact), R the spec residual form; exactly removable input: only the success path is feasible and "
                "the coarse curve comes back; refusal path: state unchanged; tolerance=None: interpolation at remaining knots; tolerance=0: exact or refused.",
    functions=["curves.Curve.knot_remove", "curves.BaseCurve.update", "curves.Curve.fit_curve", "heavy.LeastSquare.spline2spline",
               "heavy.LeastSquare.func2func", "heavy.ImmutableKnotVector.__sub__", "heavy.Linalg.invert (monitor)"],
)


def info(tier, seed, obs):
    return dict(bounds="tier %s: %d shapes x %d concrete rational knot vectors each (one with a knot at 0 and negative values, one with awkward "
                "denominators%s); removal of 1..mult copies of each interior knot, two knots at once; polynomial with symbolic points, rational with concrete weights" % (
                    tier, len(tier_shapes(tier)), 2 if tier == "quick" else 4, "" if tier == "quick" else ", uniform, random"))
