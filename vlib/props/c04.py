"""C04 — knot insertion never changes the curve and yields exactly the requested knots."""
from __future__ import annotations

from fractions import Fraction

import numpy as np
import z3

from .. import assume as A
from .. import spec
from ..report import FAILED, PROVED, ob
from ..env import curves, heavy
from ..symx import harness as H
from ..symx.sym import Sym
from .c01 import concrete_inputs, stag

PROP = "C04"


def tier_shapes(tier):
    if tier == "quick":
        return spec.knot_shapes(2, 1) + [(3, ()), (3, (1,)), (3, (2,)), (2, (1, 1)), (2, (1, 2)), (1, (1, 1)), (1, (2, 1))]
    return spec.knot_shapes(3, 2) + [s for s in spec.knot_shapes(4, 1, 4)]


def node_classes(shape, tier):
    """Lists of node descriptors: ('open', z, id) fresh value in span z; ('knot', z) existing distinct knot z."""
    p, mults = shape
    nk = len(mults) + 2
    out = []
    for z in range(nk - 1):
        out.append([("open", z, 0)])
    for z in range(1, nk - 1):
        if mults[z - 1] < p + 1:
            out.append([("knot", z)])
    if p >= 1:
        out.append([("open", 0, 0), ("open", 0, 0)])                 # the same new node twice
        out.append([("open", nk - 2, 1), ("open", 0, 0)])            # two distinct nodes, given unsorted
        out.append([("open", 0, 0), ("open", 0, 1)])                 # two distinct nodes in one span
    if p >= 2 and tier != "quick":
        out.append([("open", 0, 0)] * 3)
    for z in range(1, nk - 1):
        if mults[z - 1] + 2 <= p + 1:
            out.append([("knot", z), ("open", 0, 0), ("knot", z)])
        elif mults[z - 1] + 1 <= p + 1:
            out.append([("open", nk - 2, 0), ("knot", z)])
    return out


def ntag(nodes):
    return "+".join("%s%d%s" % (d[0][0], d[1], "" if len(d) < 3 else "x%d" % d[2]) for d in nodes)


def setup_nodes(ctx, shape, nodes):
    """Constrain the fresh node symbols; returns the list of node Syms in the given order."""
    kn = H.knot_names(shape)
    per_span = {}
    for d in nodes:
        if d[0] == "open":
            per_span.setdefault(d[1], set()).add(d[2])
    sep = z3.RealVal(str(H.SEP))      # new nodes become knots: A3 applies to the resulting vector as well
    for z, ids in per_span.items():
        ids = sorted(ids)
        prev = ctx.zv[kn[z]]
        for i in ids:
            x = ctx.zv["x%d_%d" % (z, i)]
            ctx.base.append(x >= prev + sep)
            prev = x
        ctx.base.append(prev <= ctx.zv[kn[z + 1]] - sep)
    return [ctx.sym(kn[d[1]]) if d[0] == "knot" else ctx.sym("x%d_%d" % (d[1], d[2])) for d in nodes]


def node_names(nodes):
    return sorted({"x%d_%d" % (d[1], d[2]) for d in nodes if d[0] == "open"})


def spec_sorted(ctx, vals):
    out = []
    for v in vals:
        i = len(out)
        while i > 0 and not (spec.iszero(out[i - 1] - v) or ctx.must(out[i - 1] <= v)):
            i -= 1
        out.insert(i, v)
    return out


def span_of(ctx, U, p, x):
    """Index k of the non-empty span of U that contains x (x is the left end of a non-empty span of a refinement)."""
    n = len(U) - p - 1
    for k in range(n - 1, p - 1, -1):
        if spec.iszero(U[k + 1] - U[k]):
            continue
        if spec.iszero(U[k] - x) or ctx.must(U[k] <= x):
            return k
    raise H.SpecUndecided("no span")


def refinement_pairs(ctx, Uold, Unew, p, T, t, label=""):
    """Identities sum_j Nnew_j(t) T[j][i] == Nold_i(t) on every non-empty span of the new vector."""
    nold, nnew = len(Uold) - p - 1, len(Unew) - p - 1
    pairs = []
    for k in range(p, nnew):
        if spec.iszero(Unew[k + 1] - Unew[k]):
            continue
        kold = span_of(ctx, Uold, p, Unew[k])
        Nn = spec.cdb(Unew, p, k, t)[:nnew]
        No = spec.cdb(Uold, p, kold, t)[:nold]
        for i in range(nold):
            lhs = sum(Nn[j] * T[j][i] for j in range(nnew) if not spec.iszero(Nn[j]))
            pairs.append(("%sspan%d,col%d" % (label, k, i), lhs, No[i]))
    return pairs


# --------------------------------------------------------------------------------------
def task_matrix(shape, tier):
    p, mults = shape
    n = p + 1 + sum(mults)
    out = []
    fn = "heavy.Operations.knot_insert"
    for nodes in node_classes(shape, tier):
        ctx = H.new_ctx(shape, ["t"] + node_names(nodes))
        xs = setup_nodes(ctx, shape, nodes)

        def body(chk, ctx=ctx, xs=xs, nodes=nodes):
            U, ks = H.sym_vector(ctx, shape)
            t = ctx.sym("t")
            T = chk.call(heavy.Operations.knot_insert, tuple(U), tuple(xs))
            Unew = spec_sorted(ctx, list(U) + list(xs))
            ok = len(T) == n + len(xs) and all(len(r) == n for r in T)
            chk.add("shape", ok, "matrix is (npts + len(nodes)) x npts")
            if ok:
                chk.identities("post", refinement_pairs(ctx, U, Unew, p, T, t))
                chk.exact("exact", T)

        out += H.run_paths(ctx, fn, "S-sym", stag(shape, None, ",nodes=" + ntag(nodes)),
                           dict(kind="c04.matrix", shape=shape, nodes=nodes), body)
    return out


task_matrix.contract_fn = "heavy.Operations.knot_insert"


def curve_value_pairs(ctx, Uold, Pold, Wold, Unew, Pnew, Wnew, p, t, label=""):
    """C_new(t) == C_old(t) on every non-empty span of the new vector (rational: as rational functions)."""
    nold, nnew = len(Uold) - p - 1, len(Unew) - p - 1
    pairs = []
    for k in range(p, nnew):
        if spec.iszero(Unew[k + 1] - Unew[k]):
            continue
        kold = span_of(ctx, Uold, p, Unew[k])
        Nn = spec.cdb(Unew, p, k, t)[:nnew]
        No = spec.cdb(Uold, p, kold, t)[:nold]
        if Wold is None:
            new = sum(Nn[j] * Pnew[j] for j in range(nnew))
            old = sum(No[i] * Pold[i] for i in range(nold))
        else:
            new = sum(Nn[j] * Wnew[j] * Pnew[j] for j in range(nnew)) / sum(Nn[j] * Wnew[j] for j in range(nnew))
            old = sum(No[i] * Wold[i] * Pold[i] for i in range(nold)) / sum(No[i] * Wold[i] for i in range(nold))
        pairs.append(("%sC(u) on new span %d" % (label, k), new, old))
    return pairs


def snapshot(curve):
    return (tuple(curve.knotvector), curve.ctrlpoints, curve.weights)


def same_state(a, b):
    def eq(x, y):
        if x is None or y is None:
            return x is None and y is None
        if len(x) != len(y):
            return False
        for u, v in zip(x, y):
            if u is v:
                continue
            if isinstance(u, Sym) and isinstance(v, Sym):
                if u.e != v.e:
                    return False
            elif isinstance(u, np.ndarray) or isinstance(v, np.ndarray):
                if not all(eq1(c, d) for c, d in zip(np.ravel(u), np.ravel(v))):
                    return False
            elif not eq1(u, v):
                return False
        return True

    def eq1(c, d):
        if isinstance(c, Sym) and isinstance(d, Sym):
            return c.e == d.e
        return bool(c == d)
    return all(eq(x, y) for x, y in zip(a, b))


def task_curve(shape, rational, tier):
    p, mults = shape
    n = p + 1 + sum(mults)
    out = []
    fn = "curves.Curve.knot_insert"
    pn = ["P%d" % i for i in range(n)]
    wn = ["w%d" % i for i in range(n)] if rational else []
    classes = node_classes(shape, tier)
    if tier == "quick":
        classes = classes[:4] + classes[-1:]
    for nodes in classes:
        ctx = H.new_ctx(shape, ["t"] + node_names(nodes) + pn + wn)
        H.positive(ctx, wn)
        xs = setup_nodes(ctx, shape, nodes)

        def body(chk, ctx=ctx, xs=xs):
            U, ks = H.sym_vector(ctx, shape)
            t = ctx.sym("t")
            P = [ctx.sym(x) for x in pn]
            W = [ctx.sym(x) for x in wn] if rational else None
            curve = chk.call(curves.Curve, list(U), P, W)
            chk.call(curve.knot_insert, list(xs))
            Unew = spec_sorted(ctx, list(U) + list(xs))
            got = list(curve.knotvector)
            chk.identities("post-knots", [("len", len(got), len(Unew))] + [("U[%d]" % i, a, b) for i, (a, b) in enumerate(zip(got, Unew))])
            okc = curve.ctrlpoints is not None and len(curve.ctrlpoints) == len(Unew) - p - 1 and \
                ((curve.weights is None) == (W is None)) and (W is None or len(curve.weights) == len(curve.ctrlpoints))
            chk.add("consistent", okc, "len(ctrlpoints) == npts (== len(weights))")
            if okc and len(got) == len(Unew):
                chk.identities("post-function", curve_value_pairs(ctx, U, P, W, Unew, list(curve.ctrlpoints),
                                                                  None if W is None else list(curve.weights), p, t))
                chk.exact("exact", [curve.ctrlpoints, curve.weights])

        out += H.run_paths(ctx, fn, "S-sym", stag(shape, None, ",%s,nodes=%s" % ("rat" if rational else "pol", ntag(nodes))),
                           dict(kind="c04.curve", shape=shape, nodes=nodes, rational=rational), body)
    return out


task_curve.contract_fn = "curves.Curve.knot_insert"


def task_reject(shape, rational):
    """Requests that would leave the valid set: ValueError and the curve unchanged."""
    p, mults = shape
    n = p + 1 + sum(mults)
    nk = len(mults) + 2
    out = []
    fn = "curves.Curve.knot_insert"
    pn = ["P%d" % i for i in range(n)]
    wn = ["w%d" % i for i in range(n)] if rational else []
    bad = [("below",), ("above",), ("end", 0), ("end", nk - 1)]
    for z in range(1, nk - 1):
        bad.append(("overflow", z))
    bad.append(("good+below",))
    bad += [("ends", 1), ("ends", 2)]          # k copies of BOTH end knots: a clamped vector of degree p + k, i.e. no insertion (D29)
    for case in bad:
        ctx = H.new_ctx(shape, ["t", "y", "x0_0"] + pn + wn)
        H.positive(ctx, wn)
        kn = H.knot_names(shape)
        sep = z3.RealVal(str(H.NODE_SEP))
        ctx.base += [ctx.zv["x0_0"] >= ctx.zv[kn[0]] + sep, ctx.zv["x0_0"] <= ctx.zv[kn[1]] - sep]
        if case[0] in ("below", "good+below"):
            ctx.base.append(ctx.zv["y"] <= ctx.zv[kn[0]] - sep)
        elif case[0] == "above":
            ctx.base.append(ctx.zv["y"] >= ctx.zv[kn[-1]] + sep)

        def body(chk, ctx=ctx, case=case):
            U, ks = H.sym_vector(ctx, shape)
            P = [ctx.sym(x) for x in pn]
            W = [ctx.sym(x) for x in wn] if rational else None
            y = ctx.sym("y")
            if case[0] in ("below", "above"):
                nodes = [y]
            elif case[0] == "end":
                nodes = [ks[case[1]]]
            elif case[0] == "overflow":
                nodes = [ks[case[1]]] * (p + 2 - mults[case[1] - 1])
            elif case[0] == "ends":
                nodes = [ks[0]] * case[1] + [ks[-1]] * case[1]
            else:
                nodes = [ctx.sym("x0_0"), y]
            curve = chk.call(curves.Curve, list(U), P, W)
            before = snapshot(curve)
            try:
                chk.call(curve.knot_insert, nodes)
                chk.add("rejects", False, "no exception; knot vector is now %s" % (tuple(curve.knotvector),))
            except ValueError:
                chk.add("rejects", True, "ValueError")
            except (AssertionError, IndexError, ZeroDivisionError, TypeError) as e:
                chk.add("rejects", False, "expected ValueError, got %s" % type(e).__name__, tags={"exception": type(e).__name__})
            chk.add("atomic", same_state(before, snapshot(curve)), "knot vector, control points and weights unchanged after the rejected request")

        out += H.run_paths(ctx, fn, "S-sym", stag(shape, None, ",%s,bad=%s" % ("rat" if rational else "pol", "".join(map(str, case)))),
                           dict(kind="c04.reject", shape=shape, case=list(case), rational=rational), body)
    return out


task_reject.contract_fn = "curves.Curve.knot_insert"


# --------------------------------------------------------------------------------------
# engine B: the node argument may be any iterable (tuple, generator, iterator, map, numpy array): same result as for a list
# --------------------------------------------------------------------------------------
def task_argkinds():
    fn = "curves.Curve.knot_insert"
    import numpy as np
    F = Fraction
    U = [F(-1)] * 3 + [F(0), F(2)] + [F(3)] * 3
    P = [F(1), F(-2), F(4), F(0), F(3)]
    W = [F(1), F(2), F(1), F(3), F(1)]
    kinds = {
        "tuple": lambda xs: tuple(xs), "generator": lambda xs: (x for x in xs), "iterator": lambda xs: iter(list(xs)), "map": lambda xs: map(lambda x: x, xs),
        "numpy-object-array": lambda xs: np.array(list(xs), dtype=object), "reversed-list": lambda xs: list(xs)[::-1], "dict-keys": lambda xs: dict.fromkeys(xs).keys(),
    }
    out = []
    for rational in (False, True):
        for nodes in ([F(1)], [F(1, 2), F(5, 2)], [F(0)], [F(2), F(2), F(1)], [F(7)], [F(0), F(0), F(0)]):
            if "dict-keys" and len(set(nodes)) != len(nodes):
                pass
            ref = curves.Curve(list(U), list(P), list(W) if rational else None)
            try:
                ref.knot_insert(list(nodes))
                want = ("ok", tuple(ref.knotvector), tuple(ref.ctrlpoints), ref.weights)
            except ValueError:
                want = ("ValueError", tuple(ref.knotvector), tuple(ref.ctrlpoints), ref.weights)
            for kind, mk in kinds.items():
                if kind == "dict-keys" and len(set(nodes)) != len(nodes):
                    continue
                c = curves.Curve(list(U), list(P), list(W) if rational else None)
                try:
                    c.knot_insert(mk(nodes))
                    got = ("ok", tuple(c.knotvector), None if c.ctrlpoints is None else tuple(c.ctrlpoints), c.weights)
                except Exception as e:
                    got = (type(e).__name__, tuple(c.knotvector), None if c.ctrlpoints is None else tuple(c.ctrlpoints), c.weights)
                ok = got == want
                out.append(ob("%s:argument-kind[%s,nodes=%s,%s]" % (fn, kind, "+".join(map(str, nodes)), "rat" if rational else "pol"), fn, PROVED if ok else FAILED,
                              "B", "concrete", 0.0, "same outcome and state as for the list %s" % list(map(str, nodes)) if ok else
                              "list gives %s, %s gives %s" % (str(want)[:160], kind, str(got)[:200]),
                              None if ok else dict(kind="c04.argkind", argkind=kind, nodes=[str(x) for x in nodes], rational=rational)))
    return out + [{"_stats": dict(cases=len(out))}]


task_argkinds.contract_fn = "curves.Curve.knot_insert"


def tasks(tier, seed):
    from ..pyvc.driver import verify
    from ..contracts import kv, misc
    from ..contracts import curvesv
    ts = [(verify, (misc.INSERT_ONCE, "heavy", "Operations.one_knot_insert_once", None)),
          (verify, (kv.ADD, "heavy", "ImmutableKnotVector.__add__", None))]
    # shape-level contracts (all curves, all node lists): npts + len(nodes), same degree, INV, refusals atomic, callers meet apply's precondition
    ts += curvesv.tasks_for(("Curve.knot_insert", "BaseCurve.apply"))
    for sh in tier_shapes(tier):
        ts.append((task_matrix, (sh, tier)))
        ts.append((task_curve, (sh, False, tier)))
        if tier != "quick" or sh[0] <= 2:
            ts.append((task_curve, (sh, True, tier)))
        if tier != "quick" or len(sh[1]) <= 1:
            ts.append((task_reject, (sh, False)))
    ts.append((task_reject, ((2, (1,)), True)))
    ts.append((task_argkinds, ()))
    from . import kinds
    ts += [(kinds.task_kinds, ("C04", op)) for op in kinds.OPS["C04"][1]]
    return ts


# --------------------------------------------------------------------------------------
def concrete_nodes(w, pt, ks):
    out = []
    for d in w["nodes"]:
        out.append(ks[d[1]] if d[0] == "knot" else pt["x%d_%d" % (d[1], d[2])])
    return out


def oracle_curve_equal(U1, P1, W1, U2, P2, W2, p):
    """Exact comparison of two curves of degree p as functions: p+2 sample parameters on every common span."""
    cuts = sorted(set(U1) | set(U2))
    for a, b in zip(cuts[:-1], cuts[1:]):
        for s in range(1, p + 3 + (0 if W1 is None else p)):
            u = a + (b - a) * Fraction(s, p + 4 + (0 if W1 is None else p))
            if spec.curve_value(U1, p, P1, u, W1) != spec.curve_value(U2, p, P2, u, W2):
                return False, u
    return True, None


def replay(o):
    w = o["witness"]
    if w.get("kind") == "kinds":
        from . import kinds
        return kinds.replay(o)
    if w.get("kind") == "c04.argkind":
        tag = "[%s,nodes=%s,%s]" % (w["argkind"], "+".join(w["nodes"]), "rat" if w["rational"] else "pol")
        r = [x for x in task_argkinds() if "id" in x and x["id"].endswith(tag)][0]
        return r["status"] == FAILED, "same outcome and state as for a list argument", r["detail"]
    shape, pt, U, ks = concrete_inputs(w)
    p = shape[0]
    n = len(U) - p - 1
    kind = w["kind"]
    if kind == "c04.reject":
        case = w["case"]
        P = [pt["P%d" % i] for i in range(n)]
        W = [pt["w%d" % i] for i in range(n)] if w["rational"] else None
        if case[0] in ("below", "above"):
            nodes = [pt["y"]]
        elif case[0] == "end":
            nodes = [ks[case[1]]]
        elif case[0] == "overflow":
            nodes = [ks[case[1]]] * (p + 2 - shape[1][case[1] - 1])
        elif case[0] == "ends":
            nodes = [ks[0]] * case[1] + [ks[-1]] * case[1]
        else:
            nodes = [pt["x0_0"], pt["y"]]
        curve = curves.Curve(list(U), P, W)
        before = (tuple(curve.knotvector), curve.ctrlpoints, curve.weights)
        try:
            curve.knot_insert(nodes)
            got = "no exception"
        except Exception as e:
            got = type(e).__name__
        after = (tuple(curve.knotvector), curve.ctrlpoints, curve.weights)
        return got != "ValueError" or before != after, dict(U=U, nodes=nodes, expected="ValueError, state unchanged"), \
            dict(outcome=got, unchanged=before == after)
    nodes = concrete_nodes(w, pt, ks)
    Unew = sorted(list(U) + nodes)
    if kind == "c04.matrix":
        try:
            T = heavy.Operations.knot_insert(tuple(U), tuple(nodes))
        except Exception as e:
            return True, dict(U=U, nodes=nodes, expected="a refinement matrix"), "%s: %s" % (type(e).__name__, e)
        # column i of T are the control points of N_old_i on the new vector
        for i in range(n):
            Pold = [Fraction(int(k == i)) for k in range(n)]
            Pnew = [T[j][i] for j in range(len(T))]
            if len(Pnew) != len(Unew) - p - 1:
                return True, "shape", len(Pnew)
            ok, u = oracle_curve_equal(U, Pold, None, Unew, Pnew, None, p)
            if not ok or any(isinstance(x, float) for x in Pnew):
                return True, dict(U=U, nodes=nodes, column=i, at=u), [str(x) for x in Pnew]
        return False, dict(U=U, nodes=nodes), "refinement identity holds"
    if kind == "c04.curve":
        P = [pt["P%d" % i] for i in range(n)]
        W = [pt["w%d" % i] for i in range(n)] if w["rational"] else None
        curve = curves.Curve(list(U), P, W)
        try:
            curve.knot_insert(nodes)
        except Exception as e:
            return True, dict(U=U, nodes=nodes, P=P, W=W, expected="insertion succeeds"), "%s: %s" % (type(e).__name__, e)
        got = tuple(curve.knotvector)
        if list(got) != list(Unew):
            return True, dict(expected_knots=Unew), dict(knots=got)
        ok, u = oracle_curve_equal(U, P, W, list(got), list(curve.ctrlpoints), None if W is None else list(curve.weights), p)
        return (not ok), dict(U=U, nodes=nodes, P=P, W=W, differs_at=u), dict(ctrlpoints=curve.ctrlpoints, weights=curve.weights)
    raise ValueError(kind)


INFO = dict(
    assumptions=A.S_COMMON + [A.A10, A.A11, A.A12], trusted_base=A.TRUSTED, min_obligations=200, level="other",
    explanation="C04: engine V proves that one_knot_insert_once returns exactly Boehm's matrix (identity rows, alpha / 1-alpha band, shift rows; index safety, no "
                "division by zero, termination) for every knot vector, interior node and admissible multiplicity; that this matrix preserves the function is then an "
                "identity checked per shape by engine S: refinement identity of the insertion matrix and function-preservation of Curve.knot_insert on every span of the "
                "refined vector, for node classes (new value in every open span, existing knots, repeated / several / unsorted nodes); the new value "
                "ranges over the whole open span, so the value 0 is inside the symbolic range. Rejections: ValueError and unchanged state.",
    functions=["heavy.Operations.one_knot_insert_once (V: equals Boehm's closed-form matrix for ALL knot vectors, nodes and multiplicities <= p)",
               "heavy.ImmutableKnotVector.__add__ (V)", "heavy.Operations.one_knot_insert", "heavy.Operations.knot_insert",
               "heavy.ImmutableKnotVector.__add__", "curves.Curve.knot_insert", "curves.BaseCurve.apply"],
)


def info(tier, seed, obs):
    return dict(bounds="tier %s: %s; up to 3 nodes per request" % (
        tier, "p<=2 with <=1 interior knot plus selected p=3 / two-knot shapes" if tier == "quick" else "p<=3 with <=2 interior knots, p=4 with <=1"))
