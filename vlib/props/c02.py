"""C02 — basis functions obey the Cox-de Boor definition for every index and sub-degree."""
from __future__ import annotations

from fractions import Fraction

import numpy as np

from .. import assume as A
from .. import spec
from ..report import FAILED, PROVED, ob
from ..env import functions, heavy
from ..symx import harness as H
from ..symx.sym import Sym, SymBool
from .c01 import concrete_inputs, stag, tier_shapes as c01_shapes

PROP = "C02"


def tier_shapes(tier):
    if tier == "quick":
        return spec.knot_shapes(3, 1) + [s for s in spec.knot_shapes(2, 2) if len(s[1]) == 2]
    return spec.knot_shapes(4, 2) + [s for s in spec.knot_shapes(2, 3) if len(s[1]) == 3] + \
        [s for s in spec.knot_shapes(5, 1, 5)]


def spec_table(ctx, U, p, j, kspec, t, n, W):
    N = spec.cdb(U, j, kspec, t)[:n]
    if W is None:
        return N, None
    den = sum(w * v for w, v in zip(W, N))
    return [w * v / den for w, v in zip(W, N)], den


def cdb_signs(ctx, U, j, k, u):
    """Cox-de Boor on the spec side with a sign certificate: every factor that multiplies a
    term which is not identically zero is >= 0 on the span (decided by linear arithmetic)."""
    m = len(U) - 1
    zero = 0 * u
    N = [zero + 1 if i == k else zero for i in range(m)]
    ok = True
    for d in range(1, j + 1):
        new = []
        for i in range(m - d):
            val = zero
            den1 = U[i + d] - U[i]
            if not spec.iszero(den1) and not spec.iszero(N[i]):
                ok = ok and ctx.entails(u - U[i] >= 0) and ctx.entails(den1 > 0)
                val = val + (u - U[i]) / den1 * N[i]
            den2 = U[i + d + 1] - U[i + 1]
            if not spec.iszero(den2) and not spec.iszero(N[i + 1]):
                ok = ok and ctx.entails(U[i + d + 1] - u >= 0) and ctx.entails(den2 > 0)
                val = val + (U[i + d + 1] - u) / den2 * N[i + 1]
            new.append(val)
        N = new
    return N, ok


def task_function(shape, rational):
    p, mults = shape
    n = p + 1 + sum(mults)
    out = []
    fn = "functions.FunctionEvaluator.eval"
    for pos in H.positions(shape):
        wn = ["w%d" % i for i in range(n)] if rational else []
        ctx = H.new_ctx(shape, ["t"] + wn)
        H.positive(ctx, wn)
        t = H.constrain_param(ctx, shape, "t", pos)
        kspec = H.spec_span_of(shape, pos)
        k0 = H.spec_span_of(shape, ("knot", 0))

        def body(chk, ctx=ctx, t=t, kspec=kspec, wn=wn, pos=pos):
            U, ks = H.sym_vector(ctx, shape)
            W = [ctx.sym(x) for x in wn] if rational else None
            f = chk.call(functions.Function, list(U))
            if rational:
                chk.call(setattr, f, "weights", W)
            ctx.nonzero_elems = []
            tables = {}
            for j in range(p + 1):
                S, den = spec_table(ctx, U, p, j, kspec, t, n, W)
                S0, den0 = spec_table(ctx, U, p, j, k0, ks[0], n, W)
                tables[j] = (S, S0)
                if rational:
                    ctx.nonzero_elems += [den.e, den0.e]     # A8 (weight function of sub-degree j)
            for j in range(p + 1):
                S, S0 = tables[j]
                allrows = chk.call(lambda: f[:, j](t))
                ok = isinstance(allrows, tuple) and len(allrows) == n
                chk.add("table-shape,j=%d" % j, ok, "f[:, j](u) has npts entries")
                if not ok:
                    continue
                pairs = [("f[:,%d][%d]" % (j, i), allrows[i], S[i]) for i in range(n)]
                # single index, negative index, slice: rows of the same table
                for i in sorted({0, n - 1, n // 2}):
                    pairs.append(("f[%d,%d]" % (i, j), chk.call(lambda: f[i, j](t)), S[i]))
                    pairs.append(("f[%d,%d]" % (i - n, j), chk.call(lambda: f[i - n, j](t)), S[i]))
                sl = chk.call(lambda: f[1:, j](t))
                ok2 = len(sl) == n - 1
                chk.add("slice-shape,j=%d" % j, ok2, "f[1:, j](u) has npts-1 entries")
                if ok2:
                    pairs += [("f[1:,%d][%d]" % (j, i - 1), sl[i - 1], S[i]) for i in range(1, n)]
                chk.identities("post,j=%d" % j, pairs)
                # sequence argument: one row value per node, in order
                seq = chk.call(lambda: f[n - 1, j]([t, ks[0]]))
                ok3 = hasattr(seq, "__len__") and len(seq) == 2
                chk.add("seq-shape,j=%d" % j, ok3, "f[i, j]([u, umin]) has 2 values")
                if ok3:
                    chk.identities("post-seq,j=%d" % j, [("seq0", seq[0], S[n - 1]), ("seq1", seq[1], S0[n - 1])])
            # f[i] is f[i, p]; f(u) is f[:, p](u)
            S, S0 = tables[p]
            dflt = chk.call(f, t)
            okd = isinstance(dflt, tuple) and len(dflt) == n
            chk.add("default-shape", okd, "f(u) has npts entries")
            if okd:
                chk.identities("post-default", [("f(u)[%d]" % i, dflt[i], S[i]) for i in range(n)] +
                               [("f[%d](u)" % i, chk.call(lambda: f[i](t)), S[i]) for i in (0, n - 1)])
            chk.exact("exact", dflt)
            # consequences, proved on the spec and transferred through the equalities above
            for j in range(p + 1):
                Nj, okpos = cdb_signs(ctx, U, j, kspec, t)
                chk.add("spec-nonneg,j=%d" % j, okpos, "every Cox-de Boor factor of a non-zero term is >= 0 on this span (linear arithmetic)",
                        backend="z3-linear")
                outside = [i for i in range(n) if not (i <= kspec <= i + j)]
                chk.add("spec-support,j=%d" % j, all(spec.iszero(Nj[i]) for i in outside),
                        "N_i,j vanishes identically on spans outside [u_i, u_(i+j+1)] (%d indices)" % len(outside))
            Np = spec.cdb(U, p, kspec, t)[:n]
            tot = sum(Np)
            chk.identities("spec-partition-of-unity", [("sum_i N_i,p", tot, 1)])

        out += H.run_paths(ctx, fn, "S-sym", stag(shape, pos, ",rat" if rational else ",pol"),
                           dict(kind="c02.function", shape=shape, pos=pos, rational=rational), body)
    return out


task_function.contract_fn = "functions.FunctionEvaluator.eval"


def task_history(shape):
    """Histories on one Function object: evaluate, set weights, evaluate, replace weights, evaluate, remove weights, evaluate."""
    p, mults = shape
    n = p + 1 + sum(mults)
    out = []
    fn = "functions.IndexableFunction.eval"
    for pos in H.positions(shape)[:2] + H.positions(shape)[-1:]:
        wn = ["w%d" % i for i in range(n)] + ["v%d" % i for i in range(n)]
        ctx = H.new_ctx(shape, ["t"] + wn)
        H.positive(ctx, wn)
        t = H.constrain_param(ctx, shape, "t", pos)
        kspec = H.spec_span_of(shape, pos)

        def body(chk, ctx=ctx, t=t, kspec=kspec):
            U, ks = H.sym_vector(ctx, shape)
            W1 = [ctx.sym("w%d" % i) for i in range(n)]
            W2 = [ctx.sym("v%d" % i) for i in range(n)]
            S0, _ = spec_table(ctx, U, p, p, kspec, t, n, None)
            S1, d1 = spec_table(ctx, U, p, p, kspec, t, n, W1)
            S2, d2 = spec_table(ctx, U, p, p, kspec, t, n, W2)
            ctx.nonzero_elems = [d1.e, d2.e]
            f = chk.call(functions.Function, list(U))
            steps = [("fresh", None, S0), ("weights-set-after-evaluation", W1, S1), ("weights-replaced", W2, S2), ("weights-removed", None, S0)]
            for i, (label, W, S) in enumerate(steps):
                if i:
                    chk.call(setattr, f, "weights", W)
                got = chk.call(f, t)
                ok = isinstance(got, tuple) and len(got) == n
                chk.add("history-shape:" + label, ok, "f(u) has npts entries")
                if ok:
                    chk.identities("history:" + label, [("f(u)[%d]" % k, got[k], S[k]) for k in range(n)] +
                                   [("f[:,p](u)[%d]" % k, v, S[k]) for k, v in enumerate(chk.call(lambda: f[:, p](t)))])

        out += H.run_paths(ctx, fn, "S-sym", stag(shape, pos, ",history"), dict(kind="c02.history", shape=shape, pos=pos, rational=True), body)
    return out


task_history.contract_fn = "functions.IndexableFunction.eval"


# --------------------------------------------------------------------------------------
# engine B: every index form on concrete vectors, and histories with in-place changes of the knot vector
# --------------------------------------------------------------------------------------
B_VECTORS = {
    "p0": [Fraction(0), Fraction(1), Fraction(5, 2), Fraction(3)],
    "p1": [Fraction(0)] * 2 + [Fraction(1), Fraction(1), Fraction(2)] + [Fraction(3)] * 2,
    "p2": [Fraction(-1)] * 3 + [Fraction(0), Fraction(1, 2), Fraction(1, 2)] + [Fraction(2)] * 3,
    "p3": [Fraction(0)] * 4 + [Fraction(1)] + [Fraction(4)] * 4,
}


def _params(U):
    ks = sorted(set(U))
    return ks + [(a + b) / 2 for a, b in zip(ks[:-1], ks[1:])] + [ks[-1] - Fraction(1, 10 ** 12), ks[0] + Fraction(1, 3)]


def task_indexing(name):
    """f[i, j], f[slice, j], f[i], f[slice] select rows of the spec table: EVERY int index in [-n, n) and every slice over a grid of
    start / stop / step (negative steps, open ends, bounds beyond +-n), all j, several u; out-of-range ints raise IndexError."""
    fn = "functions.IndexableFunction.__getitem__"
    U = B_VECTORS[name]
    p = U.count(U[0]) - 1
    n = len(U) - p - 1
    f = functions.Function(list(U))
    vals = [None, 0, 1, 2, n - 1, n, n + 2, -1, -2, -n, -n - 1, -n - 3]
    steps = [None, 1, 2, -1, -2, n + 1, -n - 1]
    bad, cases = [], 0
    for u in _params(U):
        for j in range(p + 1):
            table = tuple(spec.basis(U, p, j, u))
            for i in range(-n, n):
                cases += 1
                try:
                    got = f[i, j](u)
                except Exception as e:
                    got = type(e).__name__
                if got != table[i]:
                    bad.append(("f[%d,%d](%s)" % (i, j, u), str(got), str(table[i])))
            for a in vals:
                for b in vals:
                    for st in steps:
                        sl = slice(a, b, st)
                        cases += 1
                        try:
                            got = tuple(f[sl, j](u))
                        except Exception as e:
                            got = type(e).__name__
                        if got != table[sl]:
                            bad.append(("f[%s:%s:%s,%d](%s)" % (a, b, st, j, u), str(got)[:80], str(table[sl])[:80]))
        tablep = tuple(spec.basis(U, p, p, u))
        for sl in (slice(None, None, -1), slice(None, None, -2), slice(2, None, -1), slice(-1, -n - 1, -1), slice(1, None)):
            cases += 1
            try:
                got = tuple(f[sl](u))
            except Exception as e:
                got = type(e).__name__
            if got != tablep[sl]:
                bad.append(("f[%s](%s)" % (sl, u), str(got)[:80], str(tablep[sl])[:80]))
    for i in (n, n + 3, -n - 1):
        cases += 1
        try:
            f[i, p]
            bad.append(("f[%d,%d]" % (i, p), "accepted", "IndexError"))
        except IndexError:
            pass
        except Exception as e:
            bad.append(("f[%d,%d]" % (i, p), type(e).__name__, "IndexError"))
    if bad:
        return [ob("%s:rows-of-the-table[%s]" % (fn, name), fn, FAILED, "B", "exhaustive-enumeration", 0.0,
                   "%d of %d index forms select something else than the rows of the Cox-de Boor table; first: %s gave %s, expected %s" % (
                       (len(bad), cases) + bad[0]), dict(kind="c02.indexing", vector=name, first=list(bad[0])))]
    return [ob("%s:rows-of-the-table[%s]" % (fn, name), fn, PROVED, "B", "exhaustive-enumeration", 0.0,
               "%d index forms (all ints in [-n, n), %d x %d x %d slices, all j, %d parameters): rows of the Cox-de Boor table" % (
                   cases, len(vals), len(vals), len(steps), len(_params(U)))), {"_stats": dict(cases=cases)}]


task_indexing.contract_fn = "functions.IndexableFunction.__getitem__"


def _mutations():
    return [
        ("degree+=1", lambda f: setattr(f, "degree", f.degree + 1)),
        ("degree-=1", lambda f: setattr(f, "degree", f.degree - 1)),
        ("knotvector.insert", lambda f: f.knotvector.insert([(f.knotvector.limits[0] + 2 * f.knotvector.limits[1]) / 3])),
        ("knotvector.shift", lambda f: f.knotvector.shift(Fraction(1, 7))),
        ("knotvector.scale", lambda f: f.knotvector.scale(Fraction(3, 2))),
        ("knotvector=", lambda f: setattr(f, "knotvector", [Fraction(0)] * 3 + [Fraction(2)] + [Fraction(5)] * 3)),
        ("weights=", lambda f: setattr(f, "weights", [Fraction(i + 1) for i in range(f.npts)])),
        ("weights=None", lambda f: setattr(f, "weights", None)),
    ]


def task_inplace_history(name):
    """One Function object: evaluate, change its knot vector IN PLACE (or through a setter), evaluate again - after every step f(u), f[:, p](u)
    and f[i, j](u) are the table of the knot vector the object has NOW (all sequences of two changes)."""
    fn = "functions.IndexableFunction.eval"
    U = B_VECTORS[name]
    muts = _mutations()
    bad, cases = [], 0
    for a in range(len(muts)):
        for b in range(len(muts)):
            f = functions.Function(list(U))
            f(U[0])
            trail = []
            for label, m in (muts[a], muts[b]):
                try:
                    m(f)
                except (ValueError, AssertionError):
                    trail.append(label + "(refused)")
                    continue
                trail.append(label)
                V = [Fraction(x) for x in f.knotvector]
                p = f.degree
                W = None if f.weights is None else list(f.weights)
                if W is not None and len(W) != f.npts:
                    break       # weights of the OLD number of functions: the caller has to set new ones (outside the property)
                for u in (V[0], (V[0] + V[-1]) / 2, V[-1], (2 * V[0] + V[-1]) / 3):
                    cases += 1
                    want = tuple(spec.basis(V, p, p, u, W))
                    try:
                        got = (tuple(f(u)), tuple(f[:, p](u)), f[0, p](u), f[-1, 0](u))
                    except Exception as e:
                        got = type(e).__name__
                    exp = (want, want, want[0], tuple(spec.basis(V, p, 0, u, W))[-1])
                    if got != exp:
                        bad.append((trail[:], str(u), str(got)[:120], str(exp)[:120]))
                        break
    if bad:
        return [ob("%s:history:in-place-change[%s]" % (fn, name), fn, FAILED, "B", "exhaustive-enumeration", 0.0,
                   "%d histories give values of another knot vector / weight list than the object has; first: after %s at u=%s got %s expected %s" % (
                       (len(bad),) + tuple(bad[0])), dict(kind="c02.inplace", vector=name, trail=bad[0][0], u=bad[0][1]))]
    return [ob("%s:history:in-place-change[%s]" % (fn, name), fn, PROVED, "B", "exhaustive-enumeration", 0.0,
               "%d evaluations after all sequences of two of %d changes (in-place degree / insert / shift / scale, setters): always the table of the current knot vector" % (
                   cases, len(muts))), {"_stats": dict(cases=cases)}]


task_inplace_history.contract_fn = "functions.IndexableFunction.eval"


def tasks(tier, seed):
    from ..pyvc.driver import verify
    from ..contracts import misc
    from ..contracts import funceval
    ts = [(verify, (c, m, q, v)) for c, m, q, v in misc.ALL if m == "functions"]
    # which row(s) of the table the caller gets, and in which shape, for all parameters and all start / stop of a unit-step slice
    ts += [(verify, (c, m, q, v)) for c, m, q, v in funceval.ALL]
    for sh in tier_shapes(tier):
        ts.append((task_function, (sh, False)))
        # rational functions in many symbolic weights blow up: rational / history runs up to degree 3 with <= 1 interior knot, degree 2 beyond
        small = sh[0] <= 2 or (sh[0] == 3 and len(sh[1]) <= 1)
        if small and (tier != "quick" or sh[0] <= 2):
            ts.append((task_function, (sh, True)))
        if small and (sh[0] <= 2 or tier != "quick"):
            ts.append((task_history, (sh,)))
    for name in B_VECTORS:
        ts.append((task_indexing, (name,)))
        ts.append((task_inplace_history, (name,)))
    return ts


def replay(o):
    w = o["witness"]
    if w["kind"] in ("c02.indexing", "c02.inplace"):
        r = (task_indexing if w["kind"] == "c02.indexing" else task_inplace_history)(w["vector"])[0]
        return r["status"] == FAILED, "rows of the Cox-de Boor table of the knot vector the object has now (vector %s)" % B_VECTORS[w["vector"]], r["detail"]
    shape, pt, U, ks = concrete_inputs(w)
    p = shape[0]
    n = len(U) - p - 1
    pos = tuple(w["pos"])
    t = ks[pos[1]] if pos[0] == "knot" else pt["t"]
    W = [pt["w%d" % i] for i in range(n)] if w.get("rational") else None
    if w["kind"] == "c02.history":
        W2 = [pt["v%d" % i] for i in range(n)]
        f = functions.Function(list(U))
        bad = []
        for label, Wx in (("fresh", None), ("weights-set-after-evaluation", W), ("weights-replaced", W2), ("weights-removed", None)):
            if label != "fresh":
                f.weights = Wx
            exp = spec.basis(U, p, p, t, Wx)
            got = f(t)
            if list(got) != exp:
                bad.append((label, [str(x) for x in got], [str(x) for x in exp]))
        return bool(bad), dict(U=U, t=t, W1=W, W2=W2, steps="f(u); set W1; f(u); set W2; f(u); weights=None; f(u)"), bad[:3]
    f = functions.Function(list(U))
    if W:
        f.weights = W
    bad = []
    for j in range(p + 1):
        exp = spec.basis(U, p, j, t, W)
        try:
            got = f[:, j](t)
            one = [f[i, j](t) for i in range(n)]
            neg = [f[i - n, j](t) for i in range(n)]
        except Exception as e:
            return True, exp, "%s: %s" % (type(e).__name__, e)
        for i in range(n):
            for g in (got[i], one[i], neg[i]):
                if isinstance(g, float) or g != exp[i]:
                    bad.append((i, j, str(g), str(exp[i])))
    return bool(bad), dict(U=U, t=t, W=W), bad[:6]


INFO = dict(
    assumptions=A.S_COMMON + [A.A13], trusted_base=A.TRUSTED, min_obligations=300, level="other",
    explanation="C02: Function(U)[i, j](u) against the Cox-de Boor spec for every j <= p; index validation proved unbounded by engine V; "
                "non-negativity, support and partition of unity are proved on the spec per shape and transfer through the equality contract.",
    functions=["functions.IndexableFunction.__valid_first_index (V)", "functions.IndexableFunction.__valid_second_index (V)",
               "functions.FunctionEvaluator.__init__/__compute_vector_spline/__compute_vector/__compute_matrix/eval",
               "functions.IndexableFunction.__getitem__/eval", "heavy.BasisFunction.speval_matrix"],
)


def info(tier, seed, obs):
    return dict(bounds="tier %s: %s; all multiplicities; every j <= p; parameter in every open span, at every knot and both ends; "
                "polynomial and rational (symbolic positive weights)" % (
                    tier, "p<=3 with <=1 interior knot, p<=2 with 2" if tier == "quick" else "p<=4 with <=2 interior knots, p<=2 with 3, p=5 with <=1"))
