"""C07 (second half) — joining adjacent pieces: (A | B) equals A on A's interval and B on B's interval."""
from __future__ import annotations

from fractions import Fraction

import numpy as np

from .. import spec
from ..env import curves, heavy
from ..symx import con
from ..symx import harness as H
from ..symx.sym import Sym
from .c04 import same_state, snapshot
from .c08 import consistent, curve_nd, nd
from .c14 import generic_margin_policy
from .fitcommon import apply_T

F = Fraction
A_, C_, B_ = F(-1, 3), F(2, 7), F(9, 4)       # A lives on [A_, C_], B on [C_, B_]
INNER_A, INNER_B = F(0), F(1)


def mkvec(p, m, lo, hi, inner):
    return [lo] * (p + 1) + [inner] * m + [hi] * (p + 1)


def cases(tier):
    out = [(0, 0, 0, 0), (1, 0, 1, 0), (1, 1, 1, 0), (2, 0, 2, 1), (2, 2, 2, 0), (1, 0, 2, 0), (2, 1, 1, 1), (3, 0, 3, 0)]
    if tier != "quick":
        out += [(3, 1, 3, 2), (2, 3, 2, 1), (0, 1, 2, 0), (3, 0, 1, 1)]
    return out


def side_pairs(ctx, R, Ua, pa, PA, WA, Ub, pb, PB, WB, t):
    prs = []
    cuts = sorted(set(R.knotvector) | set(Ua) | set(Ub))
    for a, b in zip(cuts[:-1], cuts[1:]):
        mid = (a + b) / 2
        rn, rd = curve_nd(R, mid, t)
        if mid < C_:
            en, ed = nd(Ua, pa, PA, WA, mid, t)
        else:
            en, ed = nd(Ub, pb, PB, WB, mid, t)
        prs.append(("(A|B)(u) on [%s,%s]" % (a, b), rn * ed, en * rd))
    return prs


def task_join(case, tier):
    pa, ma, pb, mb = case
    Ua, Ub = mkvec(pa, ma, A_, C_, INNER_A), mkvec(pb, mb, C_, B_, INNER_B)
    na, nb = len(Ua) - pa - 1, len(Ub) - pb - 1
    P = max(pa, pb)
    fn = "curves.BaseCurve.__or__"
    tag0 = "A=p%d/m%d,B=p%d/m%d" % case
    out = []
    mon = con.Monitor().install(heavy)
    wb = dict(kind="c07.join", case=list(case))
    try:
        an, bn = ["A%d" % i for i in range(na)], ["B%d" % i for i in range(nb)]
        for scen in ("discontinuous", "continuous"):
            ctx = con.con_ctx(an + bn + ["t"])
            ctx.policy = generic_margin_policy

            def body(chk, ctx=ctx, scen=scen):
                PA = [ctx.sym(x) for x in an]
                PB = [ctx.sym(x) for x in bn]
                if scen == "continuous":
                    PB[0] = PA[-1]
                t = ctx.sym("t")
                A = chk.call(curves.Curve, list(Ua), PA)
                B = chk.call(curves.Curve, list(Ub), PB)
                sa, sb = snapshot(A), snapshot(B)
                R = chk.call(lambda: A | B)
                okc = isinstance(R, curves.Curve) and consistent(R)
                chk.add("consistent", okc, "A | B is a curve with npts control points", extra={"scenario": scen})
                if okc:
                    chk.add("interval", R.knotvector[0] == A_ and R.knotvector[-1] == B_ and R.degree == P, "lives on [min A, max B] with degree max(p, q)")
                    chk.identities("post-join", side_pairs(ctx, R, Ua, pa, PA, None, Ub, pb, PB, None, t))
                    mj = spec.mult_of(list(R.knotvector), C_)
                    want = P + 1 if scen == "discontinuous" else P
                    chk.add("junction-multiplicity", mj == want, "junction knot keeps multiplicity %d (got %d): only what the curve needs there" % (want, mj))
                chk.add("operands-unchanged", same_state(sa, snapshot(A)) and same_state(sb, snapshot(B)), "A and B are not modified")

            out += H.run_paths(ctx, fn, "S-con", tag0 + "," + scen, dict(wb, scenario=scen), body)

        # pieces of a split give the original back (same degree only)
        if pa == pb and pa >= 1:
            p = pa
            for mc in range(1, p + 1):
                U = [A_] * (p + 1) + [INNER_A] * ma + [C_] * mc + [INNER_B] * mb + [B_] * (p + 1)
                n = len(U) - p - 1
                Ufull = [A_] * (p + 1) + [INNER_A] * ma + [C_] * (p + 1) + [INNER_B] * mb + [B_] * (p + 1)
                T = spec.refine_matrix(U, p, Ufull, p)
                qn = ["Q%d" % i for i in range(n)]
                ctx = con.con_ctx(qn + ["t"])
                ctx.policy = generic_margin_policy

                def body_s(chk, ctx=ctx, U=U, T=T, n=n, mc=mc):
                    Q = [ctx.sym(x) for x in qn]
                    t = ctx.sym("t")
                    full = apply_T(T, Q)
                    PA, PB = full[:na], full[len(full) - nb:]
                    A = chk.call(curves.Curve, list(Ua), PA)
                    B = chk.call(curves.Curve, list(Ub), PB)
                    R = chk.call(lambda: A | B)
                    okc = isinstance(R, curves.Curve) and consistent(R)
                    chk.add("consistent", okc, "A | B is a curve")
                    if okc:
                        chk.add("split-join-knots", list(R.knotvector) == list(U), "joining the pieces of a split restores the original knot vector "
                                "(junction multiplicity %d; got %d)" % (mc, spec.mult_of(list(R.knotvector), C_)), extra={"mc": mc})
                        if list(R.knotvector) == list(U):
                            chk.identities("split-join-points", [("Q[%d]" % i, a_, b_) for i, (a_, b_) in enumerate(zip(R.ctrlpoints, Q))])

                out += H.run_paths(ctx, fn, "S-con", tag0 + ",split-join,mc=%d" % mc, dict(wb, scenario="split-join", mc=mc), body_s)
        # not adjacent
        ctx = con.con_ctx(an + bn)

        def body_bad(chk, ctx=ctx):
            A = chk.call(curves.Curve, list(Ua), [ctx.sym(x) for x in an])
            B = chk.call(curves.Curve, [u + 1 for u in Ub], [ctx.sym(x) for x in bn])
            try:
                chk.call(lambda: A | B)
                chk.add("not-adjacent-raises", False, "no exception")
            except ValueError:
                chk.add("not-adjacent-raises", True, "ValueError")

        out += H.run_paths(ctx, fn, "S-con", tag0 + ",not-adjacent", dict(wb, scenario="bad"), body_bad)
    finally:
        mon.uninstall()
    out += mon.obligations(tag0)
    return out


task_join.contract_fn = "curves.BaseCurve.__or__"


def task_join_rational():
    """Rational pieces of a split joined again (goes through the rational fit path when cleaning the junction: D9).
    The control points are CONCRETE (only the parameter is symbolic): with symbolic control points the rational projection blows up in the fraction field and the
    task used up its whole CPU budget on a slower machine, which the watchdog reported as a failed `terminates` obligation - a false alarm of this check (DESIGN 6)."""
    fn = "curves.BaseCurve.__or__"
    ctx = con.con_ctx(["t"])
    ctx.policy = generic_margin_policy

    def body(chk):
        Q = [F(1), F(3), F(-2)]
        t = ctx.sym("t")
        W = [F(1), F(2), F(1)]
        U = [A_] * 3 + [B_] * 3
        C = chk.call(curves.Curve, U, Q, W)
        A, B = chk.call(C.split, [C_])
        try:
            R = chk.call(lambda: A | B)
        except Exception as e:
            chk.add("rational-join", False, "%s: %s" % (type(e).__name__, str(e)[:80]), tags={"rational": True})
            return
        okc = isinstance(R, curves.Curve) and consistent(R)
        if not okc or R.weights is None:
            chk.add("rational-join", False, "weights of the pieces are lost in the join", tags={"rational": True})
            return
        prs = side_pairs(ctx, R, list(A.knotvector), 2, list(A.ctrlpoints), list(A.weights), list(B.knotvector), 2, list(B.ctrlpoints), list(B.weights), t)
        chk.identities("rational-join", prs, tags={"rational": True})

    return H.run_paths(ctx, fn, "S-con", "rational-split-join,rat", dict(kind="c07.join", scenario="rational", rational=True, case=None), body)


task_join_rational.contract_fn = "curves.BaseCurve.__or__"


# --------------------------------------------------------------------------------------
# engine B: knots away from the junction survive a join; split() after an in-place affine change of the curve's knot vector
# --------------------------------------------------------------------------------------
def task_concrete():
    from ..report import FAILED, PROVED, ob
    fn = "curves.BaseCurve.__or__"
    out = []
    # (1) A carries a REDUNDANT interior knot (inserted by hand, not needed by the curve) away from the junction: A | B keeps it - only the junction is cleaned
    for p in (1, 2, 3):
        A = curves.Curve([F(0)] * (p + 1) + [F(2)] * (p + 1), [F((-1) ** i * (i + 1), 2) for i in range(p + 1)])
        A.knot_insert([F(1, 2)])
        B = curves.Curve([F(2)] * (p + 1) + [F(5)] * (p + 1), [A.ctrlpoints[-1]] + [F(i * i - 2) for i in range(1, p + 1)])
        B.knot_insert([F(3), F(4)])
        want_knots = sorted(list(A.knotvector)[:-1] + list(B.knotvector)[p + 1:])          # junction of multiplicity p (continuous, generic)
        bad = None
        try:
            R = A | B
            if sorted(R.knotvector) != want_knots:
                bad = "knot vector %s, expected %s (the inserted knots 1/2, 3, 4 are not junction knots)" % (list(map(str, R.knotvector)), list(map(str, want_knots)))
            else:
                for u in (F(1, 4), F(1), F(2), F(7, 2), F(9, 2), F(0), F(5)):
                    exp = (A if u <= 2 else B)(u)
                    if R(u) != exp:
                        bad = "(A|B)(%s) = %s, expected %s" % (u, R(u), exp)
                        break
            # round trip: split at the junction and at nothing else, join again
            if not bad:
                X, Y = R.split([F(2)])
                R2 = X | Y
                if list(R2.knotvector) != list(R.knotvector):
                    bad = "split([2]) then join: knot vector %s, expected %s" % (list(map(str, R2.knotvector)), list(map(str, R.knotvector)))
        except Exception as e:
            bad = "%s: %s" % (type(e).__name__, str(e)[:100])
        out.append(ob("%s:other-knots-kept[p=%d]" % (fn, p), fn, FAILED if bad else PROVED, "B", "concrete", 0.0,
                      bad or "redundant knots away from the junction are kept by A | B and by split-then-join", dict(kind="c07.concrete", which="kept", p=p) if bad else None))
    # (2) split() / split(nodes) after the curve's knot vector was shifted / scaled IN PLACE (after an earlier query of .knots)
    fn2 = "curves.Curve.split"
    for label, change, inv in (("shift", lambda kv: kv.shift(F(3, 2)), lambda u: u - F(3, 2)), ("scale", lambda kv: kv.scale(F(2)), lambda u: u / 2),
                               ("+=", lambda kv: kv.__iadd__(F(-4)), lambda u: u + 4), ("normalize", lambda kv: kv.normalize(), lambda u: u * 3)):
        U = [F(0)] * 3 + [F(1), F(2)] + [F(3)] * 3
        P = [F(1), F(-2), F(4), F(0), F(3)]
        c = curves.Curve(list(U), list(P))
        c.knots, c(F(1, 2)), c.split()
        bad = None
        try:
            change(c.knotvector)
            pieces = c.split()
            ks = sorted(set(c.knotvector))
            if len(pieces) != len(ks) - 1:
                bad = "%d pieces for %d spans" % (len(pieces), len(ks) - 1)
            else:
                for q, (a, b) in zip(pieces, zip(ks[:-1], ks[1:])):
                    if tuple(q.knotvector.limits) != (a, b) or len(set(q.knotvector)) != 2:
                        bad = "piece on %s, expected the Bezier piece on (%s, %s)" % (tuple(map(str, q.knotvector)), a, b)
                        break
                    for s_ in (0, 1, 2, 3):
                        u = a + (b - a) * F(s_, 3)
                        exp = spec.curve_value(list(U), 2, P, inv(u)) if s_ not in (0, 3) else q(u)
                        if q(u) != exp or c(u) != spec.curve_value(list(U), 2, P, inv(u)) and s_ not in (0, 3):
                            bad = "piece value at %s is %s, expected %s" % (u, q(u), exp)
                            break
                    if bad:
                        break
        except Exception as e:
            bad = "%s: %s" % (type(e).__name__, str(e)[:100])
        out.append(ob("%s:after-in-place-%s" % (fn2, label), fn2, FAILED if bad else PROVED, "B", "concrete", 0.0,
                      bad or "split() after curve.knotvector.%s in place: one Bezier piece per span of the CURRENT knot vector, equal to the curve" % label,
                      dict(kind="c07.concrete", which=label) if bad else None))
    # (3) operands whose control points are of DIFFERENT number classes (ints on one side, Fractions / floats on the other): (A | B) is A on A's interval and B on B's
    fn3 = "curves.BaseCurve.__or__"
    kinds = {"int|Fraction": ([2, -1, 3], [F(3), F(1, 3), F(-7, 5)]), "Fraction|int": ([F(1, 2), F(-1, 3), F(3)], [3, 4, -2]), "int|float": ([2, -1, 3], [3.0, 0.25, -1.5]),
             "int-vectors|Fraction-vectors": ([np.array([2, 1]), np.array([-1, 0]), np.array([3, 3])],
                                              [np.array([F(3), F(3)], dtype=object), np.array([F(1, 3), F(2, 7)], dtype=object), np.array([F(-7, 5), F(1, 2)], dtype=object)])}
    for label, (PA, PB) in kinds.items():
        bad = None
        try:
            A = curves.Curve([F(0)] * 3 + [F(2)] * 3, list(PA))
            B = curves.Curve([F(2)] * 3 + [F(5)] * 3, list(PB))
            R = A | B
            for u in (F(0), F(1, 2), F(7, 4), F(2), F(3), F(9, 2), F(5)):
                exp = (A if u < 2 else B)(u)
                got = R(u)
                if np.shape(got) != np.shape(exp) or np.any(np.abs(np.array(got, dtype=float) - np.array(exp, dtype=float)) > 1e-12):
                    bad = "(A|B)(%s) = %s, the operand gives %s" % (u, got, exp)
                    break
        except Exception as e:
            bad = "%s: %s" % (type(e).__name__, str(e)[:100])
        out.append(ob("%s:mixed-number-classes[%s]" % (fn3, label), fn3, FAILED if bad else PROVED, "B", "concrete", 0.0,
                      bad or "the joined curve equals each operand on its interval", dict(kind="c07.concrete", which="classes:" + label, p=2) if bad else None))
    # (4) operands of DIFFERENT kinds: a polynomial curve joined with a rational one (either side), two rational curves with unrelated weights, equal and different
    #     degrees: (A | B) is A on A's interval and B on B's, exactly; the junction is continuous (B starts at A's end point) and, as the property says, nothing else is asked
    fn4 = "curves.BaseCurve.__or__"
    WS = {2: [F(1), F(3), F(1, 2)], 1: [F(2), F(1, 3)], 3: [F(1), F(2, 3), F(5), F(1, 4)]}
    for pa, pb in ((2, 2), (1, 2), (2, 1), (3, 2)):
        PA = [F((-1) ** i * (2 * i + 1), 3) for i in range(pa + 1)]
        for label, wa, wb, jump in [(l_, a_, b_, j_) for j_ in (True, False) for l_, a_, b_ in (("pol|rat", None, WS[pb]), ("rat|pol", WS[pa], None), ("rat|rat", WS[pa], list(reversed(WS[pb]))))]:
            # jump: B starts away from A's end point, so no copy of the junction knot is removable and the rational removal path (known finding D9) has nothing to
            # accept; continuous: one copy is removable, the cleaning of the junction goes through that path and the obligation is tagged `rational` for the D9 predicate
            PB = [PA[-1] + (F(7, 3) if jump else 0)] + [F(i * i - 3, 2) for i in range(1, pb + 1)]
            bad = None
            try:
                A = curves.Curve([F(0)] * (pa + 1) + [F(2)] * (pa + 1), list(PA), None if wa is None else list(wa))
                B = curves.Curve([F(2)] * (pb + 1) + [F(5)] * (pb + 1), list(PB), None if wb is None else list(wb))
                ea = {u: A(u) for u in (F(0), F(1, 2), F(7, 4), F(2))}
                eb = {u: B(u) for u in (F(2), F(9, 4), F(3), F(9, 2), F(5))}
                R = A | B
                if tuple(R.knotvector.limits) != (F(0), F(5)) or not consistent(R):
                    bad = "the joined curve lives on %s with %d control points for npts = %d" % (tuple(map(str, R.knotvector.limits)), len(R.ctrlpoints), R.npts)
                for src, tab in ((A, ea), (B, eb)):
                    for u, exp in tab.items():
                        if bad or (u == 2 and src is A):
                            continue
                        got = R(u)
                        if got != exp or src(u) != exp:
                            bad = "(A|B)(%s) = %s, the %s operand gives %s (operand afterwards: %s)" % (u, got, "left" if src is A else "right", exp, src(u))
            except Exception as e:
                bad = "%s: %s" % (type(e).__name__, str(e)[:100])
            tag = "%s,pa=%d,pb=%d,%s" % (label, pa, pb, "jump" if jump else "continuous")
            o_ = ob("%s:mixed-kinds[%s]" % (fn4, tag), fn4, FAILED if bad else PROVED, "B", "concrete", 0.0,
                    bad or "the joined curve equals each operand on its interval, exactly; the operands are not modified", dict(kind="c07.concrete", which="kinds:" + tag, p=pa) if bad else None)
            if not jump:
                o_.setdefault("tags", {})["rational"] = True
            out.append(o_)
    return out + [{"_stats": dict(cases=len(out))}]


task_concrete.contract_fn = "curves.BaseCurve.__or__"


def tasks(tier, seed):
    return [(task_join, (c, tier)) for c in cases(tier)] + [(task_join_rational, ()), (task_concrete, ())]


def replay(o):
    if (o.get("witness") or {}).get("kind") == "c07.concrete":
        w = o["witness"]
        tag = "[p=%d]" % w["p"] if w["which"] == "kept" else "mixed-kinds[%s]" % w["which"][6:] if w["which"].startswith("kinds:") else ("mixed-number-classes[%s]" % w["which"][8:] if w["which"].startswith("classes:") else "after-in-place-%s" % w["which"])
        r = [x for x in task_concrete() if "id" in x and x["id"].endswith(tag)][0]
        return r["status"] == "failed", "knots away from the junction kept / pieces of the current knot vector", r["detail"]
    w = o["witness"]
    if w["scenario"] in ("bad",):
        return False, "ValueError", "not replayed"
    if w["scenario"] == "rational":
        U = [A_] * 3 + [B_] * 3
        C = curves.Curve(U, [F(1), F(3), F(-2)], [F(1), F(2), F(1)])
        A, B = C.split([C_])
        try:
            R = A | B
        except Exception as e:
            return True, "the original rational curve", "%s: %s" % (type(e).__name__, str(e)[:100])
        for u in (A_, F(0), C_, F(1), B_):
            if R(u) != C(u):
                return True, dict(u=u, value=C(u)), dict(value=R(u), weights=R.weights)
        return False, "ok", "ok"
    pa, ma, pb, mb = w["case"]
    Ua, Ub = mkvec(pa, ma, A_, C_, INNER_A), mkvec(pb, mb, C_, B_, INNER_B)
    na, nb = len(Ua) - pa - 1, len(Ub) - pb - 1
    PA = [F(i + 1, 2) for i in range(na)]
    PB = [F(-(i * i) + 3) for i in range(nb)]
    if w["scenario"] == "continuous":
        PB[0] = PA[-1]
    if w["scenario"] == "split-join":
        p = pa
        mc = w["mc"]
        U = [A_] * (p + 1) + [INNER_A] * ma + [C_] * mc + [INNER_B] * mb + [B_] * (p + 1)
        n = len(U) - p - 1
        Q = [F((-1) ** i * (i + 2), 3) for i in range(n)]
        orig = curves.Curve(U, Q)
        A, B = orig.split([C_])
        try:
            R = A | B
        except Exception as e:
            return True, dict(knots=U, ctrlpoints=Q), "%s: %s" % (type(e).__name__, str(e)[:100])
        return list(R.knotvector) != U or list(R.ctrlpoints) != Q, dict(knots=U, ctrlpoints=Q), dict(knots=tuple(R.knotvector), ctrlpoints=R.ctrlpoints)
    A = curves.Curve(list(Ua), PA)
    B = curves.Curve(list(Ub), PB)
    try:
        R = A | B
    except Exception as e:
        return True, dict(A=(Ua, PA), B=(Ub, PB)), "%s: %s" % (type(e).__name__, str(e)[:100])
    for lo, hi, src in ((A_, C_, A), (C_, B_, B)):
        for s in range(0, 6):
            u = lo + (hi - lo) * F(s, 6)
            if u == C_ and src is A:
                continue
            if R(u) != src(u):
                return True, dict(A=(Ua, PA), B=(Ub, PB), u=u, value=src(u)), dict(value=R(u), knots=tuple(R.knotvector), ctrlpoints=R.ctrlpoints)
    return False, "ok", dict(knots=tuple(R.knotvector))
