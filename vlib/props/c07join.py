"""C07 (second half) — joining adjacent pieces: (A | B) equals A on A's interval and B on B's interval."""
from __future__ import annotations

from fractions import Fraction

import numpy as np

from .. import spec
from ..env import curves, heavy
from ..symx import con
from ..symx import harness as H
from ..symx.sym import Sym
from .c04 import same_state, snapshot
from .c08 import consistent, curve_nd, nd
from .c14 import generic_margin_policy
from .fitcommon import apply_T

F = Fraction
A_, C_, B_ = F(-1, 3), F(2, 7), F(9, 4)       # A lives on [A_, C_], B on [C_, B_]
INNER_A, INNER_B = F(0), F(1)


def mkvec(p, m, lo, hi, inner):
    return [lo] * (p + 1) + [inner] * m + [hi] * (p + 1)


def cases(tier):
    out = [(0, 0, 0, 0), (1, 0, 1, 0), (1, 1, 1, 0), (2, 0, 2, 1), (2, 2, 2, 0), (1, 0, 2, 0), (2, 1, 1, 1), (3, 0, 3, 0)]
    if tier != "quick":
        out += [(3, 1, 3, 2), (2, 3, 2, 1), (0, 1, 2, 0), (3, 0, 1, 1)]
    return out


def side_pairs(ctx, R, Ua, pa, PA, WA, Ub, pb, PB, WB, t):
    prs = []
    cuts = sorted(set(R.knotvector) | set(Ua) | set(Ub))
    for a, b in zip(cuts[:-1], cuts[1:]):
        mid = (a + b) / 2
        rn, rd = curve_nd(R, mid, t)
        if mid < C_:
            en, ed = nd(Ua, pa, PA, WA, mid, t)
        else:
            en, ed = nd(Ub, pb, PB, WB, mid, t)
        prs.append(("(A|B)(u) on [%s,%s]" % (a, b), rn * ed, en * rd))
    return prs


def task_join(case, tier):
    pa, ma, pb, mb = case
    Ua, Ub = mkvec(pa, ma, A_, C_, INNER_A), mkvec(pb, mb, C_, B_, INNER_B)
    na, nb = len(Ua) - pa - 1, len(Ub) - pb - 1
    P = max(pa, pb)
    fn = "curves.BaseCurve.__or__"
    tag0 = "A=p%d/m%d,B=p%d/m%d" % case
    out = []
    mon = con.Monitor().install(heavy)
    wb = dict(kind="c07.join", case=list(case))
    try:
        an, bn = ["A%d" % i for i in range(na)], ["B%d" % i for i in range(nb)]
        for scen in ("discontinuous", "continuous"):
            ctx = con.con_ctx(an + bn + ["t"])
            ctx.policy = generic_margin_policy

            def body(chk, ctx=ctx, scen=scen):
                PA = [ctx.sym(x) for x in an]
                PB = [ctx.sym(x) for x in bn]
                if scen == "continuous":
                    PB[0] = PA[-1]
                t = ctx.sym("t")
                A = chk.call(curves.Curve, list(Ua), PA)
                B = chk.call(curves.Curve, list(Ub), PB)
                sa, sb = snapshot(A), snapshot(B)
                R = chk.call(lambda: A | B)
                okc = isinstance(R, curves.Curve) and consistent(R)
                chk.add("consistent", okc, "A | B is a curve with npts control points", extra={"scenario": scen})
                if okc:
                    chk.add("interval", R.knotvector[0] == A_ and R.knotvector[-1] == B_ and R.degree == P, "lives on [min A, max B] with degree max(p, q)")
                    chk.identities("post-join", side_pairs(ctx, R, Ua, pa, PA, None, Ub, pb, PB, None, t))
                    mj = spec.mult_of(list(R.knotvector), C_)
                    want = P + 1 if scen == "discontinuous" else P
                    chk.add("junction-multiplicity", mj == want, "junction knot keeps multiplicity %d (got %d): only what the curve needs there" % (want, mj))
                chk.add("operands-unchanged", same_state(sa, snapshot(A)) and same_state(sb, snapshot(B)), "A and B are not modified")

            out += H.run_paths(ctx, fn, "S-con", tag0 + "," + scen, dict(wb, scenario=scen), body)

        # pieces of a split give the original back (same degree only)
        if pa == pb and pa >= 1:
            p = pa
            for mc in range(1, p + 1):
                U = [A_] * (p + 1) + [INNER_A] * ma + [C_] * mc + [INNER_B] * mb + [B_] * (p + 1)
                n = len(U) - p - 1
                Ufull = [A_] * (p + 1) + [INNER_A] * ma + [C_] * (p + 1) + [INNER_B] * mb + [B_] * (p + 1)
                T = spec.refine_matrix(U, p, Ufull, p)
                qn = ["Q%d" % i for i in range(n)]
                ctx = con.con_ctx(qn + ["t"])
                ctx.policy = generic_margin_policy

                def body_s(chk, ctx=ctx, U=U, T=T, n=n, mc=mc):
                    Q = [ctx.sym(x) for x in qn]
                    t = ctx.sym("t")
                    full = apply_T(T, Q)
                    PA, PB = full[:na], full[len(full) - nb:]
                    A = chk.call(curves.Curve, list(Ua), PA)
                    B = chk.call(curves.Curve, list(Ub), PB)
                    R = chk.call(lambda: A | B)
                    okc = isinstance(R, curves.Curve) and consistent(R)
                    chk.add("consistent", okc, "A | B is a curve")
                    if okc:
                        chk.add("split-join-knots", list(R.knotvector) == list(U), "joining the pieces of a split restores the original knot vector "
                                "(junction multiplicity %d; got %d)" % (mc, spec.mult_of(list(R.knotvector), C_)), extra={"mc": mc})
                        if list(R.knotvector) == list(U):
                            chk.identities("split-join-points", [("Q[%d]" % i, a_, b_) for i, (a_, b_) in enumerate(zip(R.ctrlpoints, Q))])

                out += H.run_paths(ctx, fn, "S-con", tag0 + ",split-join,mc=%d" % mc, dict(wb, scenario="split-join", mc=mc), body_s)
        # not adjacent
        ctx = con.con_ctx(an + bn)

        def body_bad(chk, ctx=ctx):
            A = chk.call(curves.Curve, list(Ua), [ctx.sym(x) for x in an])
            B = chk.call(curves.Curve, [u + 1 for u in Ub], [ctx.sym(x) for x in bn])
            try:
                chk.call(lambda: A | B)
                chk.add("not-adjacent-raises", False, "no exception")
            except ValueError:
                chk.add("not-adjacent-raises", True, "ValueError")

        out += H.run_paths(ctx, fn, "S-con", tag0 + ",not-adjacent", dict(wb, scenario="bad"), body_bad)
    finally:
        mon.uninstall()
    out += mon.obligations(tag0)
    return out


task_join.contract_fn = "curves.BaseCurve.__or__"


def task_join_rational():
    """Rational pieces of a split joined again (goes through the rational fit path when cleaning the junction: D9)."""
    fn = "curves.BaseCurve.__or__"
    ctx = con.con_ctx(["Q0", "Q1", "Q2", "t"])
    ctx.policy = generic_margin_policy

    def body(chk):
        Q = [ctx.sym(x) for x in ("Q0", "Q1", "Q2")]
        t = ctx.sym("t")
        W = [F(1), F(2), F(1)]
        U = [A_] * 3 + [B_] * 3
        C = chk.call(curves.Curve, U, Q, W)
        A, B = chk.call(C.split, [C_])
        try:
            R = chk.call(lambda: A | B)
        except Exception as e:
            chk.add("rational-join", False, "%s: %s" % (type(e).__name__, str(e)[:80]), tags={"rational": True})
            return
        okc = isinstance(R, curves.Curve) and consistent(R)
        if not okc or R.weights is None:
            chk.add("rational-join", False, "weights of the pieces are lost in the join", tags={"rational": True})
            return
        prs = side_pairs(ctx, R, list(A.knotvector), 2, list(A.ctrlpoints), list(A.weights), list(B.knotvector), 2, list(B.ctrlpoints), list(B.weights), t)
        chk.identities("rational-join", prs, tags={"rational": True})

    return H.run_paths(ctx, fn, "S-con", "rational-split-join,rat", dict(kind="c07.join", scenario="rational", rational=True, case=None), body)


task_join_rational.contract_fn = "curves.BaseCurve.__or__"


def tasks(tier, seed):
    return [(task_join, (c, tier)) for c in cases(tier)] + [(task_join_rational, ())]


def replay(o):
    w = o["witness"]
    if w["scenario"] in ("bad",):
        return False, "ValueError", "not replayed"
    if w["scenario"] == "rational":
        U = [A_] * 3 + [B_] * 3
        C = curves.Curve(U, [F(1), F(3), F(-2)], [F(1), F(2), F(1)])
        A, B = C.split([C_])
        try:
            R = A | B
        except Exception as e:
            return True, "the original rational curve", "%s: %s" % (type(e).__name__, str(e)[:100])
        for u in (A_, F(0), C_, F(1), B_):
            if R(u) != C(u):
                return True, dict(u=u, value=C(u)), dict(value=R(u), weights=R.weights)
        return False, "ok", "ok"
    pa, ma, pb, mb = w["case"]
    Ua, Ub = mkvec(pa, ma, A_, C_, INNER_A), mkvec(pb, mb, C_, B_, INNER_B)
    na, nb = len(Ua) - pa - 1, len(Ub) - pb - 1
    PA = [F(i + 1, 2) for i in range(na)]
    PB = [F(-(i * i) + 3) for i in range(nb)]
    if w["scenario"] == "continuous":
        PB[0] = PA[-1]
    if w["scenario"] == "split-join":
        p = pa
        mc = w["mc"]
        U = [A_] * (p + 1) + [INNER_A] * ma + [C_] * mc + [INNER_B] * mb + [B_] * (p + 1)
        n = len(U) - p - 1
        Q = [F((-1) ** i * (i + 2), 3) for i in range(n)]
        orig = curves.Curve(U, Q)
        A, B = orig.split([C_])
        try:
            R = A | B
        except Exception as e:
            return True, dict(knots=U, ctrlpoints=Q), "%s: %s" % (type(e).__name__, str(e)[:100])
        return list(R.knotvector) != U or list(R.ctrlpoints) != Q, dict(knots=U, ctrlpoints=Q), dict(knots=tuple(R.knotvector), ctrlpoints=R.ctrlpoints)
    A = curves.Curve(list(Ua), PA)
    B = curves.Curve(list(Ub), PB)
    try:
        R = A | B
    except Exception as e:
        return True, dict(A=(Ua, PA), B=(Ub, PB)), "%s: %s" % (type(e).__name__, str(e)[:100])
    for lo, hi, src in ((A_, C_, A), (C_, B_, B)):
        for s in range(0, 6):
            u = lo + (hi - lo) * F(s, 6)
            if u == C_ and src is A:
                continue
            if R(u) != src(u):
                return True, dict(A=(Ua, PA), B=(Ub, PB), u=u, value=src(u)), dict(value=R(u), knots=tuple(R.knotvector), ctrlpoints=R.ctrlpoints)
    return False, "ok", dict(knots=tuple(R.knotvector))
