"""C09 — Derivate(curve) is the derivative of the curve."""
from __future__ import annotations

from fractions import Fraction

import numpy as np

from .. import assume as A
from .. import spec
from ..report import FAILED, PROVED, ob
from ..env import calculus, curves, heavy
from ..symx import con
from ..symx import harness as H
from ..symx.sym import Sym
from .c04 import same_state, snapshot
from .c08 import consistent, curve_nd, nd
from .c11 import GRID, vec

PROP = "C09"
F = Fraction
RTOL = F(1, 10 ** 9)


def shapes(tier):
    out = [(0, (0, 0, 0)), (0, (0, 1, 0)), (1, (0, 0, 0)), (2, (0, 0, 0)), (3, (0, 0, 0)), (1, (0, 1, 0)), (2, (1, 0, 0)), (2, (0, 2, 0)),
           (2, (0, 3, 0)), (1, (2, 0, 0)), (3, (1, 0, 1)), (1, (1, 1, 0)),
           (1, (2, 2, 0)), (2, (3, 0, 3)), (0, (1, 1, 0)), (1, (2, 1, 2))]       # two jumps, jump + kink + jump
    if tier != "quick":
        out += [(3, (0, 2, 0)), (3, (0, 4, 0)), (4, (0, 0, 0)), (4, (0, 1, 0)), (2, (1, 2, 1)), (3, (3, 0, 1))]
    return out


def poly_coeffs(ctx, e):
    """All rational coefficients of numerator (denominator must be ground)."""
    d = e.denom
    if not d.is_ground:
        return None
    dd = F(int(d.LC.numerator), int(d.LC.denominator))
    return [F(int(c.numerator), int(c.denominator)) / dd for _, c in e.numer.terms()]


def close_pairs(chk, clause, pairs, tags=None):
    """Code value equals spec value up to float rounding of the (float64) difference matrix: every coefficient of the
    difference polynomial is below 1e-9 times the largest coefficient of the spec (A1)."""
    ctx = chk.ctx
    worst = F(0)
    bad = None
    for label, a, b in pairs:
        a_, b_ = H.to_sym(ctx, a), H.to_sym(ctx, b)
        diff = a_.e - b_.e
        if diff == 0 or (ctx.pc and ctx.vanishes_on_kernels(diff)):
            continue
        cd, cb = poly_coeffs(ctx, diff), poly_coeffs(ctx, b_.e)
        if cd is None:
            bad = (label, "difference is not polynomial")
            break
        scale = max([abs(x) for x in (cb or [])] + [F(1)])
        m = max(abs(x) for x in cd) / scale
        worst = max(worst, m)
        if m > RTOL:
            bad = (label, "relative coefficient deviation %.3e: code %s vs spec %s" % (float(m), str(a_.e)[:150], str(b_.e)[:150]))
            break
    if bad:
        pt = H.diff_point(ctx, H.to_sym(ctx, bad and pairs[0][1]), H.to_sym(ctx, pairs[0][2])) if False else None
        chk.add(clause, False, "%s: %s" % bad, tags=tags)
    else:
        chk.add(clause, True, "%d identities; largest relative coefficient deviation %.2e (float64 difference matrix, A1)" % (len(pairs), float(worst)),
                backend="field-nf+tolerance", tags=tags)


def task_deriv(p, cells, variant, rational):
    U = vec(p, cells, variant)
    n = len(U) - p - 1
    fn = "calculus.Derivate.curve"
    pn = ["P%d" % i for i in range(n)]
    wn = ["w%d" % i for i in range(n)] if rational else []
    ctx = con.con_ctx(pn + wn + ["t"])
    H.positive(ctx, wn)
    tag = "p=%d/%s,kv=%d,%s" % (p, "".join(map(str, cells)), variant, "rat" if rational else "pol")

    def body(chk):
        P = [ctx.sym(x) for x in pn]
        W = [ctx.sym(x) for x in wn] if rational else None
        t = ctx.sym("t")
        tg = ctx.gen["t"]
        C = chk.call(curves.Curve, list(U), P, W)
        before = snapshot(C)
        D = chk.call(calculus.Derivate, C)
        okc = isinstance(D, curves.Curve) and consistent(D)
        chk.add("consistent", okc, "Derivate(C) is a curve with npts control points", tags={"rational": rational})
        chk.add("operand-unchanged", same_state(before, snapshot(C)), "C is not modified")
        if not okc:
            return
        chk.add("same-interval", D.knotvector[0] == U[0] and D.knotvector[-1] == U[-1], "D lives on C's interval")
        cuts = sorted(set(U) | set(D.knotvector))
        prs = []
        for a, b in zip(cuts[:-1], cuts[1:]):
            mid = (a + b) / 2
            cn, cd = nd(U, p, P, W, mid, t)
            val = (H.to_sym(ctx, cn) / cd) if W is not None else H.to_sym(ctx, cn)
            dval = Sym(ctx, val.e.diff(tg))
            dn, dd = curve_nd(D, mid, t)
            got = (H.to_sym(ctx, dn) / dd) if D.weights is not None else H.to_sym(ctx, dn)
            prs.append(("D(u) on (%s,%s)" % (a, b), got, dval))
        if p == 0:
            chk.identities("degree0-zero", [(l, g, 0) for l, g, _ in prs])
        elif rational:
            # rational: compare cross-multiplied polynomials to stay polynomial
            prs2 = []
            for (label, got, dval) in prs:
                common = got.e.denom * dval.e.denom
                prs2.append((label, Sym(ctx, got.e * common), Sym(ctx, dval.e * common)))
            close_pairs(chk, "post-derivative", prs2, tags={"rational": True})
        else:
            close_pairs(chk, "post-derivative", prs)

    return H.run_paths(ctx, fn, "S-con", tag, dict(kind="c09", p=p, cells=cells, variant=variant, rational=rational), body)


task_deriv.contract_fn = "calculus.Derivate.curve"


# --------------------------------------------------------------------------------------
# engine B: the derivative of a curve does not depend on which curves were derived before in the same process
# --------------------------------------------------------------------------------------
ORDER_FAMILIES = {
    # same degree, same number of control points, same distinct knots - the multiplicities are distributed differently
    "p3": (3, [F(-1), F(1, 2), F(2), F(5)], [(2, 1), (1, 2)]),
    "p2": (2, [F(0), F(1), F(3), F(4)], [(2, 1), (1, 2)]),
    "p1": (1, [F(0), F(1), F(2), F(5, 2), F(3)], [(1, 2, 1), (2, 1, 1), (1, 1, 2)]),
}


def _deriv_ok(U, p, P):
    n = len(U) - p - 1
    D = calculus.Derivate(curves.Curve(list(U), list(P)))
    cuts = sorted(set(U))
    for a, b in zip(cuts[:-1], cuts[1:]):
        for s_ in (1, 2, 3):
            u = a + (b - a) * F(s_, 4)
            k = spec.spec_span(list(U), p, u)
            N = spec.cdb(list(U), p, k, spec.Poly.X())[:n]
            exp = sum((N[i] * P[i] for i in range(n)), spec.Poly()).deriv()(u)
            got = D(u)
            if abs(F(got) - exp) > F(1, 10 ** 7) * max(1, abs(exp)):       # the difference factors are float64 in the library (A1): same tolerance as the replay
                return "D(%s) = %s, exact derivative %s" % (u, got, exp)
    return None


def task_order(name):
    fn = "calculus.Derivate.curve"
    p, ks, patterns = ORDER_FAMILIES[name]
    vecs = []
    for m in patterns:
        U = [ks[0]] * (p + 1)
        for x, mm in zip(ks[1:-1], m):
            U += [x] * mm
        vecs.append(U + [ks[-1]] * (p + 1))
    bad, cases = [], 0
    import itertools
    for order in itertools.permutations(range(len(vecs))):
        # each order on its own translate of the knot values, so that an order cannot profit from what an earlier one left behind
        sh = 11 * cases
        for idx in order:
            U = [x + sh for x in vecs[idx]]
            n = len(U) - p - 1
            msg = _deriv_ok(U, p, [F((-1) ** i * (i * i + 2), i + 1) for i in range(n)])
            if msg:
                bad.append(("order %s, multiplicities %s" % (list(order), patterns[idx]), msg))
                break
        cases += 1
    if bad:
        return [ob("%s:history-independent[%s]" % (fn, name), fn, FAILED, "B", "concrete", 0.0,
                   "%d of %d orders give a wrong derivative; first: %s: %s" % (len(bad), cases, bad[0][0], bad[0][1]), dict(kind="c09.order", family=name))]
    return [ob("%s:history-independent[%s]" % (fn, name), fn, PROVED, "B", "concrete", 0.0,
               "%d orders of %d curves with equal degree / npts / distinct knots and different multiplicity patterns: every derivative exact" % (cases, len(vecs))),
            {"_stats": dict(cases=cases)}]


task_order.contract_fn = "calculus.Derivate.curve"


# --------------------------------------------------------------------------------------
# engine B: rational curves of degree 4 .. 6 on concrete data (the symbolic runs stop at degree 3 for weighted curves)
# --------------------------------------------------------------------------------------
def task_rational_high():
    fn = "calculus.Derivate.curve"
    out = []
    cases = {"bezier-p4": (4, (0, 0, 0)), "bezier-p5": (5, (0, 0, 0)), "bezier-p6": (6, (0, 0, 0)), "spline-p4": (4, (0, 1, 0)), "spline-p4-double": (4, (2, 0, 1))}
    for name, (p, cells) in cases.items():
        for variant in (0, 1):
            U = vec(p, cells, variant)
            n = len(U) - p - 1
            P = [F((-1) ** i * (i * i + 1), i + 2) for i in range(n)]
            W = [F(i % 3 + 1, 2) for i in range(n)]
            bad = None
            try:
                D = calculus.Derivate(curves.Curve(list(U), P, W))
                cuts = sorted(set(U))
                for a, b in zip(cuts[:-1], cuts[1:]):
                    for s_ in (1, 2, 3):
                        u = a + (b - a) * F(s_, 4)
                        k = spec.spec_span(list(U), p, u)
                        N = spec.cdb(list(U), p, k, spec.Poly.X())[:n]
                        num = sum((N[i] * (W[i] * P[i]) for i in range(n)), spec.Poly())
                        den = sum((N[i] * W[i] for i in range(n)), spec.Poly())
                        exp = (num.deriv()(u) * den(u) - num(u) * den.deriv()(u)) / den(u) ** 2
                        got = D(u)
                        if abs(F(got) - exp) > F(1, 10 ** 7) * max(1, abs(exp)):
                            bad = "D(%s) = %s, quotient rule on the spec gives %s" % (u, got, exp)
                            break
                    if bad:
                        break
            except Exception as e:
                bad = "%s: %s" % (type(e).__name__, str(e)[:100])
            out.append(ob("%s:post-derivative-concrete[%s,kv=%d,rat]" % (fn, name, variant), fn, FAILED if bad else PROVED, "B", "concrete", 0.0,
                          bad or "derivative of the weighted curve equals the quotient rule on the Cox-de Boor spec at 3 parameters per span",
                          dict(kind="c09", p=p, cells=cells, variant=variant, rational=True) if bad else None, {"rational": True}))
    return out + [{"_stats": dict(cases=len(out))}]


task_rational_high.contract_fn = "calculus.Derivate.curve"


# --------------------------------------------------------------------------------------
# engine B: knot vectors given as plain Python ints / numpy ints (non-unit spacing, degree up to 4): same derivative as for the equal Fraction knots
# --------------------------------------------------------------------------------------
def task_int_knots():
    fn = "calculus.Derivate.curve"
    out = []
    cases = {"p3-spacing": [0, 0, 0, 0, 2, 5, 9, 9, 9, 9], "p2-unit": [0, 0, 0, 1, 2, 3, 3, 3], "p3-unit": [0, 0, 0, 0, 1, 2, 3, 3, 3, 3],
             "p4": [-3, -3, -3, -3, -3, 1, 4, 4, 4, 4, 4], "p1-jump": [0, 0, 3, 3, 7, 7]}
    for name, Ui in cases.items():
        p = Ui.count(Ui[0]) - 1
        n = len(Ui) - p - 1
        UF = [F(x) for x in Ui]
        P = [F((-1) ** i * (i * i + 1), i + 2) for i in range(n)]
        for kind, conv in (("int", int), ("numpy-int64", np.int64)):
            bad = None
            try:
                D = calculus.Derivate(curves.Curve([conv(x) for x in Ui], list(P)))
                cuts = sorted(set(UF))
                for a, b in zip(cuts[:-1], cuts[1:]):
                    for s_ in (1, 2, 3):
                        u = a + (b - a) * F(s_, 4)
                        k = spec.spec_span(UF, p, u)
                        N = spec.cdb(UF, p, k, spec.Poly.X())[:n]
                        exp = sum((N[i] * P[i] for i in range(n)), spec.Poly()).deriv()(u)
                        got = D(float(u))
                        if abs(F(got) - exp) > F(1, 10 ** 7) * max(1, abs(exp)):
                            bad = "D(%s) = %s, exact derivative %s" % (u, got, exp)
                            break
                    if bad:
                        break
            except Exception as e:
                bad = "%s: %s" % (type(e).__name__, str(e)[:100])
            out.append(ob("%s:int-knots[%s,%s]" % (fn, name, kind), fn, FAILED if bad else PROVED, "B", "concrete", 0.0,
                          bad or "integer knot values: derivative equals the formal derivative of the Cox-de Boor spec", dict(kind="c09.int", case=name, conv=kind) if bad else None))
    return out + [{"_stats": dict(cases=len(out))}]


task_int_knots.contract_fn = "calculus.Derivate.curve"


# --------------------------------------------------------------------------------------
# engine B: VECTOR-valued control points (numpy arrays): the derivative holds coordinate by coordinate, polynomial and rational (D32 broke the rational case)
# --------------------------------------------------------------------------------------
def task_vector_points():
    fn = "calculus.Derivate.curve"
    out = []
    cases = {"bezier-p2": (2, (0, 0, 0)), "spline-p2": (2, (1, 0, 0)), "spline-p3-double": (3, (2, 0, 0)), "spline-p1": (1, (1, 1, 0))}
    for name, (p, cells) in cases.items():
        for rational in (False, True):
            U = vec(p, cells, 1)
            n = len(U) - p - 1
            P = [np.array([F((-1) ** i * (i * i + 1), i + 2), F(3 - i * i), F(i, 3)], dtype=object) for i in range(n)]
            W = [F(i % 3 + 1, 2) for i in range(n)] if rational else None
            bad = None
            try:
                D = calculus.Derivate(curves.Curve(list(U), [q.copy() for q in P], None if W is None else list(W)))
                cuts = sorted(set(U))
                for a, b in zip(cuts[:-1], cuts[1:]):
                    for s_ in (1, 3):
                        u = a + (b - a) * F(s_, 4)
                        k = spec.spec_span(list(U), p, u)
                        N = spec.cdb(list(U), p, k, spec.Poly.X())[:n]
                        got = D(u)
                        for d in range(3):
                            w = W if W is not None else [F(1)] * n
                            num = sum((N[i] * (w[i] * P[i][d]) for i in range(n)), spec.Poly())
                            den = sum((N[i] * w[i] for i in range(n)), spec.Poly())
                            exp = (num.deriv()(u) * den(u) - num(u) * den.deriv()(u)) / den(u) ** 2
                            if np.shape(got) != (3,) or abs(F(got[d]) - exp) > F(1, 10 ** 7) * max(1, abs(exp)):
                                bad = "D(%s)[%d] = %s, the spec's derivative is %s" % (u, d, got[d] if np.shape(got) == (3,) else got, exp)
                                break
                        if bad:
                            break
                    if bad:
                        break
            except Exception as e:
                bad = "%s: %s" % (type(e).__name__, str(e)[:100])
            out.append(ob("%s:vector-points[%s,%s]" % (fn, name, "rat" if rational else "pol"), fn, FAILED if bad else PROVED, "B", "concrete", 0.0,
                          bad or "3-D control points: the derivative holds in every coordinate at 2 parameters per span",
                          dict(kind="c09.vector", case=name, rational=rational) if bad else None, {"rational": rational}))
    return out + [{"_stats": dict(cases=len(out))}]


task_vector_points.contract_fn = "calculus.Derivate.curve"


# --------------------------------------------------------------------------------------
# engine B: EXACT data (Fraction knots and control points) of large magnitude on multi-span curves: the derivative is the exact rational derivative (a float64
# detour in the difference factors loses it completely when the control points cancel: D42)
# --------------------------------------------------------------------------------------
def task_exact_large():
    fn = "calculus.Derivate.curve"
    out = []
    cases = {"p2-one-knot": (2, (1, 0, 0)), "p3-double": (3, (2, 0, 0)), "p1-two-knots": (1, (1, 1, 0)), "p2-discontinuous": (2, (3, 0, 0))}
    big = F(10 ** 17)
    for name, (p, cells) in cases.items():
        U = vec(p, cells, 1)
        n = len(U) - p - 1
        P = [big + F((-1) ** i * (i * i + 1), 7) for i in range(n)]          # large and nearly equal: the differences cancel 17 digits
        bad = None
        try:
            D = calculus.Derivate(curves.Curve(list(U), list(P)))
            cuts = sorted(set(U))
            for a, b in zip(cuts[:-1], cuts[1:]):
                for s_ in (1, 2):
                    u = a + (b - a) * F(s_, 3)
                    k = spec.spec_span(list(U), p, u)
                    N = spec.cdb(list(U), p, k, spec.Poly.X())[:n]
                    exp = sum((N[i] * P[i] for i in range(n)), spec.Poly()).deriv()(u)
                    got = D(u)
                    if abs(F(got) - exp) > F(1, 10 ** 9) * max(1, abs(exp)):
                        bad = "D(%s) = %r, the derivative is %s" % (u, got, exp)
                        break
                if bad:
                    break
        except Exception as e:
            bad = "%s: %s" % (type(e).__name__, str(e)[:100])
        out.append(ob("%s:exact-large-data[%s]" % (fn, name), fn, FAILED if bad else PROVED, "B", "concrete", 0.0,
                      bad or "the derivative (to 1e-9 of its own size) at 2 parameters per span for exact control points 1e17 + small", dict(kind="c09.exactlarge", case=name) if bad else None))
    return out + [{"_stats": dict(cases=len(out))}]


task_exact_large.contract_fn = "heavy.Calculus.difference_vector"


def tasks(tier, seed):
    from ..pyvc.driver import verify
    from ..contracts import misc
    ts = [(task_vector_points, ()), (task_exact_large, ()),
          (verify, (misc.DIFFERENCE_VECTOR, "heavy", "Calculus.difference_vector", None)),
          (verify, (misc.DIFFERENCE_MATRIX, "heavy", "Calculus.difference_matrix", None)),
          (verify, (misc.DERIV_BEZIER, "heavy", "Calculus.derivate_nonrational_bezier", None))]
    ts += [(task_order, (name,)) for name in ORDER_FAMILIES] + [(task_rational_high, ()), (task_int_knots, ())]
    for p, cells in shapes(tier):
        for variant in ((0, 1) if tier == "quick" else (0, 1, 2)):
            ts.append((task_deriv, (p, cells, variant, False)))
            if p >= 1 and (p <= 2 and variant == 0 or tier != "quick" and p <= 3):
                ts.append((task_deriv, (p, cells, variant, True)))
    return ts


def replay(o):
    w = o["witness"]
    if w.get("kind") == "c09.int":
        r = [x for x in task_int_knots() if "id" in x and x["id"].endswith("[%s,%s]" % (w["case"], w["conv"]))][0]
        return r["status"] == FAILED, "derivative of the curve on integer knots", r["detail"]
    if w.get("kind") == "c09.exactlarge":
        r = [x for x in task_exact_large() if "id" in x and x["id"].endswith("[%s]" % w["case"])][0]
        return r["status"] == FAILED, "the exact rational derivative", r["detail"]
    if w.get("kind") == "c09.vector":
        r = [x for x in task_vector_points() if "id" in x and x["id"].endswith("[%s,%s]" % (w["case"], "rat" if w["rational"] else "pol"))][0]
        return r["status"] == FAILED, "derivative in every coordinate of a curve with 3-D control points", r["detail"]
    if w.get("kind") == "c09.order":
        r = task_order(w["family"])[0]
        return r["status"] == FAILED, "exact derivative in every order", r["detail"]
    p, cells, variant = w["p"], tuple(w["cells"]), w["variant"]
    U = vec(p, cells, variant)
    n = len(U) - p - 1
    P = [F((-1) ** i * (i * i + 1), i + 2) for i in range(n)]
    W = [F(i % 3 + 1, 2) for i in range(n)] if w["rational"] else None
    C = curves.Curve(list(U), P, W)
    try:
        D = calculus.Derivate(C)
    except Exception as e:
        return True, dict(U=U, P=P, W=W, expected="a derivative curve"), "%s: %s" % (type(e).__name__, str(e)[:120])
    cuts = sorted(set(U))
    h = F(1, 10 ** 6)
    for a, b in zip(cuts[:-1], cuts[1:]):
        for s in (1, 2, 3):
            u = a + (b - a) * F(s, 4)
            # exact derivative of the spec via polynomial pieces
            k = spec.spec_span(list(U), p, u)
            N = spec.cdb(list(U), p, k, spec.Poly.X())[:n]
            if W is None:
                num = sum((N[i] * P[i] for i in range(n)), spec.Poly())
                exp = num.deriv()(u)
            else:
                num = sum((N[i] * (W[i] * P[i]) for i in range(n)), spec.Poly())
                den = sum((N[i] * W[i] for i in range(n)), spec.Poly())
                exp = (num.deriv()(u) * den(u) - num(u) * den.deriv()(u)) / den(u) ** 2
            got = D(u)
            if abs(F(got) - exp) > F(1, 10 ** 7) * max(1, abs(exp)):
                return True, dict(U=U, P=P, W=W, u=u, derivative=exp), dict(value=got, knots=tuple(D.knotvector))
    return False, "derivative", "ok"


INFO = dict(
    assumptions=A.S_COMMON + [A.A4], trusted_base=A.TRUSTED, min_obligations=40, level="other",
    explanation="C09: Derivate(C) on concrete knot vectors (the difference matrix is a float64 array, so knot values cannot be symbolic) with symbolic "
                "control points and weights: D(u) equals the formal derivative of the Cox-de Boor spec on every open span, coefficient-wise within 1e-9 "
                "(the code's matrix entries are doubles: A1); degree 0 gives the zero curve; same interval; C unmodified; Calculus.difference_vector's "
                "closed form is proved for all knot vectors by engine V.",
    functions=["calculus.Derivate.curve/bezier/spline/nonrational_bezier/nonrational_spline/rational_bezier/rational_spline",
               "heavy.Calculus.difference_vector (V)", "heavy.Calculus.difference_matrix (V)", "heavy.Calculus.derivate_nonrational_bezier",
               "heavy.Calculus.derivate_nonrational_spline", "heavy.Calculus.derivate_rational_bezier"],
)


def info(tier, seed, obs):
    return dict(bounds="tier %s: %d shapes (degree 0..%d, C0 knots and discontinuities) x %d knot-value grids; rational with symbolic weights at degree <= %d" % (
        tier, len(shapes(tier)), 3 if tier == "quick" else 4, 2 if tier == "quick" else 3, 2 if tier == "quick" else 3))
