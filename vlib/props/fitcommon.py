"""Shared pieces of the S-con contracts around BaseCurve.update / Curve.fit_curve (C05, C06, C11, C14)."""
from __future__ import annotations

from fractions import Fraction

import numpy as np

from .. import spec
from ..env import curves, heavy
from ..symx import con
from ..symx import harness as H
from ..symx.sym import Sym
from .c04 import same_state, snapshot

F = Fraction


class ErrRecorder:
    """Records what Curve.fit_curve returned (the code's error functional) — the real method still runs."""

    def __init__(self):
        self.values = []

    def __enter__(self):
        self.orig = curves.Curve.fit_curve
        rec = self

        def fit_curve(self_, other, nodes=None):
            r = rec.orig(self_, other, nodes)
            rec.values.append(r)
            return r
        curves.Curve.fit_curve = fit_curve
        return self

    def __exit__(self, *a):
        curves.Curve.fit_curve = self.orig


def stag2(shape, variant, extra=""):
    return "p=%d,m=%s,kv=%d%s" % (shape[0], ",".join(map(str, shape[1])) or "-", variant, extra)


def sym_points(ctx, names):
    return [ctx.sym(n) for n in names]


def lin_rows(values, names):
    """values: sequence of Syms linear in names -> matrix rows of Fractions (no constant term)."""
    rows = []
    for v in values:
        if not isinstance(v, Sym):
            raise ValueError("control point is not symbolic/linear: %r" % (v,))
        co, c0 = con.linear_form(v, names)
        if c0 != 0:
            raise ValueError("constant term in a control point")
        rows.append([co[n] for n in names])
    return rows


def apply_T(T, P):
    return [sum(T[i][j] * P[j] for j in range(len(P))) for i in range(len(T))]


def curve_eq_pairs(ctx, U1, P1, W1, p1, U2, P2, W2, p2, t, label=""):
    """Two curves (possibly different degree) agree as functions: identity on every common non-empty span."""
    cuts = sorted(set(U1) | set(U2))
    n1, n2 = len(U1) - p1 - 1, len(U2) - p2 - 1
    pairs = []
    for a, b in zip(cuts[:-1], cuts[1:]):
        mid = (a + b) / 2
        k1, k2 = spec.spec_span(U1, p1, mid), spec.spec_span(U2, p2, mid)
        N1 = spec.cdb(list(U1), p1, k1, t)[:n1]
        N2 = spec.cdb(list(U2), p2, k2, t)[:n2]
        if W1 is None:
            v1n, v1d = sum(N1[i] * P1[i] for i in range(n1)), 1
        else:
            v1n, v1d = sum(N1[i] * W1[i] * P1[i] for i in range(n1)), sum(N1[i] * W1[i] for i in range(n1))
        if W2 is None:
            v2n, v2d = sum(N2[i] * P2[i] for i in range(n2)), 1
        else:
            v2n, v2d = sum(N2[i] * W2[i] * P2[i] for i in range(n2)), sum(N2[i] * W2[i] for i in range(n2))
        pairs.append(("%sC(u) on [%s,%s]" % (label, a, b), v1n * v2d, v2n * v1d))
    return pairs


def value_at(U, p, P, W, u):
    return spec.curve_value(list(U), p, P, u, W)


def concrete_curve_equal(U1, P1, W1, p1, U2, P2, W2, p2):
    cuts = sorted(set(U1) | set(U2))
    deg = max(p1, p2) * (2 if (W1 or W2) else 1)
    for a, b in zip(cuts[:-1], cuts[1:]):
        for s in range(1, deg + 3):
            u = a + (b - a) * F(s, deg + 3)
            if value_at(U1, p1, P1, W1, u) != value_at(U2, p2, P2, W2, u):
                return False, u
    return True, None
