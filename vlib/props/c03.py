"""C03 — every reachable KnotVector is a well-formed clamped vector; queries agree; rejection is atomic."""
from __future__ import annotations

import itertools
from copy import copy, deepcopy
from fractions import Fraction

import numpy as np
import z3

from .. import assume as A
from .. import spec
from ..env import heavy, knotspace
from ..report import FAILED, PROVED, ob
from ..symx import harness as H
from ..symx.sym import Sym
from .c01 import concrete_inputs, stag

PROP = "C03"
F = Fraction
KV = knotspace.KnotVector


# --------------------------------------------------------------------------------------
# (d) acceptance <=> WF, exhaustively over a small domain (bounded stand-in for the V proof of __is_valid/__new__)
# --------------------------------------------------------------------------------------
def task_accept(maxlen, chunk, nchunks):
    vals = [F(0), F(1), F(5, 2), F(4)]
    fn = "heavy.ImmutableKnotVector.__new__"
    bad = []
    count = 0
    idx = 0
    for L in range(0, maxlen + 1):
        for v in itertools.product(vals, repeat=L):
            idx += 1
            if idx % nchunks != chunk:
                continue
            if any(v[i] > v[i + 1] for i in range(L - 1)) and L > 4:
                continue        # unsorted vectors only up to length 4 (all of them are invalid)
            count += 1
            want = spec.WF(v)
            try:
                k = KV(list(v))
                got = True
                okq = want and k.degree == spec.wf_degree(v) and k.npts == len(v) - k.degree - 1 and tuple(k) == tuple(v)
            except ValueError:
                got, okq = False, True
            except Exception as e:
                got, okq = "%s" % type(e).__name__, False
            if got is not want or not okq:
                bad.append((v, want, got))
            for d in range(0, 4):
                wantd = spec.WF(v, d)
                try:
                    k = KV(list(v), d)
                    gotd = True
                    okd = k.degree == d
                except ValueError:
                    gotd, okd = False, True
                except Exception as e:
                    gotd, okd = type(e).__name__, False
                if gotd is not wantd or not okd:
                    bad.append((v, "degree=%d" % d, wantd, gotd))
    out = []
    if bad:
        b = bad[0]
        out.append(ob("%s:accepts-iff-wellformed[len<=%d,chunk=%d]" % (fn, maxlen, chunk), fn, FAILED, "B", "exhaustive-enumeration", 0.0,
                      "%d of %d vectors disagree with the definition of C03; first: %s  (expected accepted=%s, got %s)" % (
                          len(bad), count, [str(x) for x in b[0]], b[-2], b[-1]),
                      dict(kind="c03.accept", vector=[str(x) for x in b[0]], degree=(b[1] if len(b) == 4 else None)), {"cases": len(bad)}))
    else:
        out.append(ob("%s:accepts-iff-wellformed[len<=%d,chunk=%d]" % (fn, maxlen, chunk), fn, PROVED, "B", "exhaustive-enumeration", 0.0,
                      "%d vectors over {0,1,5/2,4} (x degree None,0..3): accepted exactly when well-formed; degree/npts/elements agree" % count))
    out.append({"_stats": dict(cases=count)})
    return out


task_accept.contract_fn = "heavy.ImmutableKnotVector.__new__"


# --------------------------------------------------------------------------------------
# (c) queries agree with the element list, symbolic knots
# --------------------------------------------------------------------------------------
def task_queries(shape):
    p, mults = shape
    n = p + 1 + sum(mults)
    nk = len(mults) + 2
    out = []
    fn = "heavy.ImmutableKnotVector.span"
    for pos in H.positions(shape) + [("below", 0), ("above", 0)]:
        ctx = H.new_ctx(shape, ["t"])
        t = H.constrain_param(ctx, shape, "t", pos, node_sep=True)
        if pos[0] == "below":
            ctx.base.append(ctx.zv["t"] <= ctx.zv["k0"] - z3.RealVal(str(H.NODE_SEP)))
        if pos[0] == "above":
            ctx.base.append(ctx.zv["t"] >= ctx.zv["k%d" % (nk - 1)] + z3.RealVal(str(H.NODE_SEP)))

        def body(chk, ctx=ctx, t=t, pos=pos):
            U, ks = H.sym_vector(ctx, shape)
            k = chk.call(KV, list(U))
            chk.identities("degree-npts-len", [("degree", k.degree, p), ("npts", k.npts, n), ("len", len(k), n + p + 1)])
            kn = chk.call(lambda: k.knots)
            chk.identities("knots", [("len", len(kn), nk)] + [("knots[%d]" % i, a, b) for i, (a, b) in enumerate(zip(kn, ks))])
            lim = chk.call(lambda: k.limits)
            chk.identities("limits", [("umin", lim[0], ks[0]), ("umax", lim[1], ks[-1])])
            inside = pos[0] in ("open", "knot")
            v = chk.call(k.valid, t)
            chk.add("valid", bool(v) is inside, "valid(u) is %s for a node %s the interval" % (v, "inside" if inside else "outside"))
            chk.add("valid-seq", bool(chk.call(k.valid, [ks[0], t, ks[-1]])) is inside, "valid of a sequence is the conjunction")
            if inside:
                s = chk.call(k.span, t)
                chk.identities("span", [("span(u)", s, H.spec_span_of(shape, pos))])
                m = chk.call(k.mult, t)
                want = 0 if pos[0] == "open" else ([p + 1] + list(mults) + [p + 1])[pos[1]]
                chk.identities("mult", [("mult(u)", m, want)])
                ss = chk.call(k.span, (ks[0], t, ks[-1]))
                chk.identities("span-seq", [("span[0]", ss[0], p), ("span[1]", ss[1], H.spec_span_of(shape, pos)), ("span[2]", ss[2], n - 1)])
                mm = chk.call(k.mult, (t, ks[0]))
                chk.identities("mult-seq", [("mult[0]", mm[0], want), ("mult[1]", mm[1], p + 1)])
            else:
                for label, f in (("span", k.span), ("mult", k.mult)):
                    try:
                        r = chk.call(f, t)
                        chk.add("outside-%s-raises" % label, False, "%s of a node outside returned %r" % (label, r))
                    except ValueError:
                        chk.add("outside-%s-raises" % label, True, "ValueError")
            c = chk.call(copy, k)
            d = chk.call(deepcopy, k)
            chk.add("copy", c is not k and d is not k and tuple(c) == tuple(k) and tuple(d) == tuple(k) and c.degree == p, "copies are equal, distinct objects")

        out += H.run_paths(ctx, fn, "S-sym", stag(shape, pos), dict(kind="c03.queries", shape=shape, pos=pos, task=("c03", "task_queries", [shape])), body)
    return out


task_queries.contract_fn = "heavy.ImmutableKnotVector.span"


# --------------------------------------------------------------------------------------
# (e) mutators: result well-formed and as specified, or exception and the object unchanged
# --------------------------------------------------------------------------------------
def wf_sym(ctx, vec, p):
    """WF of a vector of Syms / numbers decided under the path condition."""
    L = len(vec)
    n = L - p - 1
    if not (p >= 0 and n > p):
        return False
    ok = all(spec.iszero(vec[i + 1] - vec[i]) or ctx.must(vec[i] < vec[i + 1]) for i in range(L - 1))
    ok = ok and all(spec.iszero(vec[i] - vec[0]) for i in range(p + 1)) and not spec.iszero(vec[p + 1] - vec[p])
    ok = ok and all(spec.iszero(vec[i] - vec[-1]) for i in range(n, L)) and not spec.iszero(vec[n] - vec[n - 1])
    ok = ok and all(not spec.iszero(vec[i + p + 1] - vec[i]) for i in range(n))
    return ok


def vec_eq(a, b):
    return len(a) == len(b) and all(spec.iszero(x - y) for x, y in zip(a, b))


def task_mutators(shape):
    p, mults = shape
    n = p + 1 + sum(mults)
    nk = len(mults) + 2
    fn = "knotspace.KnotVector"
    ctx = H.new_ctx(shape, ["x", "y", "s", "a"])
    sep = z3.RealVal(str(H.SEP))
    # results must satisfy A3 (SEP) as well: scale factors >= 1, and an interval no longer than 1 for normalize
    ctx.base += [ctx.zv["x"] >= ctx.zv["k0"] + sep, ctx.zv["x"] <= ctx.zv["k1"] - sep,
                 ctx.zv["y"] >= ctx.zv["k%d" % (nk - 1)] + sep, ctx.zv["s"] >= 1, ctx.zv["k%d" % (nk - 1)] - ctx.zv["k0"] <= 1]

    def body(chk):
        U, ks = H.sym_vector(ctx, shape)
        x, y, s, a = ctx.sym("x"), ctx.sym("y"), ctx.sym("s"), ctx.sym("a")
        full = [p + 1] + list(mults) + [p + 1]

        def fresh():
            return chk.call(KV, list(U))

        def distinct(vec):
            out = []
            for v in vec:
                if not out or not spec.iszero(out[-1] - v):
                    out.append(v)
            return out

        def expect_ok(label, op, want_vec, want_p):
            k = fresh()
            chk.call(lambda: (k.knots, k.limits, k.npts, k.degree))     # queries BEFORE the operation: no stale answers afterwards
            try:
                r = chk.call(op, k)
            except Exception as e:
                chk.add("ok:" + label, False, "valid request raised %s: %s" % (type(e).__name__, str(e)[:80]))
                return
            got = list(k)
            kn_after = list(chk.call(lambda: k.knots))
            lim_after = chk.call(lambda: k.limits)
            good = vec_eq(got, want_vec) and k.degree == want_p and k.npts == len(want_vec) - want_p - 1 and wf_sym(ctx, got, k.degree) and \
                vec_eq(kn_after, distinct(want_vec)) and vec_eq(list(lim_after), [want_vec[0], want_vec[-1]])
            chk.add("ok:" + label, good, "result is the specified well-formed vector (degree %d, npts %d)" % (want_p, len(want_vec) - want_p - 1))

        def expect_reject(label, op, excs=(ValueError,)):
            k = fresh()
            payload = k.internal
            try:
                chk.call(op, k)
                chk.add("reject:" + label, False, "request that leaves the valid set was accepted: now %s" % (tuple(k),))
            except excs:
                chk.add("reject:" + label, k.internal is payload and vec_eq(list(k), U), "rejected (%s) and the object is unchanged" % "/".join(e.__name__ for e in excs))
            except Exception as e:
                chk.add("reject:" + label, False, "expected %s, got %s: %s" % ("/".join(e.__name__ for e in excs), type(e).__name__, str(e)[:80]))

        # insert
        ins = sorted_insert(ctx, U, [x])
        expect_ok("insert-new", lambda k: k.insert([x]), ins, p)
        expect_ok("iadd-list", lambda k: k.__iadd__([x]), ins, p)
        if nk > 2 and mults[0] < p + 1:
            expect_ok("insert-existing", lambda k: k.insert([ks[1]]), sorted_insert(ctx, U, [ks[1]]), p)
        expect_reject("insert-outside", lambda k: k.insert([y]))
        expect_reject("insert-good-and-outside", lambda k: k.insert([x, y]))
        expect_reject("insert-overflow", lambda k: k.insert([x] * (p + 2)))
        expect_reject("insert-end", lambda k: k.insert([ks[0]]))
        # remove
        if nk > 2:
            rm = list(U)
            rm.remove(ks[1])
            expect_ok("remove-interior", lambda k: k.remove([ks[1]]), rm, p)
            expect_ok("isub-list", lambda k: k.__isub__([ks[1]]), rm, p)
        expect_reject("remove-absent", lambda k: k.remove([x]))
        if p == 0 and nk > 2:     # at degree 0 dropping an end knot gives a well-formed vector on a shorter interval
            expect_ok("remove-end-degree0", lambda k: k.remove([ks[0]]), list(U)[1:], 0)
            expect_ok("remove-end-right-degree0", lambda k: k.remove([ks[-1]]), list(U)[:-1], 0)
        else:
            expect_reject("remove-end", lambda k: k.remove([ks[0]]))
            expect_reject("remove-end-right", lambda k: k.remove([ks[-1]]))
        # affine maps
        expect_ok("shift", lambda k: k.shift(a), [u + a for u in U], p)
        expect_ok("iadd-number", lambda k: k.__iadd__(a), [u + a for u in U], p)
        expect_ok("scale", lambda k: k.scale(s), [u * s for u in U], p)
        expect_ok("imul", lambda k: k.__imul__(s), [u * s for u in U], p)
        expect_ok("itruediv", lambda k: k.__itruediv__(1 / s), [u * s for u in U], p)
        expect_reject("scale-zero", lambda k: k.scale(0), (AssertionError, ValueError))
        expect_reject("scale-negative", lambda k: k.scale(-s), (AssertionError, ValueError))
        L = ks[-1] - ks[0]
        expect_ok("normalize", lambda k: k.normalize(), [(u - ks[0]) / L for u in U], p)
        # degree setter
        up = []
        for g, m in zip(ks, full):
            up += [g] * (m + 1)
        expect_ok("degree+1", lambda k: setattr(k, "degree", p + 1), up, p + 1)
        if p >= 1 and all(m >= 2 for m in mults):
            dn = []
            for g, m in zip(ks, full):
                dn += [g] * (m - 1)
            expect_ok("degree-1", lambda k: setattr(k, "degree", p - 1), dn, p - 1)
        if any(m == 1 for m in mults) and p >= 1 and False:
            pass
        expect_reject("degree-negative", lambda k: setattr(k, "degree", -1))
        # internal setter with garbage
        expect_reject("internal-unsorted", lambda k: setattr(k, "internal", [ks[-1], ks[0]]))
        # split
        k = fresh()
        payload = k.internal
        parts = chk.call(k.split, [x])
        goodsplit = len(parts) == 2 and all(isinstance(q, KV) and wf_sym(ctx, list(q), q.degree) and q.degree == p for q in parts) \
            and spec.iszero(parts[0][-1] - x) and spec.iszero(parts[1][0] - x) and k.internal is payload
        chk.add("ok:split", goodsplit, "split returns well-formed clamped pieces and leaves the vector unchanged")
        try:
            chk.call(k.split, [y])
            chk.add("reject:split-outside", False, "split at a node outside was accepted")
        except ValueError:
            chk.add("reject:split-outside", k.internal is payload, "ValueError, unchanged")
        # non-mutating operators return new objects
        k = fresh()
        payload = k.internal
        r = chk.call(lambda: k + [x])
        chk.add("ok:add-returns-new", r is not k and k.internal is payload and vec_eq(list(r), ins) and vec_eq(list(k), U), "k + nodes leaves k unchanged")
        r = chk.call(lambda: k * s)
        chk.add("ok:mul-returns-new", r is not k and k.internal is payload and vec_eq(list(r), [u * s for u in U]), "k * s leaves k unchanged")

    return H.run_paths(ctx, fn, "S-sym", stag(shape, None, ",mutators"), dict(kind="c03.mutators", shape=shape, task=("c03", "task_mutators", [shape])), body)


task_mutators.contract_fn = "knotspace.KnotVector"


def sorted_insert(ctx, U, xs):
    from .c04 import spec_sorted
    return spec_sorted(ctx, list(U) + list(xs))


# --------------------------------------------------------------------------------------
# (f) bounded histories on concrete vectors: every state reachable by <= 3 operations is well-formed, failed ops atomic
# --------------------------------------------------------------------------------------
def ops_table():
    return [
        ("insert[1/2]", lambda k: k.insert([F(1, 2)])), ("insert[1]", lambda k: k.insert([F(1)])), ("insert[7]", lambda k: k.insert([F(7)])),
        ("insert[0]", lambda k: k.insert([F(0)])), ("remove[1]", lambda k: k.remove([F(1)])), ("remove[0]", lambda k: k.remove([F(0)])),
        ("remove[1/2]", lambda k: k.remove([F(1, 2)])), ("shift(-1)", lambda k: k.shift(F(-1))), ("scale(3)", lambda k: k.scale(F(3))),
        ("scale(-1)", lambda k: k.scale(F(-1))), ("normalize", lambda k: k.normalize()), ("degree+=1", lambda k: setattr(k, "degree", k.degree + 1)),
        ("degree-=1", lambda k: setattr(k, "degree", k.degree - 1)), ("|=", lambda k: k.__ior__(KV([k[0]] * (k.degree + 1) + [(k[0] + k[-1]) / 2] + [k[-1]] * (k.degree + 1)))),
        ("&=", lambda k: k.__iand__(KV([k[0]] * (k.degree + 1) + [k[-1]] * (k.degree + 1)))), ("convert(Fraction)", lambda k: k.convert(Fraction)),
        ("+=[3/2]", lambda k: k.__iadd__([F(3, 2)])), ("-=[3/2]", lambda k: k.__isub__([F(3, 2)])),
    ]


def task_histories(start, depth):
    fn = "knotspace.KnotVector"
    ops = ops_table()
    bad = []
    nstates = 0
    for seq in itertools.product(range(len(ops)), repeat=depth):
        k = KV(list(start))
        for i in seq:
            before = (tuple(k), k.degree, k.internal)
            name, op = ops[i]
            try:
                op(k)
                okstate = spec.WF(tuple(k), k.degree) and k.npts == len(k) - k.degree - 1
                if not okstate:
                    bad.append(([ops[j][0] for j in seq], "after %s the vector %s (degree %d) is not well-formed" % (name, [str(x) for x in k], k.degree)))
                    break
            except (ValueError, AssertionError):
                if (tuple(k), k.degree) != before[:2] or k.internal is not before[2]:
                    bad.append(([ops[j][0] for j in seq], "%s raised but changed the object to %s" % (name, [str(x) for x in k])))
                    break
            except Exception as e:
                bad.append(([ops[j][0] for j in seq], "%s raised %s: %s" % (name, type(e).__name__, str(e)[:60])))
                break
            nstates += 1
    tag = "start=%s,depth=%d" % (",".join(map(str, start)), depth)
    if bad:
        return [ob("%s:history-invariant[%s]" % (fn, tag), fn, FAILED, "B", "exhaustive-enumeration", 0.0,
                   "%d operation sequences break the invariant; first: %s: %s" % (len(bad), bad[0][0], bad[0][1]),
                   dict(kind="c03.history", start=[str(x) for x in start], ops=bad[0][0]))]
    return [ob("%s:history-invariant[%s]" % (fn, tag), fn, PROVED, "B", "exhaustive-enumeration", 0.0,
               "all %d^%d operation sequences: every reached state is well-formed, every raising operation left the object unchanged (%d steps)" % (
                   len(ops), depth, nstates)), {"_stats": dict(cases=nstates)}]


task_histories.contract_fn = "knotspace.KnotVector"


# --------------------------------------------------------------------------------------
# (g) non-numeric arguments (fixed table; bounded)
# --------------------------------------------------------------------------------------
TYPE_TABLE = [("str-0011", "0011"), ("None", None), ("list-of-str", ["a", "b", "c", "d"]), ("int", 3), ("nested", [[0, 0], [1, 1]]),
              ("dict", {0: 1}), ("mixed", [0, 0, "x", 1]), ("empty", []), ("one", [1]), ("list-None", [None, None]),
              ("complex", [0j, 0j, 1j, 1j]), ("generator-ok", (x for x in [0, 0, 1, 1])),
              # unsorted data in numpy kinds whose differences do not go negative (unsigned) or do not compare (NaN)
              ("uint8-unsorted", np.array([0, 0, 2, 1, 3, 3], dtype=np.uint8)), ("uint64-unsorted", np.array([0, 0, 5, 3, 7, 7], dtype=np.uint64)),
              ("nan-interior", [0.0, 0.0, float("nan"), 1.0, 1.0]),
              # an interior knot of multiplicity degree + 2 to the RIGHT of one of full multiplicity degree + 1 (a scan that stops at the first full one misses it)
              ("overfull-after-full-p1", [0, 0, 1, 1, 2, 2, 2, 3, 3]), ("overfull-after-full-p2", [0, 0, 0, 1, 1, 1, 2, 2, 2, 2, 3, 3, 3]),
              ("overfull-after-full-p3", [0] * 4 + [1] * 4 + [2] * 5 + [3] * 4), ("float-unsorted-array", np.array([0.0, 0.0, 0.7, 0.2, 1.0, 1.0]))]


def task_types():
    fn = "knotspace.KnotVector.__new__"
    out = []
    for label, arg in TYPE_TABLE:
        try:
            k = KV(arg)
            ok = label == "generator-ok" and tuple(k) == (0, 0, 1, 1)
            detail = "accepted: %s" % (tuple(k),)
        except ValueError:
            ok = label != "generator-ok"
            detail = "ValueError"
        except Exception as e:
            ok = False
            detail = "%s instead of ValueError" % type(e).__name__
        out.append(ob("%s:non-numeric[%s]" % (fn, label), fn, PROVED if ok else FAILED, "B", "fixed-table", 0.0, detail,
                      None if ok else dict(kind="c03.types", label=label), {"label": label}))
    # non-numeric nodes given to insertion / removal (method, augmented and plain operator forms): ValueError, object unchanged
    F_ = Fraction
    bad_nodes = {"str": ["a"], "None": [None], "nested": [[F_(1)]], "digit-string": "1", "mixed": [F_(1), "x"]}
    forms = {"insert": lambda k, x: k.insert(x), "remove": lambda k, x: k.remove(x), "+=": lambda k, x: k.__iadd__(x), "-=": lambda k, x: k.__isub__(x),
             "+": lambda k, x: k + x, "-": lambda k, x: k - x}
    for nl, nodes in bad_nodes.items():
        for fl, f in forms.items():
            if nl == "digit-string" and fl not in ("insert", "remove"):
                continue        # `k += "1"`: the operators decide shift-or-insert by float(other); a digit string is then a (refused) SHIFT, which the property does not assign an exception class
            k = KV([F_(0), F_(0), F_(1), F_(2), F_(2)])
            before = (tuple(k), k.degree, k.npts)
            try:
                f(k, nodes)
                ok, detail = False, "accepted"
            except ValueError:
                ok, detail = True, "ValueError"
            except Exception as e:
                ok, detail = False, "%s instead of ValueError" % type(e).__name__
            if ok and (tuple(k), k.degree, k.npts) != before:
                ok, detail = False, "ValueError, but the vector changed"
            out.append(ob("knotspace.KnotVector.insert:non-numeric-nodes[%s,%s]" % (fl, nl), "knotspace.KnotVector.insert", PROVED if ok else FAILED, "B", "fixed-table", 0.0, detail,
                          None if ok else dict(kind="c03.badnodes", form=fl, nodes=nl), {"label": nl}))
    return out


task_types.contract_fn = "knotspace.KnotVector.__new__"


def task_sep():
    """Outside A3: distinct knots closer than 1e-6 (the library's merging tolerance).  Reported as the known finding D3."""
    fn = "heavy.ImmutableKnotVector.knots"
    out = []
    for label, v in (("1e-7-apart", [F(0), F(0), F(1, 10 ** 7), F(1), F(1)]), ("5e-7-apart-interior", [F(0), F(0), F(1, 2), F(1, 2) + F(5, 10 ** 7), F(1), F(1)])):
        try:
            k = KV(list(v))
            kn = tuple(k.knots)
            want = spec.knots_of(v)
            ok = kn == want and k.mult(v[2]) == spec.mult_of(v, v[2])
            detail = "knots %s (element list has %s)" % ([str(x) for x in kn], [str(x) for x in want])
        except Exception as e:
            ok, detail = False, "%s: %s" % (type(e).__name__, str(e)[:80])
        out.append(ob("%s:agree-with-elements[%s]" % (fn, label), fn, PROVED if ok else FAILED, "B", "concrete", 0.0, detail,
                      None if ok else dict(kind="c03.sep", vector=[str(x) for x in v]), {"sep_violated": True}))
    return out


task_sep.contract_fn = "heavy.ImmutableKnotVector.knots"


def task_frames_kv():
    """Immutability of ImmutableKnotVector: the invariant established by __new__ (proved by engine V) holds for the lifetime of every instance,
    so every KnotVector reachable through any operation history is well-formed."""
    import ast
    from .. import env
    out = []
    fn = "heavy.ImmutableKnotVector (immutability)"
    problems = []
    for mod in ("heavy", "knotspace", "curves", "functions", "calculus", "advanced"):
        tree = ast.parse(env.source(mod))
        for f in [n for n in ast.walk(tree) if isinstance(n, ast.FunctionDef)]:
            for n in ast.walk(f):
                if isinstance(n, ast.Attribute) and n.attr in ("_ImmutableKnotVector__degree", "_ImmutableKnotVector__npts", "__degree", "__npts") \
                        and isinstance(n.ctx, (ast.Store, ast.Del)):
                    if not (mod == "heavy" and f.name == "__new__"):
                        problems.append("%s.%s writes %s at L%d" % (mod, f.name, n.attr, n.lineno))
                if isinstance(n, ast.Call) and isinstance(n.func, ast.Attribute) and n.func.attr == "__new__" and "super(" in ast.unparse(n.func) \
                        and "ImmutableKnotVector" in ast.unparse(n.func) and not (mod == "heavy" and f.name == "__new__"):
                    problems.append("%s.%s builds an instance without validation at L%d" % (mod, f.name, n.lineno))
    tree = ast.parse(env.source("heavy"))
    cls = next(c for c in tree.body if isinstance(c, ast.ClassDef) and c.name == "ImmutableKnotVector")
    bases = [ast.unparse(b) for b in cls.bases]
    if bases != ["tuple"]:
        problems.append("bases are %s (expected tuple)" % bases)
    forbidden = {"__setitem__", "__delitem__", "__iadd__", "__imul__", "__setattr__", "__init__", "__getitem__", "__iter__", "__len__", "__eq__", "__hash__"}
    defined = {f.name for f in cls.body if isinstance(f, ast.FunctionDef)}
    if defined & forbidden:
        problems.append("defines %s (would break tuple immutability / element access)" % sorted(defined & forbidden))
    out.append(ob("%s:frame" % fn, fn, FAILED if problems else PROVED, "F", "ast", 0.0,
                  "; ".join(problems) if problems else "tuple subclass; private degree/npts are assigned only inside __new__; no other code path creates an instance; "
                  "no mutating or element-access dunder is overridden => WF(U, degree) established by __new__ (engine V) is a lifetime invariant"))
    return out


task_frames_kv.contract_fn = "heavy.ImmutableKnotVector"


def tier_shapes(tier):
    if tier == "quick":
        return spec.knot_shapes(2, 1) + [(3, (2,)), (1, (1, 2)), (2, (3, 1)), (0, (1, 1))]
    return spec.knot_shapes(3, 2) + [(4, (1,)), (4, (5,))]


def tasks(tier, seed):
    from ..pyvc.driver import verify
    from ..contracts import kv
    ts = [(verify, (c, m, q, v)) for c, m, q, v in kv.ALL]
    from ..contracts import facade, kvnew
    ts += [(verify, (c, m, q, v)) for c, m, q, v in facade.ALL]
    from ..contracts import facade2, kvquery
    ts += [(verify, (c, m, q, v)) for c, m, q, v in facade2.ALL]
    # the public queries on a scalar and on a sequence of any length: valid <=> every node in the interval; span / mult element-wise, ValueError iff some node is outside
    ts += [(verify, (c, m, q, v)) for c, m, q, v in kvquery.ALL]
    ts += [(verify, (c, m, q, v)) for c, m, q, v in kvnew.ALL]
    ts.append((task_frames_kv, ()))
    maxlen = 6 if tier == "quick" else 8
    nch = 8 if tier == "quick" else 16
    ts += [(task_accept, (maxlen, c, nch)) for c in range(nch)]
    for sh in tier_shapes(tier):
        ts.append((task_queries, (sh,)))
        ts.append((task_mutators, (sh,)))
    starts = [(F(0), F(0), F(1), F(2), F(2)), (F(0), F(2)), (F(0), F(0), F(0), F(1), F(1), F(2), F(2), F(2))]
    for st in starts:
        ts.append((task_histories, (st, 2 if tier == "quick" else 3)))
    ts.append((task_types, ()))
    ts.append((task_sep, ()))
    return ts


def replay(o):
    w = o["witness"]
    kind = w["kind"]
    if kind == "c03.accept":
        v = [F(x) for x in w["vector"]]
        d = w.get("degree")
        d = int(d.split("=")[1]) if isinstance(d, str) else None
        want = spec.WF(v, d)
        try:
            k = KV(list(v), d) if d is not None else KV(list(v))
            got = "accepted, degree %d" % k.degree
            bad = not want
        except ValueError:
            got = "ValueError"
            bad = want
        except Exception as e:
            got = type(e).__name__
            bad = True
        return bad, dict(vector=v, degree=d, well_formed=want), got
    if kind == "c03.sep":
        v = [F(x) for x in w["vector"]]
        k = KV(list(v))
        return tuple(k.knots) != spec.knots_of(v), dict(vector=v, distinct_values=spec.knots_of(v)), dict(knots=tuple(k.knots))
    if kind == "c03.badnodes":
        r = [x for x in task_types() if "id" in x and x["id"].endswith("non-numeric-nodes[%s,%s]" % (w["form"], w["nodes"]))][0]
        return r["status"] == FAILED, "ValueError and the vector unchanged", r["detail"]
    if kind == "c03.types":
        arg = dict(TYPE_TABLE)[w["label"]]
        try:
            KV(arg)
            return True, "ValueError", "accepted"
        except ValueError:
            return False, "ValueError", "ValueError"
        except Exception as e:
            return True, "ValueError", "%s: %s" % (type(e).__name__, str(e)[:80])
    if kind == "c03.history":
        ops = dict(ops_table())
        k = KV([F(x) for x in w["start"]])
        log = []
        for name in w["ops"]:
            before = (tuple(k), k.degree)
            try:
                ops[name](k)
                log.append((name, [str(x) for x in k], k.degree, spec.WF(tuple(k), k.degree)))
                if not spec.WF(tuple(k), k.degree):
                    return True, "well-formed after every step", log
            except (ValueError, AssertionError):
                if (tuple(k), k.degree) != before:
                    return True, "unchanged after a raising step", log + [(name, "raised, changed")]
            except Exception as e:
                return True, "ValueError", log + [(name, type(e).__name__)]
        return False, "invariant", log
    if w.get("task"):
        return H.generic_replay(o)
    return False, "see verifier output", "not replayed concretely"


INFO = dict(
    assumptions=A.S_COMMON + [A.A10, A.A12], trusted_base=A.TRUSTED, min_obligations=150, level="other",
    explanation="C03: engine V proves, for vectors of EVERY length: the constructor accepts exactly the well-formed clamped vectors (__is_valid both degree modes, "
                "__new__), the binary span search, valid / limits / degree / npts, ImmutableKnotVector.__add__/__sub__, and for every KnotVector mutator "
                "(insert, remove, shift, scale, normalize, +=, -=, *=, |=, &=, internal setter) that a raising request leaves the payload object in place and a "
                "successful one installs a well-formed payload; frame analysis shows instances are immutable and only built through __new__, which lifts "
                "well-formedness to every reachable KnotVector over all operation histories. The same facts are ALSO decided exhaustively over all vectors up "
                "to the stated length over a 4-value alphabet (engine B), queries and every "
                "mutator (valid and invalid requests: result as specified and well-formed, or exception with the payload object untouched) with symbolic "
                "knot values per shape; all operation sequences up to the stated depth from three start vectors (bounded); fixed table of non-numeric arguments.",
    functions=["heavy.ImmutableKnotVector.__is_valid (V: accepted <=> well-formed, every length, both degree modes)", "heavy.ImmutableKnotVector.__new__ (V)",
               "heavy.ImmutableKnotVector immutability (F)", "knotspace.KnotVector.insert/remove/shift/scale/normalize/__iadd__/__isub__/__imul__/__ior__/__iand__/internal.setter (V: atomicity and affine "
               "postconditions for all vectors)", "heavy.ImmutableKnotVector.__add__/__sub__ (V)", "heavy.ImmutableKnotVector.__span_single (V)", "heavy.ImmutableKnotVector.__valid_single (V)", "heavy.ImmutableKnotVector.limits/degree/npts (V)",
               "heavy.ImmutableKnotVector.__new__/__is_valid/__get_unique", "heavy.ImmutableKnotVector.__add__/__sub__/span/mult/valid/knots/split",
               "knotspace.KnotVector.insert/remove/shift/scale/normalize/convert/degree/internal/__iadd__/__isub__/__imul__/__itruediv__/__ior__/__iand__/split/copy"],
)


def info(tier, seed, obs):
    return dict(bounds="tier %s: acceptance over all vectors of length <= %d over {0,1,5/2,4}; symbolic shapes: %d; histories: all sequences of %d of 18 operations "
                "from 3 start vectors" % (tier, 6 if tier == "quick" else 8, len(tier_shapes(tier)), 2 if tier == "quick" else 3))
