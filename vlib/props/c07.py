"""C07 — splitting restricts the curve exactly; joining adjacent pieces restores it."""
from __future__ import annotations

from fractions import Fraction

import numpy as np
import z3

from .. import assume as A
from .. import spec
from ..env import curves, heavy, knotspace
from ..symx import harness as H
from ..symx.sym import Sym
from .c01 import concrete_inputs, stag
from .c04 import (curve_value_pairs, node_names, ntag, oracle_curve_equal, same_state, setup_nodes, snapshot,
                  spec_sorted)

PROP = "C07"


def tier_shapes(tier):
    if tier == "quick":
        return spec.knot_shapes(2, 1) + [(3, (2,)), (2, (1, 2)), (1, (2, 1)), (0, (1, 1))]
    return spec.knot_shapes(3, 2) + [(4, ()), (4, (2,))]


def cut_classes(shape):
    p, mults = shape
    nk = len(mults) + 2
    out = [[("open", z, 0)] for z in range(nk - 1)]
    out += [[("knot", z)] for z in range(1, nk - 1)]
    out.append([("knot", 0), ("open", 0, 0), ("knot", nk - 1), ("open", 0, 0)])     # ends and a repeated node are ignored
    out.append([("open", nk - 2, 1), ("open", 0, 0)])                                # two cuts, unsorted
    if nk > 2:
        out.append([("knot", 1), ("open", 0, 0)])
    out.append(None)                                                                  # split(): the Bezier pieces
    out.append([])                                                                    # split([]): no cut point besides the ends -> ONE piece, the curve itself
    out.append([("knot", 0), ("knot", nk - 1)])                                       # only the ends: ignored -> one piece
    return out


def spec_pieces(ctx, U, p, cuts):
    """cuts: distinct interior cut values (Syms), any order.  -> list of (a, b, piece vector)."""
    inner = []
    for c in cuts:
        if spec.iszero(c - U[0]) or spec.iszero(c - U[-1]):
            continue
        if not any(spec.iszero(c - d) for d in inner):
            inner.append(c)
    pts = [U[0]] + spec_sorted(ctx, inner) + [U[-1]]
    out = []
    for a, b in zip(pts[:-1], pts[1:]):
        mid = [x for x in U if not spec.iszero(x - a) and not spec.iszero(x - b) and ctx.must(a < x) and ctx.must(x < b)]
        out.append((a, b, [a] * (p + 1) + mid + [b] * (p + 1)))
    return out


def task_split(shape, rational):
    p, mults = shape
    n = p + 1 + sum(mults)
    out = []
    fn = "curves.Curve.split"
    pn = ["P%d" % i for i in range(n)]
    wn = ["w%d" % i for i in range(n)] if rational else []
    for nodes in cut_classes(shape):
        nn = node_names(nodes or [])
        ctx = H.new_ctx(shape, ["t"] + nn + pn + wn)
        H.positive(ctx, wn)
        xs = setup_nodes(ctx, shape, nodes) if nodes is not None else None         # [] is a cut set of its own (no cut), None is split()

        def body(chk, ctx=ctx, xs=xs, nodes=nodes):
            U, ks = H.sym_vector(ctx, shape)
            t = ctx.sym("t")
            P = [ctx.sym(x) for x in pn]
            W = [ctx.sym(x) for x in wn] if rational else None
            curve = chk.call(curves.Curve, list(U), P, W)
            before = snapshot(curve)
            pieces = chk.call(curve.split, list(xs)) if xs is not None else chk.call(curve.split)
            exp = spec_pieces(ctx, U, p, list(xs) if xs is not None else list(ks))
            ok = isinstance(pieces, tuple) and len(pieces) == len(exp)
            chk.add("piece-count", ok, "one curve per sub-interval between consecutive distinct cut points (%d)" % len(exp))
            if ok:
                prs, fpairs = [], []
                consistent = True
                for i, (pc, (a, b, V)) in enumerate(zip(pieces, exp)):
                    got = list(pc.knotvector)
                    prs.append(("piece%d.len" % i, len(got), len(V)))
                    if len(got) == len(V):
                        prs += [("piece%d.U[%d]" % (i, j), g, v) for j, (g, v) in enumerate(zip(got, V))]
                    okc = pc.ctrlpoints is not None and len(pc.ctrlpoints) == len(got) - pc.degree - 1 and pc.degree == p and \
                        ((pc.weights is None) == (W is None)) and (W is None or len(pc.weights) == len(pc.ctrlpoints))
                    consistent = consistent and okc
                    if okc and len(got) == len(V):
                        fpairs += curve_value_pairs(ctx, U, P, W, V, list(pc.ctrlpoints),
                                                    None if W is None else list(pc.weights), p, t, "piece%d:" % i)
                chk.identities("post-knots", prs)
                chk.add("consistent", consistent, "every piece has degree p, npts control points (and weights)")
                if consistent:
                    chk.identities("post-function", fpairs)
                    chk.exact("exact", [[pc.ctrlpoints, pc.weights] for pc in pieces])
            chk.add("operand-unchanged", same_state(before, snapshot(curve)), "the split curve keeps its knot vector, points and weights")

        out += H.run_paths(ctx, fn, "S-sym", stag(shape, None, ",%s,cuts=%s" % ("rat" if rational else "pol", ("none" if nodes == [] else ntag(nodes)) if nodes is not None else "all-knots")),
                           dict(kind="c07.split", shape=shape, nodes=nodes, rational=rational), body)
    return out


task_split.contract_fn = "curves.Curve.split"


def tasks(tier, seed):
    ts = []
    for sh in tier_shapes(tier):
        ts.append((task_split, (sh, False)))
        if tier != "quick" or sh[0] <= 2:
            ts.append((task_split, (sh, True)))
    try:
        from . import c07join
        ts += c07join.tasks(tier, seed)
    except ImportError:
        pass
    from . import kinds
    ts += [(kinds.task_kinds, ("C07", op)) for op in kinds.OPS["C07"][1]]
    return ts


def replay(o):
    w = o["witness"]
    if w.get("kind") == "kinds":
        from . import kinds
        return kinds.replay(o)
    if w["kind"].startswith("c07.join") or w["kind"] == "c07.concrete":
        from . import c07join
        return c07join.replay(o)
    shape, pt, U, ks = concrete_inputs(w)
    p = shape[0]
    n = len(U) - p - 1
    P = [pt["P%d" % i] for i in range(n)]
    W = [pt["w%d" % i] for i in range(n)] if w["rational"] else None
    nodes = None
    if w["nodes"] is not None:
        nodes = [ks[d[1]] if d[0] == "knot" else pt["x%d_%d" % (d[1], d[2])] for d in w["nodes"]]
    curve = curves.Curve(list(U), P, W)
    try:
        pieces = curve.split(nodes) if nodes is not None else curve.split()
    except Exception as e:
        return True, dict(U=U, nodes=nodes, P=P, W=W, expected="pieces"), "%s: %s" % (type(e).__name__, e)
    cuts = sorted(set([U[0], U[-1]] + (list(nodes) if nodes is not None else list(ks))))
    if len(pieces) != len(cuts) - 1:
        return True, dict(npieces=len(cuts) - 1), dict(npieces=len(pieces))
    for pc, a, b in zip(pieces, cuts[:-1], cuts[1:]):
        V = [a] * (p + 1) + [x for x in U if a < x < b] + [b] * (p + 1)
        if list(pc.knotvector) != V:
            return True, dict(piece_knots=V), dict(piece_knots=tuple(pc.knotvector))
        PW = None if pc.weights is None else list(pc.weights)
        for s in range(1, 2 * p + 4):
            for lo, hi in zip(sorted(set(V))[:-1], sorted(set(V))[1:]):
                u = lo + (hi - lo) * Fraction(s, 2 * p + 5)
                e = spec.curve_value(U, p, P, u, W)
                g = spec.curve_value(V, p, list(pc.ctrlpoints), u, PW)
                if e != g:
                    return True, dict(U=U, P=P, W=W, nodes=nodes, u=u, value=e), dict(piece=tuple(pc.knotvector), ctrlpoints=pc.ctrlpoints, weights=pc.weights, value=g)
    return False, "pieces equal the curve", "ok"


INFO = dict(
    assumptions=A.S_COMMON, trusted_base=A.TRUSTED, min_obligations=100, level="other",
    explanation="C07: Curve.split against the restriction spec (piece count, clamped piece knot vectors, piece(u) == C(u) on every span, operand "
                "unchanged) with symbolic knots, cuts, points and weights; A | B against the piecewise spec with concrete rational knots and symbolic points.",
    functions=["heavy.ImmutableKnotVector.split", "heavy.Operations.split_curve", "curves.Curve.split", "curves.BaseCurve.__or__"],
)


def info(tier, seed, obs):
    return dict(bounds="tier %s: split shapes %s; cut classes: every open span, every interior knot, ends + repeated nodes, two unsorted cuts, "
                "knot + new value, split() at all knots" % (tier, "p<=2 with <=1 interior knot + 4 selected" if tier == "quick" else "p<=3 with <=2 interior knots, p=4"))
