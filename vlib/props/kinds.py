"""Engine B helper shared by C04-C07: the same operation on the same curve given in different DATA KINDS (knots as Fraction / int / numpy.int64 / float /
numpy.float64; control points as numbers, 2-D numpy rows or 3-D object arrays of Fractions; weights present or not) leaves the function unchanged."""
from __future__ import annotations

from fractions import Fraction

import numpy as np

from .. import spec
from ..env import curves
from ..report import FAILED, PROVED, ob

F = Fraction
BASES = {
    "p2": ([F(0)] * 3 + [F(2), F(5)] + [F(9)] * 3, 2),
    "p3": ([F(-4)] * 4 + [F(-1), F(-1), F(3)] + [F(6)] * 4, 3),
    "p1": ([F(0), F(0), F(1), F(4), F(4)], 1),
}
KNOT_KINDS = {"Fraction": lambda v: v, "int": lambda v: int(v), "numpy-int64": lambda v: np.int64(int(v)), "float": float, "numpy-float64": lambda v: np.float64(float(v))}
POINT_KINDS = {
    "scalar": lambda i, exact: (F((-1) ** i * (i + 1), 2) if exact else float(F((-1) ** i * (i + 1), 2))),
    "numpy-2d": lambda i, exact: (np.array([F(i), F(i * i, 3)], dtype=object) if exact else np.array([float(i), i * i / 3.0])),
    "object-3d": lambda i, exact: (np.array([F(1, i + 1), F(-i), F(i, 2)], dtype=object) if exact else np.array([1.0 / (i + 1), -float(i), i / 2.0])),
}


def _value(U, p, P, W, u):
    return spec.curve_value([F(x) for x in U], p, P, u, W)


def run(fn, opname, op, weights=(False, True), samples=5):
    """op(curve, conv) performs the operation (conv converts a Fraction parameter / node to the knot kind).  -> list of obligations."""
    out = []
    for bname, (U, p) in BASES.items():
        n = len(U) - p - 1
        for kk, kconv in KNOT_KINDS.items():
            exact = kk == "Fraction"
            for pk, pmk in POINT_KINDS.items():
                for rat in weights:
                    P = [pmk(i, exact) for i in range(n)]
                    Pex = [POINT_KINDS[pk](i, True) for i in range(n)]
                    W = [F(i % 3 + 1, 2) for i in range(n)] if rat else None
                    Wk = None if W is None else ([w for w in W] if exact else [float(w) for w in W])
                    tag = "%s,%s,knots=%s,points=%s,%s" % (opname, bname, kk, pk, "rat" if rat else "pol")
                    bad = None
                    try:
                        c = curves.Curve([kconv(x) for x in U], P, Wk)
                        res = op(c, kconv if kk not in ("int", "numpy-int64") else (lambda v: kconv(v) if F(v).denominator == 1 else float(v)))
                        pieces = list(res) if isinstance(res, (tuple, list)) else [c]
                        for q in pieces:
                            a, b = F(q.knotvector[0]), F(q.knotvector[-1])
                            for s_ in range(samples + 1):
                                u = a + (b - a) * F(s_, samples)
                                want = _value(U, p, Pex, W, u)
                                got = q(u if exact else float(u))
                                d = np.max(np.abs(np.array(got, dtype=float) - np.array(want, dtype=float)))
                                if (exact and np.any(np.array(got, dtype=object) != np.array(want, dtype=object))) or d > 1e-9 * max(1.0, float(np.max(np.abs(np.array(want, dtype=float))))):
                                    bad = "value at %s is %s, expected %s" % (u, got, want)
                                    break
                            if bad:
                                break
                    except Exception as e:
                        bad = "%s: %s" % (type(e).__name__, str(e)[:100])
                    out.append(ob("%s:data-kinds[%s]" % (fn, tag), fn, FAILED if bad else PROVED, "B", "concrete", 0.0,
                                  bad or "the curve is the same function after the operation in this data kind",
                                  dict(kind="kinds", fn=fn, tag=tag) if bad else None, {"rational": rat}))
    return out + [{"_stats": dict(cases=len(out))}]


OPS = {
    "C04": ("curves.Curve.knot_insert", {"insert": lambda c, cv: c.knot_insert([cv(F(3)), cv(F(3))]), "insert-existing": lambda c, cv: c.knot_insert([c.knotvector.knots[1]])}),
    "C06": ("curves.Curve.degree_increase", {"elevate": lambda c, cv: c.degree_increase(2), "degree-setter": lambda c, cv: setattr(c, "degree", c.degree + 1)}),
    "C07": ("curves.Curve.split", {"split": lambda c, cv: c.split([cv(F(3))]), "split-all": lambda c, cv: c.split()}),
    "C05": ("curves.Curve.knot_remove", {"insert-remove": lambda c, cv: (c.knot_insert([cv(F(7, 2))]), c.knot_remove([cv(F(7, 2))]))[0]}),
}


def task_kinds(prop, opname):
    fn, table = OPS[prop]
    weights = (False,) if prop == "C05" else (False, True)
    return run(fn, opname, table[opname], weights)


task_kinds.contract_fn = "curves.Curve"


def replay(o):
    w = o["witness"]
    prop = [k for k, v in OPS.items() if v[0] == w["fn"]][0]
    opname = w["tag"].split(",")[0]
    r = [x for x in task_kinds(prop, opname) if "id" in x and x["id"].endswith("[%s]" % w["tag"])][0]
    return r["status"] == FAILED, "same function after the operation", r["detail"]
