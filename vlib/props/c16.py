"""C16 — results do not depend on the number representation."""
from __future__ import annotations

from fractions import Fraction

import numpy as np

from .. import assume as A
from .. import spec
from ..env import calculus, curves, functions, heavy, knotspace
from ..report import FAILED, PROVED, ob
from .fitcommon import concrete_curve_equal

PROP = "C16"
F = Fraction
Curve = curves.Curve


class Pt:
    """Minimal user point: supports only Pt + Pt and scalar * Pt (either side); anything else raises."""
    __array_ufunc__ = None

    def __init__(self, x, y):
        self.x, self.y = x, y

    def __add__(self, o):
        if not isinstance(o, Pt):
            if isinstance(o, (int, Fraction)) and o == 0:
                return self            # sum() / accumulators start from 0 * point, which is a Pt already; literal 0 only
            raise TypeError("Pt + %s" % type(o).__name__)
        return Pt(self.x + o.x, self.y + o.y)

    __radd__ = __add__

    def __mul__(self, s):
        if isinstance(s, Pt) or not isinstance(s, (int, Fraction, float, np.integer, np.floating)):
            raise TypeError("Pt * %s" % type(s).__name__)
        return Pt(self.x * s, self.y * s)

    __rmul__ = __mul__

    def __eq__(self, o):
        return isinstance(o, Pt) and self.x == o.x and self.y == o.y

    def __repr__(self):
        return "Pt(%s,%s)" % (self.x, self.y)


def flat_numbers(x):
    out = []
    st = [x]
    while st:
        v = st.pop()
        if isinstance(v, (list, tuple, np.ndarray)):
            st.extend(list(v))
        elif isinstance(v, Curve):
            st.extend([tuple(v.knotvector), v.ctrlpoints, v.weights])
        elif isinstance(v, Pt):
            st.extend([v.x, v.y])
        elif v is not None:
            out.append(v)
    return out


def exact(x):
    bad = [v for v in flat_numbers(x) if not isinstance(v, (int, Fraction, np.integer)) or isinstance(v, bool)]
    return not bad, bad[:3]


BIG = 2 ** 63 + 5
VECTORS = {
    "small": ([F(0), F(0), F(0), F(1, 3), F(1), F(1), F(1)], 2),
    "neg0": ([F(-3, 2), F(-3, 2), F(0), F(2, 7), F(9, 4), F(9, 4)], 1),
    "large": ([F(0), F(0), F(0), F(BIG, 3 * BIG + 1), F(2 * BIG + 1, 3 * BIG + 2), F(1), F(1), F(1)], 2),
    "cubic": ([F(0)] * 4 + [F(2, 5), F(2, 5), F(7, 9)] + [F(2)] * 4, 3),
    "deg7": ([F(-1)] * 8 + [F(3, 2)] * 8, 7),
    "intknots": ([F(0)] * 4 + [F(2), F(5), F(5)] + [F(9)] * 4, 3),
    # exact rationals of large MAGNITUDE with ordinary spacing (time stamps): exact arithmetic only - as floats this input is ill-conditioned
    # exact knots whose spacing (1) is below the resolution of a double at their magnitude (1e17): any detour through float64 merges or loses knots. Exact run only.
    "beyond-double": ([F(10 ** 17)] * 3 + [F(10 ** 17 + 1), F(10 ** 17 + 2), F(10 ** 17 + 2), F(10 ** 17 + 4)] + [F(10 ** 17 + 5)] * 3, 2),
    "timestamps": ([F(1700000000)] * 3 + [F(1700000000) + F(1, 2), F(1700000001)] + [F(1700000002)] * 3, 2),          # integer-valued knots with non-unit spacing: also run as int / numpy.int64 knots
}


def _int_where_integral(kind):
    def conv(v):
        if isinstance(v, Fraction) and v.denominator == 1:
            return kind(int(v))
        return float(v)
    return conv


REPRESENTATIONS = [("float", float, None), ("numpy-float64", np.float64, None),
                   ("int-knots", _int_where_integral(int), "intknots"), ("numpy-int64-knots", _int_where_integral(np.int64), "intknots")]


def ops(U, p):
    n = len(U) - p - 1
    P = [F((-1) ** i * (2 * i + 1), i + 2) for i in range(n)]
    W = [F(i % 3 + 1, 2) for i in range(n)]
    mid = (U[p] + U[p + 1]) / 2
    x = U[p] + (U[p + 1] - U[p]) * F(2, 5)

    def mk(rat=False, conv=lambda v: v):
        return Curve([conv(u) for u in U], [conv(q) for q in P], [conv(w) for w in W] if rat else None)

    def t_eval(conv, rat):
        c = mk(rat, conv)
        return [c(conv(mid)), c([conv(U[0]), conv(x), conv(U[-1])])]

    def t_basis(conv, rat):
        f = functions.Function([conv(u) for u in U])
        if rat:
            f.weights = [conv(w) for w in W]
        return [f(conv(x)), f[:, 0](conv(mid)), f[1, p](conv(x))]

    def t_insert(conv, rat):
        c = mk(rat, conv)
        c.knot_insert([conv(x), conv(x)])
        return c

    def t_insert_remove(conv, rat):
        c = mk(False, conv)
        c.knot_insert([conv(x)])
        c.knot_remove([conv(x)])
        return c

    def t_elevate(conv, rat):
        c = mk(rat, conv)
        c.degree_increase(1)
        return c

    def t_elevate_reduce(conv, rat):
        c = mk(False, conv)
        c.degree_increase(2)
        c.degree_decrease(2)
        return c

    def t_split_join(conv, rat):
        c = mk(rat, conv)
        a, b = c.split([conv(x)])
        if rat:
            return [a, b]
        return [a, b, a | b]

    def t_arith(conv, rat):
        a, b = mk(rat, conv), Curve([conv(U[0])] * 2 + [conv(U[-1])] * 2, [conv(F(2)), conv(F(5))])
        res = [a + b, a * b, a / b, 3 * a - 1]
        if not rat:
            # a lower-degree factor with an interior knot of its own (the product knot vector has to respect BOTH continuity classes)
            b2 = Curve([conv(U[0])] * 2 + [conv(x)] + [conv(U[-1])] * 2, [conv(F(2)), conv(F(-1)), conv(F(5))])
            res += [a * b2, b2 * a, a + b2]
        return res

    def t_fit(conv, rat):
        src = mk(False, conv)
        dst = Curve([conv(U[0])] * (p + 1) + [conv(U[-1])] * (p + 1))
        err = dst.fit_curve(src)
        d2 = Curve([conv(u) for u in U])
        d2.fit_points([conv(F(i * i - 3, 2)) for i in range(n + 2)])
        d3 = Curve([conv(u) for u in U])
        d3.fit_points([conv(F((-1) ** i * (i + 1), 3)) for i in range(n)])          # len(points) == npts: square system
        # exact interpolation at the Greville abscissae listed in a NON-MONOTONE order: the square system then needs row exchanges (zero pivots)
        if p >= 1:
            gre = [sum(U[i + 1:i + p + 1], F(0)) / p for i in range(n)]
        else:
            gre = [(U[i] + U[i + 1]) / 2 for i in range(n)]
        order = list(range(1, n, 2)) + list(range(0, n, 2))[::-1]
        d4 = Curve([conv(u) for u in U])
        d4.fit_points([conv(F((-1) ** i * (i + 2), 5)) for i in order], [conv(gre[i]) for i in order])
        # a fixed small case whose exact elimination meets a zero pivot with only zeros and negative entries below it
        d5 = Curve([conv(x) for x in (F(0), F(0), F(1, 3), F(2, 3), F(1), F(1))])
        d5.fit_points([conv(x) for x in (F(2), F(-1), F(3), F(1, 2))], [conv(x) for x in (F(1, 4), F(2, 3), F(0), F(1))])
        d6 = Curve([conv(x) for x in (F(0), F(0), F(0), F(1, 4), F(1, 2), F(1), F(1), F(1))])
        d6.fit_points([conv(x) for x in (F(1), F(-2), F(3), F(0), F(5, 3))], [conv(x) for x in (F(1, 2), F(1, 8), F(1), F(0), F(3, 4))])
        return [dst, err, d2, d3, d4, d5, d6]

    def t_integrate(conv, rat):
        return [calculus.Integrate.scalar(mk(False, conv))]

    return dict(eval=t_eval, basis=t_basis, insert=t_insert, insert_remove=t_insert_remove, elevate=t_elevate, elevate_reduce=t_elevate_reduce,
                split_join=t_split_join, arithmetic=t_arith, fit=t_fit, integrate=t_integrate), P, W


def values(x):
    """Representation-independent view: sampled values for curves, numbers otherwise."""
    out = []
    st = [x]
    while st:
        v = st.pop(0)
        if isinstance(v, Curve):
            a, b = v.knotvector.limits
            ks = sorted(set(v.knotvector))
            for lo, hi in zip(ks[:-1], ks[1:]):
                for s in (1, 2, 3):
                    out.append(v(lo + (hi - lo) * s / 4 if isinstance(lo, float) else lo + (hi - lo) * F(s, 4)))
        elif isinstance(v, (list, tuple, np.ndarray)):
            st = list(v) + st
        elif v is not None:
            out.append(v)
    return out


def task_exact(vname):
    U, p = VECTORS[vname]
    table, P, W = ops(U, p)
    out = []
    for name, f in table.items():
        for rat in (False, True):
            if rat and name in ("insert_remove", "elevate_reduce", "fit", "integrate"):
                continue
            fn = "C16:" + name
            tag = "%s,%s" % (vname, "rat" if rat else "pol")
            try:
                # history: the same operation first on floats, then on exact numbers (caches must not leak the representation)
                try:
                    rf = f(float, rat) if vname != "timestamps" else None
                except Exception:
                    rf = None
                re_ = f(lambda v: v, rat)
                ok, bad = exact(re_)
                if ok and name == "integrate":
                    want = sum(P[i] * (U[i + p + 1] - U[i]) for i in range(len(P))) / (p + 1)
                    if re_[0] != want:
                        ok, bad = False, ["Integrate.scalar = %s, exact value %s" % (re_[0], want)]
                if ok and name == "arithmetic":
                    # equal to the mathematically exact result: pointwise against the Cox-de Boor spec of the operands
                    Wv = W if rat else None
                    xk = U[p] + (U[p + 1] - U[p]) * F(2, 5)
                    Ub, Pb = [U[0]] * 2 + [U[-1]] * 2, [F(2), F(5)]
                    Ub2, Pb2 = [U[0]] * 2 + [xk] + [U[-1]] * 2, [F(2), F(-1), F(5)]
                    A_ = lambda u: spec.curve_value(list(U), p, P, u, Wv)
                    B_ = lambda u: spec.curve_value(Ub, 1, Pb, u)
                    B2_ = lambda u: spec.curve_value(Ub2, 1, Pb2, u)
                    wants = [lambda u: A_(u) + B_(u), lambda u: A_(u) * B_(u), lambda u: A_(u) / B_(u), lambda u: 3 * A_(u) - 1]
                    if not rat:
                        wants += [lambda u: A_(u) * B2_(u), lambda u: B2_(u) * A_(u), lambda u: A_(u) + B2_(u)]
                    for idx, (cv, wf) in enumerate(zip(re_, wants)):
                        for s_ in range(0, 8):
                            u = U[0] + (U[-1] - U[0]) * F(s_, 7)
                            if cv(u) != wf(u):
                                ok, bad = False, ["arithmetic result %d at u=%s is %s, exact value %s" % (idx, u, cv(u), wf(u))]
                                break
                        if not ok:
                            break
                if ok and name == "split_join":
                    # "equal to the mathematically exact result": every piece, and the re-joined curve, IS the original function on its interval
                    for idx, cv in enumerate(re_):
                        lo, hi = cv.knotvector.limits
                        for s_ in range(0, 8):
                            u = F(lo) + (F(hi) - F(lo)) * F(s_, 7)
                            want = spec.curve_value(list(U), p, list(P), u, list(W) if rat else None)
                            if cv(u) != want:
                                ok, bad = False, ["piece %d at u=%s is %s, the curve is %s" % (idx, u, cv(u), want)]
                                break
                        if not ok:
                            break
                if ok and name == "fit":
                    Ut = [U[0]] * (p + 1) + [U[-1]] * (p + 1)
                    Gtt, Gts = spec.gram(Ut, p, Ut, p), spec.gram(Ut, p, U, p)
                    rhs = [[sum(Gts[i][j] * P[j] for j in range(len(P)))] for i in range(p + 1)]
                    sol = [r[0] for r in spec.mat_solve(Gtt, rhs)]
                    if list(re_[0].ctrlpoints) != sol:
                        ok, bad = False, ["fit_curve control points %s, exact L2 projection %s" % ([str(x) for x in re_[0].ctrlpoints], [str(x) for x in sol])]
                out.append(ob("%s:exact-types[%s]" % (fn, tag), fn, PROVED if ok else FAILED, "B", "concrete", 0.0,
                              "all numbers in the result are int / Fraction" if ok else "non-exact numbers in the result: %r" % (bad,),
                              None if ok else dict(kind="c16.exact", vector=vname, op=name, rational=rat)))
                ve = values(re_)
                for rname, rconv, only in REPRESENTATIONS:
                    if (only is not None and vname != only) or vname in ("timestamps", "beyond-double"):
                        continue
                    try:
                        rr = rf if rname == "float" else f(rconv, rat)
                    except Exception as ex:
                        rr = None
                        if rname != "float":
                            out.append(ob("%s:%s-agrees[%s]" % (fn, rname, tag), fn, FAILED, "B", "concrete", 0.0, "%s: %s" % (type(ex).__name__, str(ex)[:120]),
                                          dict(kind="c16.float", vector=vname, op=name, rational=rat)))
                    if rr is None:
                        continue
                    vf = values(rr)
                    dev = 0.0
                    same_len = len(ve) == len(vf)
                    if same_len:
                        for a, b in zip(ve, vf):
                            a, b = np.ravel(np.array(a, dtype=float)), np.ravel(np.array(b, dtype=float))
                            dev = max(dev, float(np.max(np.abs(a - b) / np.maximum(1.0, np.abs(a)))))
                    okf = same_len and dev <= 1e-9
                    out.append(ob("%s:%s-agrees[%s]" % (fn, rname, tag), fn, PROVED if okf else FAILED, "B", "concrete", 0.0,
                                  "%s run agrees with the exact run on %d sampled values (max relative deviation %.1e)" % (rname, len(ve), dev) if same_len else
                                  "%s and exact runs give differently shaped results" % rname, None if okf else dict(kind="c16.float", vector=vname, op=name, rational=rat)))
            except Exception as e:
                out.append(ob("%s:exact-types[%s]" % (fn, tag), fn, FAILED, "B", "concrete", 0.0, "%s: %s" % (type(e).__name__, str(e)[:150]),
                              dict(kind="c16.exact", vector=vname, op=name, rational=rat), {"rational": rat}))
    return out


task_exact.contract_fn = "C16"


def task_points():
    """Control points that support only point+point and scalar*point are enough for evaluation, insertion, elevation, splitting."""
    out = []
    for vname, (U, p) in VECTORS.items():
        n = len(U) - p - 1
        pts = [Pt(F(i, 2), F((-1) ** i * i, 3)) for i in range(n)]
        ref = [Curve(list(U), [q.x for q in pts]), Curve(list(U), [q.y for q in pts])]
        x = U[p] + (U[p + 1] - U[p]) * F(2, 5)
        for name, op in (("eval", lambda c: None), ("knot_insert", lambda c: c.knot_insert([x])), ("degree_increase", lambda c: c.degree_increase(1)),
                         ("split", lambda c: c.split([x]))):
            fn = "C16:minimal-point-type:" + name
            try:
                c = Curve(list(U), list(pts))
                res = op(c)
                curvesP = list(res) if name == "split" else [c]
                refs = []
                for r in ref:
                    rr = Curve(list(r.knotvector), list(r.ctrlpoints))
                    o2 = op(rr)
                    refs.append(list(o2) if name == "split" else [rr])
                ok = True
                for j, cp in enumerate(curvesP):
                    a, b = cp.knotvector.limits
                    for s in range(0, 5):
                        u = a + (b - a) * F(s, 4)
                        v = cp(u)
                        if not isinstance(v, Pt) or v.x != refs[0][j](u) or v.y != refs[1][j](u):
                            ok = False
                out.append(ob("%s[%s]" % (fn, vname), fn, PROVED if ok else FAILED, "B", "concrete", 0.0,
                              "works with a point type that only adds points and scales by numbers; values equal the coordinate-wise curves",
                              None if ok else dict(kind="c16.pt", vector=vname, op=name)))
            except Exception as e:
                out.append(ob("%s[%s]" % (fn, vname), fn, FAILED, "B", "concrete", 0.0, "%s: %s" % (type(e).__name__, str(e)[:150]),
                              dict(kind="c16.pt", vector=vname, op=name)))
    return out


task_points.contract_fn = "C16"


def task_linalg():
    """Exact inversion with scaled integers around 2^63 / 2^64 (type dispatch must stay exact)."""
    out = []
    fn = "heavy.Linalg.invert"
    for label, M in (("2^63+5", [[2 ** 63 + 5, 1], [3, 2]]), ("2^64+1", [[2 ** 64 + 1, 7], [5, 3]]), ("frac-big", [[F(2 ** 63 + 5, 7), F(1, 3)], [F(3), F(2, 2 ** 62 + 1)]]),
                     ("2^31", [[2 ** 31, 1, 0], [1, 2 ** 31, 1], [0, 1, 2 ** 31]])):
        try:
            inv = heavy.Linalg.invert(M)
            n = len(M)
            ok = all(sum(F(inv[i][k]) * M[k][j] for k in range(n)) == (1 if i == j else 0) for i in range(n) for j in range(n)) and \
                all(isinstance(inv[i][j], (int, Fraction)) for i in range(n) for j in range(n))
            detail = "inverse @ A == I exactly, entries exact"
        except Exception as e:
            ok, detail = False, "%s: %s" % (type(e).__name__, str(e)[:100])
        out.append(ob("%s:exact[%s]" % (fn, label), fn, PROVED if ok else FAILED, "B", "concrete", 0.0, detail, None if ok else dict(kind="c16.linalg", label=label)))
    return out


task_linalg.contract_fn = "heavy.Linalg.invert"


def task_int_data():
    """Fraction knots with control points AND weights given as plain Python ints (the property's precondition): every operation still yields int / Fraction
    numbers (never int / int -> float) and the same function."""
    fn = "C16"
    out = []
    cases = {
        "p2": ([0, 0, 0, 2, 4, 4, 4], [3, -1, 4, 2], [1, 2, 1, 3]),
        "p1": ([0, 0, 1, 3, 3], [2, 5, -1], [2, 1, 3]),
        "p2-double": ([0, 0, 0, 2, 2, 5, 5, 5], [1, 0, 3, -2, 4], [1, 3, 2, 1, 2]),
        "p3": ([0, 0, 0, 0, 6, 6, 6, 6], [1, 5, -3, 2], [2, 1, 1, 3]),
        # Python ints are unbounded: products w_i * P_i beyond 2^63 must stay exact (an int64 array would wrap around)
        "p2-large-ints": ([0, 0, 0, 2, 4, 4, 4], [7 * 10 ** 9, -5 * 10 ** 9 + 1, 3 * 10 ** 9, 9 * 10 ** 9 + 7], [3 * 10 ** 9, 2 * 10 ** 9 + 1, 5 * 10 ** 9, 4 * 10 ** 9]),
    }
    for name, (U, P, W) in cases.items():
        U = [F(x) for x in U]
        p = U.count(U[0]) - 1
        inner = sorted(set(U))[1:-1]
        node_new = F(1) if 1 not in U else F(3)
        runs = {
            "evaluate-only": lambda c: None,            # the curve as given: int control points (and weights) on Fraction knots evaluate to exact rationals
            "insert-one-int-node": lambda c: c.knot_insert([node_new]),
            "insert-one-fraction-node": lambda c: c.knot_insert([F(7, 3)]),
            "insert-two": lambda c: c.knot_insert([node_new, node_new]),
            "elevate": lambda c: c.degree_increase(1),
            "split-new-node": lambda c: c.split([node_new]),
            "split-all": lambda c: c.split(),
        }
        if inner:
            runs["insert-existing-knot"] = lambda c: c.knot_insert([inner[0]]) if U.count(inner[0]) < p else None
            runs["split-at-knot"] = lambda c: c.split([inner[0]])
        for rational in (True, False):
            for label, run in runs.items():
                c = Curve(list(U), list(P), list(W) if rational else None)
                try:
                    r = run(c)
                except ValueError:
                    continue
                curves_ = list(r) if isinstance(r, (tuple, list)) else [c]
                bad = None
                for q in curves_:
                    nums = flat_numbers([list(q.knotvector), list(q.ctrlpoints), list(q.weights) if q.weights is not None else []])
                    if not all(type(x) in (int, Fraction) or isinstance(x, (np.integer,)) for x in nums):
                        bad = "non-exact numbers: %s" % sorted({type(x).__name__ for x in nums})
                        break
                    a, b = q.knotvector.limits
                    for s_ in range(1, 6):
                        u = F(a) + (F(b) - F(a)) * F(s_, 6)
                        exp = spec.curve_value([F(x) for x in U], p, [F(x) for x in P], u, [F(x) for x in W] if rational else None)
                        got = q(u)
                        if isinstance(got, float) or got != exp:
                            bad = "value at %s is %r, expected %s" % (u, got, exp)
                            break
                    if bad:
                        break
                out.append(ob("C16:int-data[%s,%s,%s]" % (name, label, "rat" if rational else "pol"), fn, FAILED if bad else PROVED, "B", "concrete", 0.0,
                              bad or "exact numbers only, same function", dict(kind="c16.int", case=name, label=label, rational=rational) if bad else None))
    return out + [{"_stats": dict(cases=len(out))}]


task_int_data.contract_fn = "curves.Curve.knot_insert"


# --------------------------------------------------------------------------------------
# float intervals [a, b] with a + (b - a) > b in double arithmetic (e.g. [0.3, 0.9]): sampling a span at `start + (end - start) * 1` leaves the interval.
# Products, quotients, the closed integration rule and fit_points with default nodes must work there as they do on the same data given as Fractions (D39)
# --------------------------------------------------------------------------------------
def task_float_intervals():
    fn = "C16:float-interval"
    out = []
    ivs = [(a / 100, b / 100) for a in range(1, 60, 3) for b in range(61, 99, 3) if a / 100 + (b / 100 - a / 100) > b / 100][:4]
    ivs = [(0.3, 0.9), (0.31, 0.88)] + ivs[:2]
    for a, b in ivs:
        fa, fb = F(str(a)), F(str(b))

        def mk(conv, lo, hi):
            mid = conv((F(2) * F(str(lo)) + F(str(hi))) / 3) if conv is F else lo + (hi - lo) / 3
            A = Curve([conv(lo)] * 3 + [mid] + [conv(hi)] * 3, [conv(F(1)), conv(F(-2)), conv(F(3)), conv(F(1, 2))])
            B = Curve([conv(lo)] * 2 + [conv(hi)] * 2, [conv(F(2)), conv(F(5))])
            return A, B
        cases = {
            "A*B": lambda A, B: [(A * B)(u) for u in (A.knotvector[0], A.knotvector[-1])],
            "B*B": lambda A, B: [(B * B)(u) for u in (B.knotvector[0], B.knotvector[-1])],                    # single span: the span IS the interval
            "Integrate.scalar(B, closed-newton-cotes)": lambda A, B: [calculus.Integrate.scalar(B, None, "closed-newton-cotes")],
            "A/B": lambda A, B: [(A / B)(u) for u in (A.knotvector[0], A.knotvector[-1])],
            "Integrate.scalar(closed-newton-cotes)": lambda A, B: [calculus.Integrate.scalar(A, None, "closed-newton-cotes")],
            "fit_points(default nodes)": lambda A, B: list(_fit_default(A)),
        }
        for name, f in cases.items():
            bad = None
            try:
                exact = f(*mk(F, fa, fb))
                got = f(*mk(float, a, b))
                dev = max(abs(float(x) - float(y)) / max(1.0, abs(float(y))) for x, y in zip(got, exact))
                if dev > 1e-9:
                    bad = "float result %s, exact %s" % ([float(x) for x in got], [float(x) for x in exact])
            except Exception as e:
                bad = "%s: %s" % (type(e).__name__, str(e)[:100])
            out.append(ob("%s:agrees-with-exact[%s,%s,%s]" % (fn, a, b, name), fn, FAILED if bad else PROVED, "B", "concrete", 0.0,
                          bad or "the float computation works on this interval and agrees with the exact one to 1e-9", dict(kind="c16.interval", a=a, b=b, case=name) if bad else None))
    return out + [{"_stats": dict(cases=len(out))}]


def _fit_default(A):
    c = Curve(list(A.knotvector))
    conv = type(A.knotvector[0])
    c.fit_points([conv(F(i * i - 2, 3)) if conv is F else float(F(i * i - 2, 3)) for i in range(c.npts + 2)])
    return c.ctrlpoints


task_float_intervals.contract_fn = "heavy.MathOperations.mul_spline_curve"


# --------------------------------------------------------------------------------------
# float knots FAR from the origin relative to the span lengths, everything dyadic (knots, parameters, control points are exactly representable, so the float run gets
# exactly the inputs of the exact run): evaluation, basis functions, insertion and elevation agree with the exact run to 1e-12 - the textbook formulas lose nothing here,
# a rearrangement like node / width - start / width loses 7 digits
# --------------------------------------------------------------------------------------
def task_shifted_dyadic():
    fn = "C16:shifted-dyadic"
    out = []
    off = F(2 ** 23)
    U = [off] * 3 + [off + F(3, 8), off + F(1), off + F(21, 16)] + [off + F(2)] * 3
    P = [F(1), F(-3, 2), F(5, 4), F(2), F(-1, 2), F(3)]
    us = [off + F(k, 64) for k in (0, 7, 24, 45, 64, 70, 84, 100, 127, 128)]

    def run(conv):
        res = {}
        c = Curve([conv(u) for u in U], [conv(q) for q in P])
        res["eval"] = [c(conv(u)) for u in us]
        f = functions.Function(knotspace.KnotVector([conv(u) for u in U]))
        res["basis"] = [x for u in us for j in (1, 2) for x in f[:, j](conv(u))]
        d = Curve([conv(u) for u in U], [conv(q) for q in P])
        d.knot_insert([conv(off + F(1, 2)), conv(off + F(3, 2))])
        res["insert"] = list(d.ctrlpoints) + [d(conv(u)) for u in us]
        e = Curve([conv(u) for u in U], [conv(q) for q in P])
        e.degree_increase(1)
        res["elevate"] = list(e.ctrlpoints) + [e(conv(u)) for u in us]
        return res
    try:
        exact, flt = run(lambda v: v), run(float)
        err = None
    except Exception as e:
        exact, flt, err = {}, {}, "%s: %s" % (type(e).__name__, str(e)[:120])
    for name in ("eval", "basis", "insert", "elevate"):
        bad = err
        if not bad:
            a, b = [float(x) for x in exact[name]], [float(x) for x in flt[name]]
            dev = max(abs(x - y) / max(1.0, abs(x)) for x, y in zip(a, b)) if len(a) == len(b) else float("inf")
            if dev > 1e-12:
                bad = "float run deviates from the exact run by %.1e (relative) on dyadic data at offset 2^23" % dev
        out.append(ob("%s:agrees-with-exact[%s]" % (fn, name), fn, FAILED if bad else PROVED, "B", "concrete", 0.0,
                      bad or "float and exact runs agree to 1e-12 on dyadic knots, parameters and points at offset 2^23", dict(kind="c16.shifted", op=name) if bad else None))
    return out + [{"_stats": dict(cases=len(out))}]


task_shifted_dyadic.contract_fn = "functions.FunctionEvaluator"


def tasks(tier, seed):
    return [(task_exact, (v,)) for v in VECTORS] + [(task_points, ()), (task_linalg, ()), (task_int_data, ()), (task_float_intervals, ()), (task_shifted_dyadic, ())]


def replay(o):
    if (o.get("witness") or {}).get("kind") == "c16.int":
        w = o["witness"]
        tag = "[%s,%s,%s]" % (w["case"], w["label"], "rat" if w["rational"] else "pol")
        r = [x for x in task_int_data() if "id" in x and x["id"].endswith(tag)][0]
        return r["status"] == FAILED, "only int / Fraction numbers and the same function", r["detail"]
    w = o["witness"]
    if w["kind"] == "c16.shifted":
        r = [x for x in task_shifted_dyadic() if "id" in x and x["id"].endswith("[%s]" % w["op"])][0]
        return r["status"] == FAILED, "float and exact runs agree to 1e-12 on dyadic data far from the origin", r["detail"]
    if w["kind"] == "c16.interval":
        r = [x for x in task_float_intervals() if "id" in x and x["id"].endswith("[%s,%s,%s]" % (w["a"], w["b"], w["case"]))][0]
        return r["status"] == FAILED, "works on the float interval and agrees with the exact computation", r["detail"]
    if w["kind"] in ("c16.exact", "c16.float"):
        U, p = VECTORS[w["vector"]]
        table, P, W = ops(U, p)
        try:
            r = table[w["op"]](lambda v: v, w["rational"])
        except Exception as e:
            return True, "exact result", "%s: %s" % (type(e).__name__, str(e)[:100])
        ok, bad = exact(r)
        if w["kind"] == "c16.exact":
            return not ok, dict(U=U, P=P, W=W if w["rational"] else None, op=w["op"], expected="only int / Fraction in the result"), [repr(b) for b in bad]
        return True, "float run within 1e-9 of the exact run", "see verifier output"
    return True, "see verifier output", "not replayed separately"


INFO = dict(
    assumptions=[A.A1, A.A2, A.A6], trusted_base=A.TRUSTED, min_obligations=40, level="other",
    explanation="C16: the exactness clause is carried, for all numeric values per shape, by the 'exact' obligations of the symbolic runs of C01-C14 (result holds no "
                "machine float and no float-tainted number). This check adds concrete runs (bounded): every listed operation on Fraction data - including scaled "
                "integers in [2^63, 2^64) and above - returns only int / Fraction, after the same operation was run on floats in the same process (no representation "
                "leaks through caches); the float run agrees with the exact run to 1e-9 relative on these well-conditioned inputs; a minimal point type with only "
                "point+point and scalar*point suffices for evaluation, insertion, elevation and splitting; Linalg.invert stays exact for large integers. "
                "Float-vs-exact agreement beyond these samples is not decided (A1).",
    functions=["heavy.Linalg.invert/solve", "heavy.number_type", "curves.Curve (evaluation, insertion, removal, elevation, reduction, split, join, arithmetic, fitting)",
               "functions.Function", "calculus.Integrate.scalar"],
)


def info(tier, seed, obs):
    return dict(bounds="4 knot vectors (small, negative/zero knots, numerators around 2^63, cubic with repeated knots) x 10 operations x polynomial / rational")
