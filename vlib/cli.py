"""./check <ID> [--tier quick|thorough]      run the checks of one property
   ./check replay <file>                   re-run a recorded counterexample on the real code
   ./check list
Exit: 0 held, 1 VIOLATION, 3 checker error (never reported as a violation)."""
from __future__ import annotations

import argparse
import importlib
import json
import os
import sys
import time
import traceback


def load_prop(pid):
    return importlib.import_module("vlib.props.%s" % pid.lower())


def main(argv=None):
    argv = list(sys.argv[1:] if argv is None else argv)
    if argv and argv[0] == "replay":
        return replay_file(argv[1])
    ap = argparse.ArgumentParser()
    ap.add_argument("prop")
    ap.add_argument("--tier", default=os.environ.get("VERIF_TIER", "quick"), choices=["quick", "thorough"])
    ap.add_argument("--only", default=None, help="substring filter on task names (debugging)")
    ap.add_argument("--workers", type=int, default=None)
    a = ap.parse_args(argv)
    seed = int(os.environ.get("VERIF_SEED", "0") or 0)
    # time limits by tier (read by the harness at import): a path / task that exceeds them is a failed `terminates` obligation
    os.environ.setdefault("VERIF_PATH_TIMEOUT", "60" if a.tier == "quick" else "600")
    os.environ.setdefault("VERIF_TASK_TIMEOUT", "300" if a.tier == "quick" else "3000")
    t0 = time.time()
    from . import report
    try:
        mod = load_prop(a.prop)
        ts = mod.tasks(a.tier, seed)
        from .contracts import callsites
        ts = callsites.extend(ts)        # call-site contracts of kv-level callees under contract: conformance + the callee's own proof
        if a.only:
            ts = [t for t in ts if a.only in t[0].__name__ or a.only in repr(t[1])]
        obs, errs = report.run_tasks(ts, a.workers)
        info = dict(mod.INFO)
        if hasattr(mod, "info"):
            info.update(mod.info(a.tier, seed, obs))
        if a.only:
            info["min_obligations"] = 1
        return report.finish(mod.PROP, a.tier, seed, obs, errs, t0, info, getattr(mod, "replay", None))
    except SystemExit:
        raise
    except BaseException:
        traceback.print_exc()
        print("CHECKER-ERROR: the checker itself failed; this is not a verdict about the property", file=sys.stderr)
        return 3


def replay_file(path):
    from . import report
    with open(path) as f:
        rep = json.load(f)
    mod = load_prop(rep["property"])
    o = dict(id=rep["obligation"], fn=rep["function"], witness=rep["witness"], tags=rep.get("tags", {}),
             engine=rep.get("engine"), detail=rep.get("verifier_output", ""))
    if o["witness"] is None or not hasattr(mod, "replay"):
        print("no concrete input recorded for", rep["obligation"])
        print(rep.get("verifier_output", ""))
        return 0
    bad, expected, observed = mod.replay(o)
    print("obligation:", rep["obligation"])
    print("expected  :", report.jsonable(expected))
    print("observed  :", report.jsonable(observed))
    print("REPRODUCED" if bad else "not reproduced on this tree")
    return 1 if bad else 0


if __name__ == "__main__":
    sys.exit(main())
