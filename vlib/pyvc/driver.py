"""Runs engine V on one contract: generate VCs from the current source, discharge,
vacuity guards (covers, canary), and turn the result into obligation records."""
from __future__ import annotations

import time
import traceback

import z3

from .. import env
from ..report import ERROR, FAILED, PROVED, UNDECIDED, ob
from . import engine as E


def verify(contract, module, qualname, variant=None, timeout_ms=10000):
    """-> list of obligation dicts (plus a {'_notapplicable': …} record if the function left the subset)."""
    fnid = "%s.%s%s" % (module, qualname, getattr(contract, "tag", "") or "")
    t0 = time.time()
    out = []
    try:
        src = env.source(module)
        eng = E.Engine(contract, src, qualname, timeout_ms)
        if variant:
            eng.fn = E.Engine._normalise(E.Engine.extract_variant(src, qualname, variant))
        vcs = eng.run()
    except E.Unsupported as e:
        return [{"_notapplicable": fnid, "reason": str(e)}]
    except Exception:
        return [{"_notapplicable": fnid, "reason": "VC generation failed: " + traceback.format_exc()[-800:]}]
    seen = {}
    lost = False
    for name, hyps, goal, line in vcs:
        k = seen.get(name, 0)
        seen[name] = k + 1
        oid = "%s:%s%s" % (fnid, name, "" if k == 0 else "#%d" % k)
        # once a proof-support obligation is not discharged the proof of this function is lost whatever the others say: they get one short attempt
        st, backend, dt, detail = E.discharge(oid, hyps, goal, timeout_ms if not lost else min(timeout_ms, 2000), one_round=lost)
        if st == FAILED and _is_support(oid):
            lost = True
        out.append(ob(oid, fnid, st, "V", backend, dt, detail, None, {"line": line}))
    # vacuity: requires + each cover must be satisfiable
    entry = eng.entry

    def sat_check(extra):
        # a vacuous precondition is a defect of the CONTRACT (checker error), a solver timeout is undecided: neither is a verdict on the code
        quantified = any(E.has_quant(f) for f in list(entry.pc) + list(extra))
        for budget in ((timeout_ms // 2,) if quantified else (timeout_ms, 6 * timeout_ms)):
            s = z3.Solver()
            s.set("timeout", budget)
            s.add(*entry.pc)
            s.add(*extra)
            r = s.check()
            if r != z3.unknown:
                break
        if r == z3.unknown:
            # quantified ghost axioms defeat model construction: fall back to the quantifier-free part (an over-approximation of satisfiability;
            # the canary below is the stronger vacuity guard and is always run)
            s = z3.Solver()
            s.set("timeout", timeout_ms)
            s.add(*[f for f in list(entry.pc) + list(extra) if not E.has_quant(f)])
            if s.check() == z3.sat:
                return "sat on the quantifier-free part", PROVED
        return r, (PROVED if r == z3.sat else ERROR if r == z3.unsat else UNDECIDED)
    for i, cov in enumerate(contract.covers):
        r, status = sat_check([eng.spec_bool(cov, entry)])
        out.append(ob("%s:cover:%d" % (fnid, i), fnid, status, "V", "z3", 0.0,
                      "precondition with '%s' is %s (must be sat: vacuity guard)" % (cov if isinstance(cov, str) else "cover", r)))
    if not contract.covers:
        r, status = sat_check([])
        out.append(ob("%s:cover:requires" % fnid, fnid, status, "V", "z3", 0.0,
                      "precondition is %s (must be sat: vacuity guard)" % r))
    # canary: a wrong postcondition must be refuted
    if contract.canary is not None:
        c2 = E.Contract(contract.name, contract.params, contract.requires, [contract.canary], contract.raises,
                        contract.loops, (), None, contract.spec, contract.setup, (), contract.calls,
                        consts=contract.consts, exc_ensures=contract.exc_ensures)
        try:
            eng2 = E.Engine(c2, src, qualname, timeout_ms)
            if variant:
                eng2.fn = E.Engine._normalise(E.Engine.extract_variant(src, qualname, variant))
            vcs2 = [v for v in eng2.run() if v[0].startswith("post:")]
            refuted = False
            for name, hyps, goal, line in vcs2:
                r, dt, _s = E._solve(hyps, goal, 3000)
                if r != z3.unsat:
                    refuted = True
                    break
            out.append(ob("%s:canary" % fnid, fnid, PROVED if refuted else ERROR, "V", "z3", 0.0,
                          "deliberately wrong postcondition '%s' is %s" % (
                              contract.canary, "refuted (hypotheses are not contradictory)" if refuted else "PROVED: hypotheses contradictory")))
        except E.Unsupported as e:
            out.append(ob("%s:canary" % fnid, fnid, ERROR, "V", "", 0.0, "canary not evaluable: %s" % e))
    # A failed *proof-support* obligation (loop invariant init / preserved / decreases, lemma) means the proof of this function is
    # LOST, not that its contract is refuted: invariants are scaffolding of my proof and a harmless edit (reordered independent
    # loops, a different but equivalent search) can break them.  Then nothing about this function is claimed at proof level on
    # this run — the other failures of the same function rest on the unproved invariants, so they are not verdicts either — and its
    # bounded contract checks (engines S / B of the same property) decide.  A failed contract obligation (post / safe / raises /
    # call precondition) with all proof-support obligations discharged IS a verdict and stays FAILED.
    support = [o for o in out if "id" in o and o["status"] == FAILED and _is_support(o["id"])]
    verdicts = [o for o in out if "id" in o and o["status"] == FAILED and not _is_support(o["id"])]
    if verdicts and not support and getattr(contract, "concrete", None) is not None:
        # a contract obligation failed: look for an input of the REAL function that shows it (bounded native search; replayable)
        try:
            w = contract.concrete()
        except Exception:
            w = None
        if w is not None:
            for o in verdicts:
                o["witness"] = w
                o["detail"] = "%s | real run: %s" % (o["detail"], w.get("observed", ""))
    if support:
        for o in out:
            if "id" in o and (o["status"] == FAILED or (o["status"] == ERROR and o["id"].endswith(":canary"))):
                o["status"] = "unproved"
                o["detail"] = "[proof lost: %s not discharged] %s" % (support[0]["id"].split(":", 1)[1], o["detail"])
        out.append({"_prooflost": fnid, "reason": "%d proof-support obligation(s) not discharged, first: %s" % (len(support), support[0]["id"])})
    out.append({"_stats": dict(v_functions=1, v_vcs=len(vcs), v_time=round(time.time() - t0, 3), v_callsite_contract_uses=getattr(eng, "callsite_uses", 0),
                               v_facts_assumed_from_callee_contracts=getattr(eng, "assumed_facts", 0),
                               v_facts_from_callsite_contracts_discharged_against_the_callee=getattr(eng, "derived_facts", 0),
                               v_obligations_raised_at_call_sites=getattr(eng, "callsite_obligations", 0))})
    return out


def _is_support(oid):
    name = oid.split(":", 1)[1] if ":" in oid else oid
    return name.startswith("loop") or name.startswith("lemma:")


def verify_callsite(label, handler, contract, module, qualname, variant, nargs, kw, ghosts=()):
    """One call-site contract against the contract proved for the callee (pyvc/conform.py)."""
    from .conform import conform
    t0 = time.time()
    out = conform(label, handler, contract, module, qualname, variant, nargs, kw, ghosts=ghosts)
    out.append({"_stats": dict(v_callsite_contracts_checked_against_callee_contract=1, v_conformance_obligations=len(out),
                               v_conformance_time=round(time.time() - t0, 3))})
    return out
