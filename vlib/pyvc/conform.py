"""Conformance of a CALL-SITE contract (a CallSpec handler, the thing a caller is verified against) with the contract PROVED for the callee.

Engine V is modular: when `knot_remove` calls `self.update(...)` the executor does not enter `update`, it runs the handler registered for
`method:BaseCurve.update`, which (i) raises the callee's preconditions as obligations of the caller, (ii) declares the exceptions the call may
raise and (iii) replaces the fields the call may change by fresh values constrained by some facts.  The handler is hand-written; the contract
of `update` is proved from the source of `update`.  This module discharges, for every such pair, that the handler says NO MORE than the proved
contract:

  pre         the obligations the handler raises at the call site imply every precondition of the callee contract
  exc-covered every exception class the callee contract allows is one the handler lets the call raise
  exc-when    where the handler gives the exact condition of a raise, the condition the contract proved for that class implies it
  exc-state   the handler leaves the state untouched on a raise: the contract must have proved `unchanged(self)` on that exit
  post        for EVERY post-state allowed by the contract's ensures (all mutable fields and the result havocked, entry facts + requires +
              ensures assumed) there is a choice of the handler's fresh values for which the handler's post-state IS that state and all facts
              the handler assumed hold   (contract-allowed behaviours  subset of  handler-allowed behaviours)
  kind        a field the handler keeps present / absent cannot change kind according to the contract
  nonvacuous  the handler's own post-state satisfies the contract (the hypotheses of `post` are not contradictory)

These obligations do not depend on /repo (both sides are text of /verif): a failure is a defect of the machinery (status ERROR, exit 3), never
a verdict on the code.  What they buy: the facts assumed at call sites of functions under contract are no longer assumptions, they are
consequences of obligations discharged from the callee's source."""
from __future__ import annotations

import ast
import copy
import itertools
import re
import time
import traceback

import z3

from .. import env
from ..report import ERROR, PROVED, UNDECIDED, FAILED, ob
from . import engine as E
from .engine import BoolV, NoneV, Num, Obj, Seq, State


class _AnyRaise(dict):
    def __contains__(self, k):
        return True


def _is_mut(v):
    return isinstance(v, Obj) and v.cls not in E.IMMUTABLE_CLASSES


def _consts(f, acc):
    """uninterpreted constants of a z3 term"""
    seen = set()
    todo = [f]
    while todo:
        t = todo.pop()
        if t.get_id() in seen:
            continue
        seen.add(t.get_id())
        if z3.is_quantifier(t):
            todo.append(t.body())
        elif z3.is_app(t):
            if t.num_args() == 0 and t.decl().kind() == z3.Z3_OP_UNINTERPRETED:
                acc[t.decl().name()] = t
            todo.extend(t.children())
    return acc


CLASS_INVARIANTS = {}      # class name -> callable(obj) -> [z3 facts]: registered by the contract modules (kv.py: the well-formedness the constructor contract proves)


def _havoc_like(v, tag, facts, old=None, fresh_obj=True):
    if isinstance(v, Seq):
        s = E.fresh_seq("any_" + tag)
        facts.append(s.n >= 0)
        return Seq(s.arr, s.n, v.is_list)
    if isinstance(v, Num):
        return Num(E.fresh("any_" + tag, z3.IntSort() if v.is_int else z3.RealSort()), v.is_int)
    if isinstance(v, BoolV):
        return BoolV(E.fresh("any_" + tag, z3.BoolSort()))
    if isinstance(v, Obj) and v.cls in E.IMMUTABLE_CLASSES:
        if not fresh_obj and old is not None:
            return old
        o = Obj(v.cls, {k: _havoc_like(w, tag + "_" + k, facts) for k, w in v.fields.items() if isinstance(w, (Num, Seq, BoolV))})
        if v.cls == "AbsKnotVector":            # the class invariant of the abstract knot vector (new_kvobj): npts > degree >= 0
            facts.append(z3.And(o.fields["degree"].z >= 0, o.fields["npts"].z >= o.fields["degree"].z + 1))
        if v.cls in CLASS_INVARIANTS:           # an arbitrary VALUE object of a class is an object its constructor can have built
            facts.extend(CLASS_INVARIANTS[v.cls](o))
        return o
    return v


class _Match:
    """EQ(S', S_h): equalities between the arbitrary post-state and the handler's, turned into a substitution for the handler's fresh constants."""

    def __init__(self, is_fresh, ghosts=()):
        self.sub, self.conj, self.is_fresh, self.ghosts = {}, [], is_fresh, set(ghosts)

    def term(self, mine, theirs):
        # mine: term of the handler's state, theirs: term of the arbitrary state
        if z3.is_const(mine) and mine.decl().kind() == z3.Z3_OP_UNINTERPRETED and self.is_fresh(mine) and mine.decl().name() not in self.sub:
            self.sub[mine.decl().name()] = (mine, theirs)
        elif z3.is_app(mine) and mine.num_args() > 0 and mine.decl().name() in self.ghosts and mine.sexpr() not in self.sub:
            self.sub[mine.sexpr()] = (mine, theirs)
        else:
            self.conj.append(mine == theirs)

    def value(self, h, a, where):
        if isinstance(h, NoneV) or isinstance(a, NoneV):
            if not (isinstance(h, NoneV) and isinstance(a, NoneV)):
                self.conj.append(z3.BoolVal(False))
        elif isinstance(h, Seq) and isinstance(a, Seq):
            self.term(h.n, a.n)
            self.term(h.arr, a.arr)
        elif isinstance(h, Num) and isinstance(a, Num):
            if h.is_int == a.is_int:
                self.term(h.z, a.z)
            else:
                self.conj.append(h.real() == a.real())
        elif isinstance(h, BoolV) and isinstance(a, BoolV):
            self.term(h.z, a.z)
        elif isinstance(h, Obj) and isinstance(a, Obj):
            if h is a:
                return
            if h.cls != a.cls:
                self.conj.append(z3.BoolVal(False))
                return
            for k in h.fields:
                if k in a.fields:
                    self.value(h.fields[k], a.fields[k], where + "." + k)
        elif h is not a:
            self.conj.append(z3.BoolVal(False))


def _subst(f, sub):
    if not sub:
        return f
    return z3.substitute(f, *[(m, t) for m, t in sub.values()])


def _ghost_apps(f, ghosts, acc):
    seen, todo = set(), [f]
    while todo:
        t = todo.pop()
        if t.get_id() in seen:
            continue
        seen.add(t.get_id())
        if z3.is_quantifier(t):
            todo.append(t.body())
        elif z3.is_app(t):
            if t.num_args() > 0 and t.decl().name() in ghosts:
                acc[t.sexpr()] = t
            todo.extend(t.children())
    return acc


def conform(label, handler, contract, module, qualname, variant=None, nargs=None, kw=None, timeout_ms=10000, ghosts=()):
    """ghosts: names of uninterpreted GHOST functions the handler uses to name its result (`SPAN_OF(x)` = "the span the call returned for x"): an
    application of one of them stands for a value the handler does not fix, exactly like a fresh constant (functional consistency - the same
    argument gives the same value - is the determinism of a pure callee on an immutable receiver)."""
    ghosts = set(ghosts)
    fnid = "%s.%s%s" % (module, qualname, getattr(contract, "tag", "") or "")
    pre_id = "%s:callsite-contract[%s]" % (fnid, label)
    out = []

    def rec(part, status, detail, backend="z3", dt=0.0):
        out.append(ob("%s:%s" % (pre_id, part), fnid, status, "V", backend, dt, detail, None, {"conformance": True}))

    def prove(part, hyps, goal, what):
        st_, backend, dt, detail = E.discharge(pre_id + ":" + part, hyps, goal, timeout_ms)
        # both sides are text of /verif: anything but PROVED is a defect (or a limit) of the machinery, never a verdict on /repo
        rec(part, PROVED if st_ == PROVED else (UNDECIDED if st_ == UNDECIDED else ERROR), "%s | %s" % (what, detail), backend, dt)
        return st_ == PROVED

    try:
        src = env.source(module)
        eng = E.Engine(contract, src, qualname, timeout_ms)
        if variant:
            eng.fn = E.Engine._normalise(E.Engine.extract_variant(src, qualname, variant))
        st = eng.prepare(assume_requires=False)
        pre = list(eng.pre_facts)
        entry_pc = list(st.pc)
        c2 = copy.copy(contract)
        c2.raises = _AnyRaise(contract.raises)
        eng.c = c2
        params = [a.arg for a in eng.fn.args.args]
        args = [st.env[p] for p in params][:nargs]
        f0 = next(E._fresh)
        exits = []
        n0, v0 = len(st.pc), len(eng.vcs)
        node = ast.parse("callee()").body[0].value
        returned = True
        try:
            ret = handler(eng, st, args, {k: st.env[k] for k in (kw or [])}, node, exits)
        except E._DeadPath:
            returned, ret = False, None
        f1 = next(E._fresh)
    except E.Unsupported as e:
        rec("setup", ERROR, "conformance not evaluable: %s" % e)
        return out
    except Exception:
        rec("setup", ERROR, "conformance check crashed: " + traceback.format_exc()[-600:])
        return out

    def is_fresh(c):
        m = re.search(r"!(\d+)$", c.decl().name())
        return bool(m) and f0 < int(m.group(1)) < f1

    A_h = list(st.pc[n0:])
    O_h = eng.vcs[v0:]

    # ---- pre -----------------------------------------------------------------------------------------------------------------------
    if pre:
        hyps = list(entry_pc)
        for name, h, g, line in O_h:
            hyps.extend(x for x in h[len(entry_pc):])
            hyps.append(g)
        for k, r in enumerate(pre):
            prove("pre:%d" % k, hyps, r, "obligations raised at the call site (%s) imply the callee's precondition" % ", ".join(v[0] for v in O_h))
    # ---- exceptions ------------------------------------------------------------------------------------------------------------------
    raised = {}
    for e in exits:
        if e.kind == "raise":
            raised.setdefault(e.exc, []).append(e)
    entry_req = entry_pc + pre
    for cls in contract.raises:
        cond = contract.raises[cls]
        if cls in raised:
            rec("exc-covered:%s" % cls, PROVED, "the contract allows %s; the handler lets the call raise it" % cls)
        elif cond is not None and O_h:
            # the handler never raises it: sound only if the obligations it puts on the caller exclude the condition under which the contract allows it
            hyps = list(entry_req)
            for name, h, g, line in O_h:
                hyps.extend(x for x in h[len(entry_pc):])
                hyps.append(g)
            prove("exc-covered:%s" % cls, hyps, z3.Not(eng.spec_bool(cond, State(dict(eng.entry.env), entry_req))),
                  "the contract allows %s only when `%s`; the obligations the handler raises at the call site exclude that" % (cls, cond))
        else:
            rec("exc-covered:%s" % cls, ERROR, "the contract allows %s; the handler never raises it: a caller's proof would miss that exit" % cls)
    for cls, es in raised.items():
        for k, e in enumerate(es):
            g = e.state.pc[-1]
            fb = [c for c in _consts(g, {}).values() if is_fresh(c)]
            if cls in contract.raises:
                cond = contract.raises[cls]
                hyps = entry_req + ([eng.spec_bool(cond, State(dict(eng.entry.env), entry_req))] if cond is not None else [])
                goal = z3.Exists(fb, g) if fb else g
                prove("exc-when:%s%s" % (cls, "#%d" % k if k else ""), hyps, goal, "whenever the contract lets %s be raised the handler's condition can hold" % cls)
            # the handler's exceptional exit state
            touched = []
            for p in params:
                v0_, v1_ = eng.entry.env.get(p), e.state.env.get(p)
                if _is_mut(v1_):
                    for fk, fv in v1_.fields.items():
                        if fv is not eng.old_fields[p].get(fk):
                            touched.append("%s.%s" % (p, fk))
            if touched:
                rec("exc-state:%s" % cls, ERROR, "the handler changes %s before raising: pattern not supported" % touched)
            elif cls in contract.raises:
                clauses = contract.exc_ensures.get(cls, contract.exc_ensures.get("*", []))
                muts = [p for p in params if _is_mut(eng.entry.env.get(p))]
                ok = (not muts) or any(re.fullmatch(r"unchanged\(\s*self\s*\)", c_.strip()) for c_ in clauses if isinstance(c_, str))
                if ok:
                    rec("exc-state:%s" % cls, PROVED, "the handler leaves the receiver untouched on %s; the contract proves unchanged(self) on that exit" % cls)
                else:
                    # another spelling of the frame: decide it semantically - every mutable field of every mutable parameter replaced by an arbitrary value
                    # (a value-object field by a FRESH object), the contract's clauses for that exit assumed, to prove: each field is what it was
                    facts, env_, goals = [], dict(eng.entry.env), []
                    for p_ in muts:
                        o_ = eng.entry.env[p_]
                        nf = {k_: _havoc_like(v_, "exc_%s_%s" % (p_, k_.strip("_").split("__")[-1]), facts) for k_, v_ in eng.old_fields[p_].items()}
                        env_[p_] = Obj(o_.cls, nf)
                        for k_, v_ in eng.old_fields[p_].items():
                            if isinstance(v_, Obj):
                                goals.append(z3.BoolVal(nf[k_] is v_))      # a fresh object: only a contradiction in the hypotheses (a `same(...)` clause) proves it
                            else:
                                mm = _Match(lambda c_: False)
                                mm.value(v_, nf[k_], k_)
                                goals.extend(mm.conj)
                    hyp = list(entry_req) + facts
                    for c_ in clauses:
                        try:
                            hyp.append(eng.spec_bool(c_, State(env_, entry_req)))
                        except (E.SkipClause, E.Unsupported, AttributeError, KeyError, TypeError):
                            continue
                    prove("exc-state:%s" % cls, hyp, z3.And(*goals) if goals else z3.BoolVal(True),
                          "the handler leaves the receiver untouched on %s; the contract's clauses for that exit (%s) force every field to keep its value" % (cls, clauses))
    if not returned:
        return out
    # ---- post ----------------------------------------------------------------------------------------------------------------------------
    # the mutable objects whose fields the call may have changed: the mutable parameters, and a mutable object returned
    roots = [(p, st.env[p], eng.old_fields.get(p, {})) for p in params if _is_mut(st.env.get(p))]
    if _is_mut(ret) and not any(ret is o for _p, o, _f in roots):
        roots.append(("result", ret, {}))
    obj_fields = [(p, k) for p, o, _old in roots for k, v in o.fields.items() if isinstance(v, Obj) and v.cls in E.IMMUTABLE_CLASSES]
    # for every field that holds a value object: the arbitrary post-state may hold a fresh value object, or (if the handler replaced it) the old one
    choices = []
    for p, o, oldf in roots:
        for k, v in o.fields.items():
            if (p, k) in obj_fields:
                choices.append(("fresh",) if (v is oldf.get(k) or k not in oldf) else ("fresh", "old"))

    def ensures_on(env_, pc_):
        fs = []
        for ens in contract.ensures:
            if isinstance(ens, dict):
                continue            # a skolemised clause is left out: a WEAKER hypothesis, the check only gets harder
            try:
                fs.append(eng.spec_bool(ens, State(env_, pc_)))
            except (E.SkipClause, E.Unsupported, AttributeError, KeyError, TypeError):
                continue
        return fs

    def arbitrary(choice, swap=None):
        facts = []
        env_ = dict(st.env)
        res = None
        for p, o, oldf in roots:
            nf = {}
            for k, v in o.fields.items():
                tag = "%s_%s" % (p, k.strip("_").split("__")[-1])
                if (p, k) in obj_fields:
                    how = choice[obj_fields.index((p, k))]
                    nf[k] = _havoc_like(v, tag, facts, old=oldf.get(k), fresh_obj=(how == "fresh"))
                elif swap == (p, k):
                    nf[k] = NoneV() if isinstance(v, Seq) else _havoc_like(Seq(None, None), tag, facts)
                else:
                    nf[k] = _havoc_like(v, tag, facts)
            if p == "result":
                res = Obj(o.cls, nf)
            else:
                env_[p] = Obj(o.cls, nf)
        if res is None and ret is not None:
            hit = [p for p, o, _f in roots if o is ret]
            res = env_[hit[0]] if hit else _havoc_like(ret, "result", facts)
        env_["result"] = res
        return env_, res, facts

    t0 = time.time()
    # nonvacuous: the handler's own post-state is allowed by the contract
    envh = dict(st.env)
    envh["result"] = ret
    s = z3.Solver()
    s.set("timeout", min(timeout_ms, 3000))
    qf = [f for f in entry_req + A_h + ensures_on(envh, entry_req) if not E.has_quant(f)]
    s.add(*qf)
    r = s.check()
    # a contradiction (unsat) is the defect this guard looks for; `unknown` (nonlinear ghost functions) means none was found within the budget
    rec("nonvacuous", ERROR if r == z3.unsat else PROVED,
        "handler's post-state together with the contract's ensures is %s (a contradiction, unsat, would make `post` vacuous)" % r, dt=time.time() - t0)
    for choice in itertools.product(*choices) if choices else [()]:
        env_, res, facts = arbitrary(choice)
        H = entry_req + facts + ensures_on(env_, entry_req) + [g for _n, _h, g, _l in O_h]      # the caller has discharged the handler's obligations
        m = _Match(is_fresh, ghosts)
        for p, o, _f in roots:
            m.value(o, res if p == "result" else env_[p], p)
        if ret is not None and not _is_mut(ret):
            m.value(ret, res, "result")
        sub = dict(m.sub)
        for f in A_h:       # `not c` for a fresh condition c of an exceptional exit: the witness is c := False
            if z3.is_not(f) and z3.is_const(f.arg(0)) and is_fresh(f.arg(0)) and f.arg(0).decl().name() not in sub:
                sub[f.arg(0).decl().name()] = (f.arg(0), z3.BoolVal(False))
        parts = [_subst(c, sub) for c in m.conj] + [_subst(f, sub) for f in A_h]
        extra = []
        if ghosts and parts:
            # remaining applications of ghost functions: values the handler leaves open -> existential constants
            apps = _ghost_apps(z3.And(*parts), ghosts, {})
            if apps:
                gs = {k: (t, E.fresh("ghost_value", t.sort())) for k, t in apps.items()}
                parts = [_subst(c, gs) for c in parts]
                extra = [c for _t, c in gs.values()]
        left = ([c for c in _consts(z3.And(*parts), {}).values() if is_fresh(c)] if parts else []) + extra
        tagc = "" if not choice else "[" + ",".join("%s=%s" % (k.strip("_").split("__")[-1], h) for (p, k), h in zip(obj_fields, choice)) + "]"
        what = "every post-state the contract allows is one the handler allows (%d assumed fact(s), %d field equalities, %d existential)" % (
            len(A_h), len(m.conj) + len(m.sub), len(left))
        if left:
            prove("post" + tagc, H, z3.Exists(left, z3.And(*parts)), what)
        elif not parts:
            rec("post" + tagc, PROVED, what + " | nothing assumed, nothing determined")
        else:
            # no existential left: the conjuncts are proved one by one (smaller queries), reported as one obligation
            t1 = time.time()
            worst, details = PROVED, []
            for g in parts:
                st_, backend, dt, detail = E.discharge(pre_id + ":post", H, g, timeout_ms)
                if st_ != PROVED:
                    worst = UNDECIDED if (st_ == UNDECIDED and worst != ERROR) else ERROR
                    details.append("%s: %s" % (z3.simplify(g).sexpr()[:160], detail))
            rec("post" + tagc, worst, what + " | " + ("; ".join(details) if details else "unsat x %d" % len(parts)), dt=time.time() - t1)
    # kind: a sequence field cannot become None (or the reverse) under the contract when the handler keeps its kind
    for p, o, _f in roots:
        for k, v in o.fields.items():
            if isinstance(v, (Seq, NoneV)):
                env_, res, facts = arbitrary(tuple(c[0] for c in choices), swap=(p, k))
                H = entry_req + facts + ensures_on(env_, entry_req)
                prove("kind:%s.%s" % (p, k.strip("_").split("__")[-1]), H, z3.BoolVal(False),
                      "the contract excludes a post-state where %s.%s is %s" % (p, k, "None" if isinstance(v, Seq) else "a sequence"))
    return out
