"""Engine V: verification-condition generation over the Python AST of the real
functions of /repo/src, discharged by z3 (and cvc5 on unknown).

The function text is re-read from the working tree on every run (ast.parse of
the current file); nothing is rewritten by hand.  Dropped by the extraction:
decorators, annotations, docstrings.  Anything outside the modelled subset makes
`Unsupported` escape: the function is then 'outside V' for this run.

Value model
  Num(z, is_int)        Python int (z3 Int) or exact number (z3 Real; float idealised, A1)
  BoolV(z)              bool
  NoneV                 None
  Seq(arr, n)           tuple/list of numbers: z3 Array Int->Real + length
  Mat(arr, r, c)        2-D object array written entry-wise
  Tup([values])         fixed-length heterogeneous tuple (unpacking, pairs)
  Obj(cls, fields)      object with named fields (self)
  Const(py)             strings, types, other literals
"""
from __future__ import annotations

import ast
import itertools
import textwrap
import time

import z3

from ..report import ERROR, FAILED, PROVED, UNDECIDED, ob


class Unsupported(Exception):
    pass


# --------------------------------------------------------------------------------------
# values
# --------------------------------------------------------------------------------------
class Num:
    __slots__ = ("z", "is_int")

    def __init__(self, z, is_int):
        self.z, self.is_int = z, is_int

    def real(self):
        return z3.ToReal(self.z) if self.is_int else self.z


class BoolV:
    __slots__ = ("z",)

    def __init__(self, z):
        self.z = z


class NoneV:
    pass


NONE = NoneV()


class Seq:
    __slots__ = ("arr", "n", "is_list", "origin")

    def __init__(self, arr, n, is_list=False):
        self.arr, self.n, self.is_list = arr, n, is_list
        self.origin = None          # ghost: ("rep", sequence, count) for count * sequence (lets a callee contract recognise the argument)


class Mat:
    __slots__ = ("arr", "r", "c")

    def __init__(self, arr, r, c):
        self.arr, self.r, self.c = arr, r, c


class Tup:
    __slots__ = ("items",)

    def __init__(self, items):
        self.items = list(items)


class Obj:
    def __init__(self, cls, fields=None):
        self.cls = cls
        self.fields = dict(fields or {})


IMMUTABLE_CLASSES = {"ImmutableKnotVector", "AbsKnotVector", "AbsSet", "ValSet"}     # value objects: shared between forked states, identity is meaningful


class Const:
    __slots__ = ("py",)

    def __init__(self, py):
        self.py = py


class Opaque:
    """A value the engine does not interpret (may be passed around, compared by identity only)."""

    def __init__(self, tag, pytype=None):
        self.tag = tag
        self.pytype = pytype


def py_isinstance(v, clsnode):
    """isinstance(v, cls) for the modelled value kinds; cls given as source (Name / Tuple of Names / Attribute)."""
    names = [ast.unparse(e) for e in clsnode.elts] if isinstance(clsnode, ast.Tuple) else [ast.unparse(clsnode)]
    if isinstance(v, Num):
        mine = {"int", "np.integer"} if v.is_int else {"float", "Fraction", "np.floating", "number"}
        if not v.is_int and ("int" in names or "np.integer" in names) and not (set(names) & mine):
            return False
    elif isinstance(v, BoolV):
        mine = {"bool", "int"}
    elif isinstance(v, Seq):
        mine = {"list"} if v.is_list else {"tuple"}
    elif isinstance(v, Tup):
        mine = {"tuple"}
    elif isinstance(v, NoneV):
        mine = set()
    elif isinstance(v, Const) and isinstance(v.py, str):
        mine = {"str"}
    elif isinstance(v, Obj):
        mine = {v.cls} | set(getattr(v, "bases", ()))
    elif isinstance(v, Opaque) and v.pytype:
        mine = {v.pytype}
    else:
        raise Unsupported("isinstance of %r" % (v,))
    return bool(mine & set(names))


_fresh = itertools.count()


def fresh(prefix, sort):
    return z3.Const("%s!%d" % (prefix, next(_fresh)), sort)


def fresh_int(p="i"):
    return fresh(p, z3.IntSort())


def fresh_real(p="r"):
    return fresh(p, z3.RealSort())


def fresh_seq(p="s"):
    return Seq(fresh(p, z3.ArraySort(z3.IntSort(), z3.RealSort())), fresh_int(p + "_len"))


def IntC(v):
    return Num(z3.IntVal(v), True)


def to_real(v):
    if isinstance(v, Num):
        return v.real()
    if isinstance(v, BoolV):
        return z3.If(v.z, z3.RealVal(1), z3.RealVal(0))
    raise Unsupported("not a number: %r" % (v,))


def to_bool(v):
    """Python truthiness."""
    if isinstance(v, BoolV):
        return v.z
    if isinstance(v, Num):
        return v.z != 0
    if isinstance(v, NoneV):
        return z3.BoolVal(False)
    if isinstance(v, Seq):
        return v.n > 0
    if isinstance(v, Tup):
        return z3.BoolVal(len(v.items) > 0)
    if isinstance(v, Const):
        return z3.BoolVal(bool(v.py))
    raise Unsupported("truthiness of %r" % (v,))


# --------------------------------------------------------------------------------------
# state
# --------------------------------------------------------------------------------------
class State:
    def __init__(self, env=None, pc=None, hyps=None, fields=None):
        self.env = env if env is not None else {}
        self.pc = pc if pc is not None else []       # z3 formulas (path condition + assumed facts)
        self.trace = []

    def copy(self):
        s = State(dict(self.env), list(self.pc))
        s.trace = list(self.trace)
        # objects are mutable records: copy field maps so forks do not interfere
        remap = {}
        for k, v in s.env.items():
            if isinstance(v, Obj) and v.cls not in IMMUTABLE_CLASSES:
                if id(v) not in remap:
                    remap[id(v)] = Obj(v.cls, v.fields)
                s.env[k] = remap[id(v)]
        return s

    def assume(self, z):
        self.pc.append(z)


class Exit:
    """How a path left the function."""

    def __init__(self, kind, state, value=None, exc=None, line=None):
        self.kind, self.state, self.value, self.exc, self.line = kind, state, value, exc, line


class _Break(Exception):
    pass


class _DeadPath(Exception):
    """The current path always raises here (the exceptional exit has been recorded)."""


# --------------------------------------------------------------------------------------
# contract
# --------------------------------------------------------------------------------------
class Contract:
    def __init__(self, name, params, requires=(), ensures=(), raises=None, loops=None, covers=(),
                 canary=None, spec=None, setup=None, old=(), calls=None, ghost=None, result_kind=None,
                 hints=None, consts=None, fields_frame=None, exc_ensures=None, min_obligations=1, lemmas=None,
                 concrete=None):
        self.name = name                # module.Class.func
        self.params = params            # {name: kind}  kind: int|real|bool|seq|list|none|obj:<Class>|type|any
        self.requires = list(requires)
        self.ensures = list(ensures)
        self.raises = dict(raises or {})     # {"ValueError": "condition that then held"}; absent class => must not be raised
        self.loops = dict(loops or {})       # {ordinal: dict(invariant=[…], decreases=expr)}
        self.covers = list(covers)
        self.canary = canary
        self.spec = spec or {}               # extra names for contract expressions
        self.setup = setup                   # callable(engine, state) -> None: extra axioms / field setup
        self.calls = dict(calls or {})       # callee name -> CallSpec
        self.hints = list(hints or [])
        self.consts = dict(consts or {})
        self.exc_ensures = dict(exc_ensures or {})   # {"ValueError": [exprs that must hold on that exit]} e.g. frame
        self.min_obligations = min_obligations
        self.lemmas = list(lemmas or [])     # callables(engine, state) -> z3 formula: proved in isolation, then assumed
        self.result_kind = result_kind       # "num"|"seq"|"none"|"bool": the kind every returned value must have (else a failed post on that path)
        self.concrete = concrete             # callable() -> (bad, expected, observed, inputs) native bounded search for a failing input


class CallSpec:
    """Contract of a callee as used at a call site: handler(engine, state, args, kwargs, node) -> value.
    The handler asserts the callee's precondition (engine.vc) and assumes its postcondition."""

    def __init__(self, handler):
        self._h = handler

    def handler(self, eng, st, args, kw, node, exits):
        # mechanical count of what is ASSUMED about callees: every fact a call-site contract adds to the path condition, every obligation it raises
        n0, v0 = len(st.pc), len(eng.vcs)
        try:
            return self._h(eng, st, args, kw, node, exits)
        finally:
            # facts of a handler that pyvc/conform.py discharges against the callee's proved contract are consequences, not assumptions
            attr = "derived_facts" if getattr(self._h, "checked_against_callee", False) else "assumed_facts"
            setattr(eng, attr, getattr(eng, attr, 0) + max(0, len(st.pc) - n0))
            eng.callsite_obligations = getattr(eng, "callsite_obligations", 0) + max(0, len(eng.vcs) - v0)
            eng.callsite_uses = getattr(eng, "callsite_uses", 0) + 1


# --------------------------------------------------------------------------------------
# the symbolic executor
# --------------------------------------------------------------------------------------
class Engine:
    def __init__(self, contract, source, qualname, timeout_ms=20000):
        self.c = contract
        self.qualname = qualname
        self.src = source
        self.fn = self._normalise(self._extract(source, qualname))
        self.vcs = []            # (name, hyps, goal, kind, line)
        self.exits = []
        self.loop_ord = 0
        self.timeout_ms = timeout_ms
        self.cls_name = qualname.split(".")[-2] if "." in qualname else None
        self.old = {}
        self.notes = []

    # ---- extraction ---------------------------------------------------------------
    class _IfExpToIf(ast.NodeTransformer):
        """The only rewriting applied to the extracted text (it keeps Python's meaning: the test is evaluated once, then exactly one branch):
        `return A if c else B`  ->  `if c: return A` / `else: return B`;   `x = A if c else B`  ->  `if c: x = A` / `else: x = B`.
        It lets the executor fork on the test, so the branches may be of different kinds (a point vs a tuple of points)."""

        def visit_Return(self, node):
            if isinstance(node.value, ast.IfExp):
                v = node.value
                new = ast.If(test=v.test, body=[self.visit_Return(ast.copy_location(ast.Return(value=v.body), node))],
                             orelse=[self.visit_Return(ast.copy_location(ast.Return(value=v.orelse), node))])
                return ast.copy_location(new, node)
            return node

        def visit_Assign(self, node):
            if isinstance(node.value, ast.IfExp):
                v = node.value
                new = ast.If(test=v.test, body=[self.visit_Assign(ast.copy_location(ast.Assign(targets=node.targets, value=v.body), node))],
                             orelse=[self.visit_Assign(ast.copy_location(ast.Assign(targets=node.targets, value=v.orelse), node))])
                return ast.copy_location(new, node)
            return node

    @classmethod
    def _normalise(cls, fn):
        fn = cls._IfExpToIf().visit(fn)
        ast.fix_missing_locations(fn)
        return fn

    @staticmethod
    def _extract(source, qualname):
        tree = ast.parse(source)
        parts = qualname.split(".")
        node = tree
        for i, p in enumerate(parts):
            found = None
            cands = [n for n in ast.iter_child_nodes(node)
                     if isinstance(n, (ast.FunctionDef, ast.ClassDef)) and n.name == p]
            if not cands:
                raise Unsupported("function %s not found in the source (renamed or removed)" % qualname)
            # property getter/setter share a name: the contract selects by decorator suffix "name@setter"
            found = cands[0]
            node = found
        return node

    @staticmethod
    def extract_variant(source, qualname, decorator):
        """Select among same-named defs (property getter vs setter) by decorator text."""
        tree = ast.parse(source)
        parts = qualname.split(".")
        node = tree
        for p in parts[:-1]:
            node = next(n for n in ast.iter_child_nodes(node) if isinstance(n, ast.ClassDef) and n.name == p)
        for n in ast.iter_child_nodes(node):
            if isinstance(n, ast.FunctionDef) and n.name == parts[-1]:
                decs = [ast.unparse(d) for d in n.decorator_list]
                if decorator in decs:
                    return n
        raise Unsupported("no def %s with decorator %s" % (qualname, decorator))

    def mangle(self, attr):
        if attr.startswith("__") and not attr.endswith("__") and self.cls_name:
            return "_%s%s" % (self.cls_name, attr)
        return attr

    # ---- VC bookkeeping --------------------------------------------------------------
    def vc(self, st, goal, name, line=None):
        self.vcs.append((name, list(st.pc), goal, line))

    # ---- run --------------------------------------------------------------------------
    def run(self):
        st = self.prepare()
        fn = self.fn
        exits = []
        try:
            outs = self.exec_block(fn.body, st, exits)
        except _Break:
            raise Unsupported("break outside loop")
        for s in outs:          # fell off the end: return None
            exits.append(Exit("return", s, NONE, line=fn.end_lineno))
        for e in exits:
            self.check_exit(e)
        return self.vcs

    def prepare(self, assume_requires=True):
        """The entry state of the contract: parameters, setup, requires (with assume_requires=False the preconditions are only RECORDED in
        self.pre_facts: used by the conformance check of call-site contracts, pyvc/conform.py), lemmas."""
        st = State()
        fn = self.fn
        self.assume_requires = assume_requires
        self.pre_facts = []
        args = [a.arg for a in fn.args.args]
        defaults = fn.args.defaults
        for a in args:
            kind = self.c.params.get(a)
            if kind is None:
                raise Unsupported("no kind declared for parameter %s" % a)
            st.env[a] = self.make_param(a, kind, st)
        for k, v in self.c.consts.items():
            st.env[k] = v
        if self.c.setup:
            self.c.setup(self, st)
        for r in self.c.requires:
            self.require(st, self.spec_bool(r, st))
        for k, lem in enumerate(self.c.lemmas):
            f = lem(self, st)
            self.vcs.append(("lemma:%d" % k, list(st.pc), f, None))
            st.assume(f)
        self.old = {k: v for k, v in st.env.items()}
        self.old_fields = {k: dict(v.fields) for k, v in st.env.items() if isinstance(v, Obj)}
        self.entry = st.copy()
        return st

    def require(self, st, z):
        """A precondition of the contract (from `requires` or stated by the setup): assumed on entry; an obligation of every caller."""
        self.pre_facts.append(z)
        if getattr(self, "assume_requires", True):
            st.assume(z)

    def make_param(self, name, kind, st):
        if kind == "int":
            return Num(z3.Int(name), True)
        if kind == "real":
            return Num(z3.Real(name), False)
        if kind == "bool":
            return BoolV(z3.Bool(name))
        if kind in ("seq", "list"):
            s = Seq(z3.Array(name, z3.IntSort(), z3.RealSort()), z3.Int(name + "_len"), kind == "list")
            st.assume(s.n >= 0)
            return s
        if kind == "none":
            return NONE
        if kind.startswith("obj:"):
            return Obj(kind[4:])
        if kind == "type":
            return Const("numeric-type")
        if kind == "convtype":
            return Const("conversion-type")
        if kind == "any":
            return Opaque(name)
        if kind.startswith("opaque:"):
            return Opaque(name, kind[7:])
        if kind.startswith("tup:"):
            return Tup([self.make_param("%s_%d" % (name, i), k, st) for i, k in enumerate(kind[4:].split(","))])
        if kind == "str":
            return Const("a-string")
        if kind == "intseq":
            s = Seq(z3.Array(name, z3.IntSort(), z3.RealSort()), z3.Int(name + "_len"))
            st.assume(s.n >= 0)
            return s
        raise Unsupported("parameter kind %s" % kind)

    # ---- exits ------------------------------------------------------------------------
    def check_exit(self, e):
        st = e.state
        if e.kind == "return":
            env = dict(st.env)
            st2 = State(env, st.pc)
            env["result"] = e.value
            rk = self.c.result_kind
            if rk is not None:
                ok = {"num": isinstance(e.value, Num), "seq": isinstance(e.value, Seq), "none": isinstance(e.value, NoneV),
                      "bool": isinstance(e.value, BoolV)}.get(rk, True)
                if not ok:
                    # a value of another kind is returned on this path: the postcondition fails there iff the path is feasible
                    self.vc(st, z3.BoolVal(False), "post:result-is-%s@return-L%s" % (rk, e.line), e.line)
                    return
            for i, ens in enumerate(self.c.ensures):
                if isinstance(ens, dict):
                    self.skolem_vc(ens, st, st2, "post:%d@return-L%s" % (i, e.line), e.line)
                    continue
                try:
                    g = self.spec_bool(ens, st2, result=e.value)
                except SkipClause:
                    continue
                self.vc(st, g, "post:%d@return-L%s" % (i, e.line), e.line)
        elif e.kind == "raise":
            cls = e.exc
            if cls not in self.c.raises:
                self.vc(st, z3.BoolVal(False), "raises:%s-not-allowed@L%s" % (cls, e.line), e.line)
            else:
                cond = self.c.raises[cls]
                if cond is not None:
                    self.vc(st, self.spec_bool(cond, State(dict(self.entry.env), st.pc)),
                            "raises:%s-only-when@L%s" % (cls, e.line), e.line)
                for i, ens in enumerate(self.c.exc_ensures.get(cls, self.c.exc_ensures.get("*", []))):
                    self.vc(st, self.spec_bool(ens, st), "raises:%s-state:%d@L%s" % (cls, i, e.line), e.line)

    def skolem_vc(self, ens, st, st2, name, line):
        """ensures of the form  when => forall var in [lo, hi): body   proved for a fresh constant `var` (arbitrary, hence for all),
        with ghost instantiation hints: every universally quantified hypothesis is instantiated at the hint terms (two rounds, also at
        the uninterpreted-function terms the first round produces).  Instances of hypotheses are consequences of the hypotheses, so the
        hints can only help a valid obligation, never make an invalid one pass."""
        var = ens["var"]
        c = fresh_int(var)
        env = dict(st2.env)
        env[var] = Num(c, True)
        sk = State(env, st.pc)
        when = self.spec_bool(ens["when"], sk) if ens.get("when") else z3.BoolVal(True)
        if z3.is_false(z3.simplify(when)):
            return
        lo, hi = self.spec_num(ens["lo"], sk), self.spec_num(ens["hi"], sk)
        body = self.spec_bool(ens["body"], sk)
        terms = [self.spec_num(t, sk) for t in ens.get("hints", [var])]
        extra = instantiate_hyps(list(st.pc) + [when], terms)
        self.vcs.append((name, list(st.pc) + extra, z3.Implies(z3.And(when, lo <= c, c < hi), body), line))

    # ---- statements ----------------------------------------------------------------------
    def exec_block(self, body, st, exits):
        """Returns the list of states that fall through the block."""
        states = [st]
        for stmt in body:
            nxt = []
            for s in states:
                nxt.extend(self.exec_stmt(stmt, s, exits))
            states = nxt
            if not states:
                break
        return states

    def feasible(self, st):
        """Path pruning only (an infeasible path kept alive costs VCs that hold vacuously): decided on the
        quantifier-free part of the path condition, which over-approximates feasibility."""
        s = z3.Solver()
        s.set("timeout", 2000)
        for f in st.pc:
            if not has_quant(f):
                s.add(f)
        return s.check() != z3.unsat

    def raise_exc(self, st, cls, cond, line, exits, handlers=None):
        """Operation raises `cls` when cond.  Returns the state that continues normally."""
        if z3.is_false(z3.simplify(cond)):
            return st
        tries = getattr(self, "_try_stack", [])
        caught = any(cls in h or "Exception" in h for h in tries)
        if not caught and cls not in self.c.raises:
            # contract: this exception must not happen -> safety obligation, continue under not cond
            self.vc(st, z3.Not(cond), "safe:%s@L%s" % (cls, line), line)
            st.assume(z3.Not(cond))
            return st
        es = st.copy()
        es.assume(cond)
        if self.feasible(es):
            self.pending_exc.append((cls, es, line)) if caught else exits.append(Exit("raise", es, exc=cls, line=line))
        st.assume(z3.Not(cond))
        return st

    def exec_stmt(self, node, st, exits):
        m = getattr(self, "s_" + type(node).__name__, None)
        if m is None:
            raise Unsupported("statement %s at L%d" % (type(node).__name__, node.lineno))
        try:
            return m(node, st, exits)
        except _DeadPath:
            return []

    def s_Expr(self, node, st, exits):
        if isinstance(node.value, ast.Constant):   # docstring
            return [st]
        self.eval(node.value, st, exits)
        return [st]

    def s_Pass(self, node, st, exits):
        return [st]

    def s_Assign(self, node, st, exits):
        val = self.eval(node.value, st, exits)
        for tgt in node.targets:
            self.assign(tgt, val, st, exits)
        return [st]

    def s_AnnAssign(self, node, st, exits):
        if node.value is not None:
            self.assign(node.target, self.eval(node.value, st, exits), st, exits)
        return [st]

    def s_AugAssign(self, node, st, exits):
        cur = self.eval(_load(node.target), st, exits)
        rhs = self.eval(node.value, st, exits)
        val = self.binop(type(node.op).__name__, cur, rhs, st, exits, node)
        self.assign(node.target, val, st, exits)
        return [st]

    def assign(self, tgt, val, st, exits):
        if isinstance(tgt, ast.Name):
            st.env[tgt.id] = val
        elif isinstance(tgt, (ast.Tuple, ast.List)):
            items = self.unpack(val, len(tgt.elts), st, exits, tgt)
            for t, v in zip(tgt.elts, items):
                self.assign(t, v, st, exits)
        elif isinstance(tgt, ast.Attribute):
            obj = self.eval(tgt.value, st, exits)
            if not isinstance(obj, Obj):
                raise Unsupported("attribute store on %r" % (obj,))
            attr = self.mangle(tgt.attr)
            setter = self.c.calls.get("setattr:%s.%s" % (obj.cls, attr))
            if setter is not None:
                setter.handler(self, st, [obj, val], {}, tgt, exits)
            else:
                obj.fields[attr] = val
        elif isinstance(tgt, ast.Subscript):
            base = self.eval(tgt.value, st, exits)
            if isinstance(base, Mat):
                idx = tgt.slice
                if not (isinstance(idx, ast.Tuple) and len(idx.elts) == 2):
                    raise Unsupported("matrix store needs m[i, j]")
                i = self.eval(idx.elts[0], st, exits)
                j = self.eval(idx.elts[1], st, exits)
                self.raise_exc(st, "IndexError", z3.Not(z3.And(i.z >= -base.r, i.z < base.r, j.z >= -base.c, j.z < base.c)),
                               tgt.lineno, exits)
                ii = z3.simplify(z3.If(i.z < 0, i.z + base.r, i.z))
                jj = z3.simplify(z3.If(j.z < 0, j.z + base.c, j.z))
                new = Mat(z3.Store(base.arr, ii, z3.Store(z3.Select(base.arr, ii), jj, to_real(val))), base.r, base.c)
                for k, v in list(st.env.items()):      # arrays are mutable: rebind every alias
                    if v is base:
                        st.env[k] = new
                return
            if isinstance(base, Seq):
                if not base.is_list:
                    self.raise_exc(st, "TypeError", z3.BoolVal(True), tgt.lineno, exits)
                i = self.eval(tgt.slice, st, exits)
                self.raise_exc(st, "IndexError", z3.Not(z3.And(i.z >= -base.n, i.z < base.n)), tgt.lineno, exits)
                ii = z3.If(i.z < 0, i.z + base.n, i.z)
                new = Seq(z3.Store(base.arr, ii, to_real(val)), base.n, True)
                # lists are mutable: rebind every alias in env
                for k, v in list(st.env.items()):
                    if v is base:
                        st.env[k] = new
                return
            raise Unsupported("subscript store on %r" % (base,))
        else:
            raise Unsupported("assignment target %s" % type(tgt).__name__)

    def unpack(self, val, n, st, exits, node):
        if isinstance(val, Tup):
            if len(val.items) != n:
                raise Unsupported("unpack length mismatch (static)")
            return val.items
        if isinstance(val, Seq):
            self.raise_exc(st, "ValueError", val.n != n, node.lineno, exits)
            return [Num(z3.Select(val.arr, i), False) for i in range(n)]
        raise Unsupported("unpack of %r" % (val,))

    def s_Return(self, node, st, exits):
        val = NONE if node.value is None else self.eval(node.value, st, exits)
        exits.append(Exit("return", st, val, line=node.lineno))
        return []

    def s_Raise(self, node, st, exits):
        if node.exc is None:
            raise Unsupported("bare raise")
        exc = node.exc
        name = exc.func.id if isinstance(exc, ast.Call) and isinstance(exc.func, ast.Name) else \
            exc.id if isinstance(exc, ast.Name) else None
        if name is None:
            raise Unsupported("raise of a computed exception")
        bound = st.env.get(name) if isinstance(exc, ast.Name) else None
        if isinstance(bound, Const) and isinstance(bound.py, tuple) and bound.py[0] == "exception":
            name = bound.py[1]          # `raise error` of an exception caught as `error`
        if isinstance(exc, ast.Call):   # message expressions are evaluated only for their (absent) effects
            pass
        tries = getattr(self, "_try_stack", [])
        if any(name in h or "Exception" in h for h in tries):
            self.pending_exc.append((name, st, node.lineno))
        else:
            exits.append(Exit("raise", st, exc=name, line=node.lineno))
        return []

    def s_Assert(self, node, st, exits):
        c = to_bool(self.eval(node.test, st, exits))
        st = self.raise_exc(st, "AssertionError", z3.Not(c), node.lineno, exits)
        return [st]

    def s_If(self, node, st, exits):
        outs = []
        for branch, s in self.split(node.test, st, exits):
            body = node.body if branch else node.orelse
            outs.extend(self.exec_block(body, s, exits))
        return outs

    def split(self, test, st, exits):
        """Evaluate a condition with short-circuit semantics; yields (truth, state) pairs."""
        if isinstance(test, ast.BoolOp):
            is_and = isinstance(test.op, ast.And)
            pend = [st]
            results = []
            for k, sub in enumerate(test.values):
                last = k == len(test.values) - 1
                nxt = []
                for s in pend:
                    for b, s2 in self.split(sub, s, exits):
                        if last:
                            results.append((b, s2))
                        elif b == is_and:
                            nxt.append(s2)      # need to look at the next operand
                        else:
                            results.append((b, s2))
                pend = nxt
            return results
        if isinstance(test, ast.UnaryOp) and isinstance(test.op, ast.Not):
            return [(not b, s) for b, s in self.split(test.operand, st, exits)]
        if isinstance(test, ast.Compare) and len(test.ops) > 1:
            # a < b < c  ==  a < b and b < c (middle evaluated once; operands here are pure)
            parts = []
            left = test.left
            for op, right in zip(test.ops, test.comparators):
                parts.append(ast.copy_location(ast.Compare(left=left, ops=[op], comparators=[right]), test))
                left = right
            return self.split(ast.copy_location(ast.BoolOp(op=ast.And(), values=parts), test), st, exits)
        c = to_bool(self.eval(test, st, exits))
        c = z3.simplify(c)
        if z3.is_true(c):
            return [(True, st)]
        if z3.is_false(c):
            return [(False, st)]
        out = []
        st_t = st.copy()
        st_t.assume(c)
        if self.feasible(st_t):
            out.append((True, st_t))
        st_f = st
        st_f.assume(z3.Not(c))
        if self.feasible(st_f):
            out.append((False, st_f))
        return out

    # ---- loops ------------------------------------------------------------------------------
    def assigned_names(self, body):
        names = set()
        for n in ast.walk(ast.Module(body=body, type_ignores=[])):
            if isinstance(n, ast.Name) and isinstance(n.ctx, ast.Store):
                names.add(n.id)
            elif isinstance(n, ast.Subscript) and isinstance(n.ctx, ast.Store):
                b = n.value
                if isinstance(b, ast.Name):
                    names.add(b.id)
            elif isinstance(n, ast.Call) and isinstance(n.func, ast.Attribute) and \
                    n.func.attr in ("append", "remove", "sort", "pop", "extend", "insert", "fill") and isinstance(n.func.value, ast.Name):
                names.add(n.func.value.id)
            elif isinstance(n, ast.AugAssign) and isinstance(n.target, ast.Name):
                names.add(n.target.id)
        return names

    def havoc(self, st, names):
        for nme in names:
            v = st.env.get(nme)
            if v is None:
                continue
            if isinstance(v, Num):
                st.env[nme] = Num(fresh_int(nme) if v.is_int else fresh_real(nme), v.is_int)
            elif isinstance(v, BoolV):
                st.env[nme] = BoolV(fresh(nme, z3.BoolSort()))
            elif isinstance(v, Seq):
                s = fresh_seq(nme)
                s.is_list = v.is_list
                st.assume(s.n >= 0)
                st.env[nme] = s
            elif isinstance(v, Mat):
                st.env[nme] = Mat(fresh(nme, MATSORT), v.r, v.c)
            elif isinstance(v, (NoneV, Const)):
                pass   # type-stable only if not reassigned to another kind; checked by invariant failure otherwise
            else:
                raise Unsupported("havoc of %s : %r" % (nme, v))

    # ---- objects in loops -------------------------------------------------------------------------
    @staticmethod
    def kind_of(v):
        if isinstance(v, Num):
            return "num"
        if isinstance(v, Obj):
            return "obj:" + v.cls
        return type(v).__name__

    LIST_METHODS = {"append", "extend", "pop", "insert", "remove", "sort", "index", "count", "reverse"}

    @classmethod
    def may_mutate_objects(cls, body, env):
        """The loop body stores to an attribute, or calls a method on a name that is (or may be) bound to an object: conservative trigger for
        the havoc of object fields.  Methods of sequences (receiver bound to a sequence value, or a list method on a loop-local name) do not count."""
        for stmt in body:
            for n in ast.walk(stmt):
                if isinstance(n, (ast.Assign, ast.AugAssign, ast.AnnAssign)):
                    tgts = n.targets if isinstance(n, ast.Assign) else [n.target]
                    if any(isinstance(t, ast.Attribute) for t in tgts):
                        return True
                if isinstance(n, ast.Call) and isinstance(n.func, ast.Attribute) and isinstance(n.func.value, ast.Name):
                    recv = env.get(n.func.value.id)
                    if isinstance(recv, Obj) and recv.cls not in IMMUTABLE_CLASSES:
                        return True
                    if recv is None and n.func.attr not in cls.LIST_METHODS:
                        return True
        return False

    def havoc_value(self, v, tag, st):
        if isinstance(v, Num):
            return Num(fresh_int(tag) if v.is_int else fresh_real(tag), v.is_int)
        if isinstance(v, BoolV):
            return BoolV(fresh(tag, z3.BoolSort()))
        if isinstance(v, Seq):
            s = fresh_seq(tag)
            s.is_list = v.is_list
            st.assume(s.n >= 0)
            return s
        if isinstance(v, Obj):
            return Obj(v.cls, {k: self.havoc_value(x, tag + "_" + k.strip("_"), st) for k, x in v.fields.items()})
        return v

    def havoc_objects(self, st):
        """An arbitrary iteration may have changed any field of any mutable object: every field gets an arbitrary value of the SAME kind
        (kind stability is checked after the body); what is known about them must come from the loop invariant."""
        for nme, v in list(st.env.items()):
            if isinstance(v, Obj) and v.cls not in IMMUTABLE_CLASSES:
                for k, x in list(v.fields.items()):
                    v.fields[k] = self.havoc_value(x, "%s_%s" % (nme, k.strip("_")), st)

    def check_kinds(self, head, end, modified, objects, node):
        for nme in modified:
            a, b = head.env.get(nme), end.env.get(nme)
            if a is not None and b is not None and self.kind_of(a) != self.kind_of(b):
                raise Unsupported("variable %s changes kind in the loop at L%d (%s -> %s)" % (nme, node.lineno, self.kind_of(a), self.kind_of(b)))
        if objects:
            for nme, v in head.env.items():
                w = end.env.get(nme)
                if isinstance(v, Obj) and isinstance(w, Obj) and v.cls not in IMMUTABLE_CLASSES:
                    for k, x in v.fields.items():
                        y = w.fields.get(k)
                        if y is not None and self.kind_of(x) != self.kind_of(y):
                            raise Unsupported("field %s.%s changes kind in the loop at L%d (%s -> %s)" % (nme, k, node.lineno, self.kind_of(x), self.kind_of(y)))

    def widen(self, st, modified, guard_fn, pre_body, post_body, body):
        saved = (len(self.vcs), self.loop_ord, list(getattr(self, "_break_stack", [])), list(getattr(self, "pending_exc", [])),
                 list(self.notes))
        trial = st.copy()
        widen = set()
        try:
            self._break_stack = getattr(self, "_break_stack", []) + [[]]
            pre_body(trial)
            ends = self.exec_block(body, trial, [])
            ends += self._break_stack[-1]
            for s in ends:
                for nme in modified:
                    a, b = st.env.get(nme), s.env.get(nme)
                    if isinstance(a, Num) and a.is_int and isinstance(b, Num) and not b.is_int:
                        widen.add(nme)
        except Unsupported:
            pass
        finally:
            del self.vcs[saved[0]:]
            self.loop_ord = saved[1]
            self._break_stack = saved[2]
            self.pending_exc = saved[3]
            self.notes = saved[4]
        for nme in widen:
            st.env[nme] = Num(st.env[nme].real(), False)

    def loop_contract(self, node):
        k = self.loop_ord
        self.loop_ord += 1
        lc = self.c.loops.get(k)
        if lc is None:
            raise Unsupported("loop %d (L%d) has no invariant in the contract" % (k, node.lineno))
        return k, lc

    def run_loop(self, node, st, exits, k, lc, guard_fn, pre_body, post_body, body, orelse, modified, counter=None):
        """Generic cut-point treatment.  guard_fn(state)->z3 bool (pure); pre_body/post_body: callables(state)."""
        tag = "loop%d" % k
        inv = lc.get("invariant", [])
        # 1. invariant holds on entry
        for i, e in enumerate(inv):
            self.vc(st, self.spec_bool(e, st), "%s:init:%d@L%d" % (tag, i, node.lineno), node.lineno)
        # 2. arbitrary iteration (variables that turn from int into exact numbers in the body are havocked as reals)
        self.widen(st, modified, guard_fn, pre_body, post_body, body)
        self.havoc(st, modified)
        objects = self.may_mutate_objects(body, st.env)
        if objects:
            self.havoc_objects(st)
        head = st.copy()
        for e in inv:
            st.assume(self.spec_bool(e, st))
        g = guard_fn(st)
        outs = []
        # body path
        sb = st.copy()
        sb.assume(g)
        if self.feasible(sb):
            dec0 = None
            if lc.get("decreases") is not None:
                dec0 = self.spec_num(lc["decreases"], sb)
            pre_body(sb)
            try_break = []
            self._break_stack = getattr(self, "_break_stack", [])
            self._break_stack.append(try_break)
            self._continue_stack = getattr(self, "_continue_stack", [])
            self._continue_stack.append([])
            ends = self.exec_block(body, sb, exits)
            self._break_stack.pop()
            conts = self._continue_stack.pop()
            for s in ends + conts:          # `continue` ends the iteration like falling off the body
                self.check_kinds(head, s, modified, objects, node)
                post_body(s)
                for i, e in enumerate(inv):
                    self.vc(s, self.spec_bool(e, s), "%s:preserved:%d@L%d" % (tag, i, node.lineno), node.lineno)
                if dec0 is not None:
                    dec1 = self.spec_num(lc["decreases"], s)
                    self.vc(s, z3.And(dec1 < dec0, dec0 >= 0) if lc.get("bounded_below", True) else dec1 < dec0,
                            "%s:decreases@L%d" % (tag, node.lineno), node.lineno)
            outs.extend(try_break)     # states that left through break (skip orelse)
        elif lc.get("must_enter", False):
            self.vc(st, z3.BoolVal(False), "%s:body-reachable" % tag, node.lineno)
        # exit path
        se = st
        se.assume(z3.Not(g))
        if self.feasible(se):
            outs.extend(self.exec_block(orelse, se, exits) if orelse else [se])
        return outs

    def s_While(self, node, st, exits):
        k, lc = self.loop_contract(node)
        modified = self.assigned_names(node.body)
        pure = lambda s: to_bool(self.eval(node.test, s, exits))
        return self.run_loop(node, st, exits, k, lc, pure, lambda s: None, lambda s: None, node.body,
                             node.orelse, modified)

    def s_Break(self, node, st, exits):
        self._break_stack[-1].append(st)
        return []

    def s_Continue(self, node, st, exits):
        stack = getattr(self, "_continue_stack", [])
        if not stack:
            raise Unsupported("continue outside a loop cut at an invariant")
        stack[-1].append(st)
        return []

    def s_For(self, node, st, exits):
        if isinstance(node.iter, (ast.List, ast.Tuple)) and isinstance(node.target, ast.Name) and not node.orelse:
            items = [self.eval(e, st, exits) for e in node.iter.elts]
            if items and all(isinstance(x, Obj) for x in items):
                # a literal list of objects: a fixed number of iterations, executed one after the other (no cut point, no invariant);
                # `break` / `continue` inside such a loop are outside the subset
                if any(isinstance(n, (ast.Break, ast.Continue)) for b in node.body for n in ast.walk(b) if not isinstance(n, (ast.For, ast.While))):
                    pass
                states = [st]
                for x in items:
                    nxt = []
                    for s_ in states:
                        s_.env[node.target.id] = x
                        nxt.extend(self.exec_block(node.body, s_, exits))
                    states = nxt
                return states
        if isinstance(node.iter, ast.Name) and isinstance(st.env.get(node.iter.id), (Num, BoolV, NoneV)):
            # `for x in <number>`: not iterable - TypeError before any iteration (no cut point is consumed)
            self.raise_exc(st, "TypeError", z3.BoolVal(True), node.lineno, exits)
            return []
        k, lc = self.loop_contract(node)
        it = node.iter
        cname = "it%d" % k
        modified = self.assigned_names(node.body) | {cname}
        for n in ast.walk(node.target):
            if isinstance(n, ast.Name):
                modified.add(n.id)
        enum = False
        if isinstance(it, ast.Call) and isinstance(it.func, ast.Name) and it.func.id == "enumerate" and len(it.args) == 1:
            enum = True
            it = it.args[0]
        if isinstance(it, ast.Call) and isinstance(it.func, ast.Name) and it.func.id == "range":
            a = [self.eval(x, st, exits) for x in it.args]
            if len(a) == 1:
                lo, hi, step = IntC(0), a[0], 1
            elif len(a) == 2:
                lo, hi, step = a[0], a[1], 1
            else:
                lo, hi = a[0], a[1]
                sv = z3.simplify(a[2].z)
                if not z3.is_int_value(sv):
                    raise Unsupported("symbolic range step")
                step = sv.as_long()
            st.env[cname] = Num(lo.z, True)
            st.env["len_" + cname] = Num(hi.z, True)      # ghost: the bound of the counter (so that `it <= len_it` reads the same for range and sequence loops)
            lo_z, hi_z = lo.z, hi.z
            self._loop_bounds = getattr(self, "_loop_bounds", {})
            self._loop_bounds[k] = (lo_z, hi_z, step)
            guard = (lambda s: s.env[cname].z < hi_z) if step > 0 else (lambda s: s.env[cname].z > hi_z)

            def pre(s):
                v = Num(s.env[cname].z, True)
                self.assign(node.target, Tup([v, v]) if enum else v, s, exits)

            def post(s):
                s.env[cname] = Num(s.env[cname].z + step, True)
            return self.run_loop(node, st, exits, k, lc, guard, pre, post, node.body, node.orelse, modified)
        if isinstance(it, ast.Call) and isinstance(it.func, ast.Name) and it.func.id == "zip" and len(it.args) == 2 and not enum:
            sa, sb = [self.eval(a, st, exits) for a in it.args]
            if isinstance(sa, Seq) and isinstance(sb, Seq):
                st.env[cname] = IntC(0)
                n_zip = z3.If(sa.n <= sb.n, sa.n, sb.n)
                st.env["len_" + cname] = Num(n_zip, True)
                guard_z = lambda s: s.env[cname].z < n_zip

                def pre_z(s):
                    idx = s.env[cname].z
                    self.assign(node.target, Tup([Num(z3.Select(sa.arr, idx), False), Num(z3.Select(sb.arr, idx), False)]), s, exits)

                def post_z(s):
                    s.env[cname] = Num(s.env[cname].z + 1, True)
                return self.run_loop(node, st, exits, k, lc, guard_z, pre_z, post_z, node.body, node.orelse, modified)
            raise Unsupported("zip of %r, %r" % (sa, sb))
        seq = self.eval(it, st, exits)
        if isinstance(seq, Obj):
            h = self.c.calls.get("iter:%s" % seq.cls)
            if h is not None:
                seq = h.handler(self, st, [seq], {}, node, exits)
        if isinstance(seq, Tup):
            if all(isinstance(x, Num) for x in seq.items):
                arr = z3.K(z3.IntSort(), z3.RealVal(0))
                for i, x in enumerate(seq.items):
                    arr = z3.Store(arr, i, x.real())
                seq = Seq(arr, z3.IntVal(len(seq.items)))
            else:
                # fixed small tuple of heterogeneous values: unroll
                outs = [st]
                self.loop_ord -= 1
                raise Unsupported("for over a heterogeneous tuple")
        if isinstance(seq, Mat):             # iterating a matrix yields its rows
            mat = seq
            st.env[cname] = IntC(0)
            st.env["len_" + cname] = Num(mat.r, True)
            guard_m = lambda s: s.env[cname].z < mat.r

            def pre_m(s):
                idx = s.env[cname].z
                row = Seq(z3.Select(mat.arr, idx), mat.c, False)
                self.assign(node.target, Tup([Num(idx, True), row]) if enum else row, s, exits)

            def post_m(s):
                s.env[cname] = Num(s.env[cname].z + 1, True)
            return self.run_loop(node, st, exits, k, lc, guard_m, pre_m, post_m, node.body, node.orelse, modified)
        if not isinstance(seq, Seq):
            raise Unsupported("for over %r" % (seq,))
        st.env[cname] = IntC(0)
        n_z, arr = seq.n, seq.arr
        st.env["len_" + cname] = Num(n_z, True)      # ghost: the length of the iterated sequence (for invariants / variants over an expression)
        guard = lambda s: s.env[cname].z < n_z

        def pre(s):
            idx = s.env[cname].z
            item = Num(z3.Select(arr, idx), False)
            self.assign(node.target, Tup([Num(idx, True), item]) if enum else item, s, exits)

        def post(s):
            s.env[cname] = Num(s.env[cname].z + 1, True)
        return self.run_loop(node, st, exits, k, lc, guard, pre, post, node.body, node.orelse, modified)

    # ---- try / except -----------------------------------------------------------------------
    def s_Try(self, node, st, exits):
        if node.finalbody:
            raise Unsupported("try/finally")
        hnames = []
        for h in node.handlers:
            if h.type is None:
                hnames.append(("Exception",))
            elif isinstance(h.type, ast.Name):
                hnames.append((h.type.id,))
            elif isinstance(h.type, ast.Tuple):
                hnames.append(tuple(e.id for e in h.type.elts))
            else:
                raise Unsupported("except clause")
        flat = set(x for t in hnames for x in t)
        self._try_stack = getattr(self, "_try_stack", [])
        self._try_stack.append(flat)
        saved = getattr(self, "pending_exc", [])
        self.pending_exc = []
        outs = self.exec_block(node.body, st, exits)
        pend = self.pending_exc
        self.pending_exc = saved
        self._try_stack.pop()
        if node.orelse:
            nxt = []
            for s in outs:
                nxt.extend(self.exec_block(node.orelse, s, exits))
            outs = nxt
        for cls, es, line in pend:
            for h, names in zip(node.handlers, hnames):
                if cls in names or "Exception" in names:
                    if h.name:              # except X as name: the caught exception instance (only its class is modelled)
                        es.env[h.name] = Const(("exception", cls))
                    outs.extend(self.exec_block(h.body, es, exits))
                    break
            else:
                raise Unsupported("pending exception not handled")
        return outs

    # ---- expressions ------------------------------------------------------------------------
    def eval(self, node, st, exits):
        m = getattr(self, "e_" + type(node).__name__, None)
        if m is None:
            raise Unsupported("expression %s at L%d" % (type(node).__name__, getattr(node, "lineno", 0)))
        return m(node, st, exits)

    def e_Constant(self, node, st, exits):
        v = node.value
        if isinstance(v, bool):
            return BoolV(z3.BoolVal(v))
        if isinstance(v, int):
            return IntC(v)
        if isinstance(v, float):
            from fractions import Fraction
            return Num(z3.RealVal(str(Fraction(v))), False)
        if v is None:
            return NONE
        return Const(v)

    def e_Name(self, node, st, exits):
        if node.id in st.env:
            return st.env[node.id]
        if node.id in ("True", "False"):
            return BoolV(z3.BoolVal(node.id == "True"))
        if node.id in BUILTIN_NAMES:
            return Const(("builtin", node.id))
        g = self.c.spec.get("global:" + node.id)
        if g is not None:
            return g
        raise Unsupported("unknown name %s at L%d" % (node.id, node.lineno))

    def e_Tuple(self, node, st, exits):
        return Tup([self.eval(e, st, exits) for e in node.elts])

    def e_List(self, node, st, exits):
        items = [self.eval(e, st, exits) for e in node.elts]
        if all(isinstance(x, Num) for x in items):
            arr = z3.K(z3.IntSort(), z3.RealVal(0))
            for i, x in enumerate(items):
                arr = z3.Store(arr, i, x.real())
            return Seq(arr, z3.IntVal(len(items)), True)
        return Tup(items)

    def e_UnaryOp(self, node, st, exits):
        v = self.eval(node.operand, st, exits)
        if isinstance(node.op, ast.Not):
            return BoolV(z3.Not(to_bool(v)))
        if isinstance(v, Obj):                 # operator methods of objects by contract
            h = self.c.calls.get("unary:%s:%s" % (type(node.op).__name__, v.cls))
            if h is None:
                raise Unsupported("unary %s on %s (no contract given)" % (type(node.op).__name__, v.cls))
            return h.handler(self, st, [v], {}, node, exits)
        if isinstance(node.op, ast.USub):
            if isinstance(v, (Seq, Tup)):
                self.raise_exc(st, "TypeError", z3.BoolVal(True), node.lineno, exits)
                raise _DeadPath()
            return Num(-v.z, v.is_int)
        if isinstance(node.op, ast.UAdd):
            return v
        raise Unsupported("unary op")

    def e_BoolOp(self, node, st, exits):
        # value-level and/or on booleans (operands pure); control-flow uses split()
        vals = [to_bool(self.eval(v, st, exits)) for v in node.values]
        return BoolV(z3.And(*vals) if isinstance(node.op, ast.And) else z3.Or(*vals))

    def e_IfExp(self, node, st, exits):
        c = to_bool(self.eval(node.test, st, exits))
        cs = z3.simplify(c)
        if z3.is_true(cs):                    # Python evaluates only the selected branch
            return self.eval(node.body, st, exits)
        if z3.is_false(cs):
            return self.eval(node.orelse, st, exits)

        def guarded(sub, g):
            # evaluate one branch under its guard: obligations raised inside are guarded; facts learnt inside are kept as implications
            n0 = len(st.pc)
            st.pc.append(g)
            try:
                v = self.eval(sub, st, exits)
            finally:
                learnt = st.pc[n0 + 1:]
                del st.pc[n0:]
                for f in learnt:
                    st.pc.append(z3.Implies(g, f))
            return v
        a = guarded(node.body, c)
        b = guarded(node.orelse, z3.Not(c))
        if isinstance(a, Num) and isinstance(b, Num):
            if a.is_int and b.is_int:
                return Num(z3.If(c, a.z, b.z), True)
            return Num(z3.If(c, a.real(), b.real()), False)
        raise Unsupported("conditional expression over non-numbers")

    def e_Compare(self, node, st, exits):
        left = self.eval(node.left, st, exits)
        res = []
        for op, rn in zip(node.ops, node.comparators):
            right = self.eval(rn, st, exits)
            res.append(self.compare(type(op).__name__, left, right, st, exits, node))
            left = right
        return BoolV(z3.And(*res) if len(res) > 1 else res[0])

    def compare(self, op, a, b, st, exits, node):
        if op in ("Is", "IsNot"):
            if isinstance(a, NoneV) or isinstance(b, NoneV):
                r = isinstance(a, NoneV) and isinstance(b, NoneV)
                return z3.BoolVal(r if op == "Is" else not r)
            if isinstance(a, Obj) and isinstance(b, Obj):       # identity of two tracked objects
                if a is b:
                    return z3.BoolVal(op == "Is")
                if a.cls in IMMUTABLE_CLASSES and b.cls in IMMUTABLE_CLASSES:
                    # two symbolic VALUE objects: callee contracts do not say whether an operand itself is handed back, so their identity is unknown
                    raise Unsupported("identity test between two value objects whose contracts do not fix their identity")
                return z3.BoolVal(op != "Is")
            raise Unsupported("is on non-None")
        if isinstance(a, Num) and isinstance(b, Num):
            if a.is_int and b.is_int:
                x, y = a.z, b.z
            else:
                x, y = a.real(), b.real()
            return {"Lt": x < y, "LtE": x <= y, "Gt": x > y, "GtE": x >= y, "Eq": x == y, "NotEq": x != y}[op]
        if isinstance(a, Tup) and isinstance(b, Tup) and op in ("Eq", "NotEq"):
            if len(a.items) != len(b.items):
                return z3.BoolVal(op == "NotEq")
            eq = z3.And(*[self.compare("Eq", x, y, st, exits, node) for x, y in zip(a.items, b.items)]) if a.items else z3.BoolVal(True)
            return eq if op == "Eq" else z3.Not(eq)
        if isinstance(a, NoneV) or isinstance(b, NoneV):
            if op in ("Eq", "NotEq"):
                r = isinstance(a, NoneV) and isinstance(b, NoneV)
                return z3.BoolVal(r if op == "Eq" else not r)
        if isinstance(a, Const) and isinstance(b, Const) and op in ("Eq", "NotEq") and a.py == "a-string" == b.py:
            raise Unsupported("string comparison")
        if op in ("In", "NotIn") and isinstance(b, Seq) and isinstance(a, Num):
            i = fresh_int("in")
            ex = z3.Exists([i], z3.And(i >= 0, i < b.n, z3.Select(b.arr, i) == a.real()))
            return ex if op == "In" else z3.Not(ex)
        if isinstance(a, Obj) or isinstance(b, Obj):         # rich comparison of objects by the contract of __eq__ / __ne__
            o = a if isinstance(a, Obj) else b
            h = self.c.calls.get("compare:%s:%s" % (op, o.cls))
            if h is not None:
                return to_bool(h.handler(self, st, [a, b], {}, node, exits))
        raise Unsupported("comparison %s of %r and %r at L%d" % (op, a, b, node.lineno))

    def e_BinOp(self, node, st, exits):
        a = self.eval(node.left, st, exits)
        b = self.eval(node.right, st, exits)
        return self.binop(type(node.op).__name__, a, b, st, exits, node)

    def binop(self, op, a, b, st, exits, node):
        line = getattr(node, "lineno", 0)
        if isinstance(a, Num) and isinstance(b, Num):
            both_int = a.is_int and b.is_int
            if op == "Add":
                return Num(a.z + b.z, True) if both_int else Num(a.real() + b.real(), False)
            if op == "Sub":
                return Num(a.z - b.z, True) if both_int else Num(a.real() - b.real(), False)
            if op == "Mult":
                return Num(a.z * b.z, True) if both_int else Num(a.real() * b.real(), False)
            if op == "Div":
                self.raise_exc(st, "ZeroDivisionError", b.real() == 0, line, exits)
                return Num(a.real() / b.real(), False)
            if op == "FloorDiv" and both_int:
                self.raise_exc(st, "ZeroDivisionError", b.z == 0, line, exits)
                bs = z3.simplify(b.z)
                if z3.is_int_value(bs) and bs.as_long() > 0:
                    return Num(a.z / b.z, True)       # z3 int division = floor for positive divisors
                # symbolic divisor: z3's (Euclidean) division is Python's floor division for a positive divisor, and a // b == (-a) // (-b)
                return Num(z3.If(b.z > 0, a.z / b.z, (-a.z) / (-b.z)), True)
            if op == "Pow" and both_int:
                e = z3.simplify(b.z)
                if z3.is_int_value(e) and 0 <= e.as_long() <= 8:
                    r = z3.IntVal(1)
                    for _ in range(e.as_long()):
                        r = r * a.z
                    return Num(r, True)
            raise Unsupported("numeric op %s" % op)
        if isinstance(a, Const) and isinstance(b, Const) and isinstance(a.py, str) and isinstance(b.py, str) and op in ("Add", "Mod"):
            return Const("a-string")
        if isinstance(a, Const) and isinstance(a.py, str) and op == "Mod":
            return Const("a-string")
        if isinstance(a, Mat) and isinstance(b, Num) and op in ("Div", "Mult"):
            # numpy object matrix (/ or *) scalar: entry-wise; division by zero raises
            if op == "Div":
                self.raise_exc(st, "ZeroDivisionError", b.real() == 0, line, exits)
            new = Mat(fresh("mscaled", MATSORT), a.r, a.c)
            i, j = fresh_int("i"), fresh_int("j")
            old_e = z3.Select(z3.Select(a.arr, i), j)
            val = old_e / b.real() if op == "Div" else old_e * b.real()
            st.assume(z3.ForAll([i, j], z3.Implies(z3.And(i >= 0, i < a.r, j >= 0, j < a.c), z3.Select(z3.Select(new.arr, i), j) == val),
                                patterns=[z3.Select(z3.Select(new.arr, i), j)]))
            return new
        if isinstance(a, Obj):
            h = self.c.calls.get("binop:%s:%s" % (op, a.cls))
            if h is not None:
                return h.handler(self, st, [a, b], {}, node, exits)
        if isinstance(b, Obj) and not isinstance(a, Obj):       # number (op) object: the reflected operator of the object, by contract
            h = self.c.calls.get("rbinop:%s:%s" % (op, b.cls))
            if h is not None:
                return h.handler(self, st, [b, a], {}, node, exits)
        if isinstance(a, Num) and isinstance(b, (Seq, Tup)) and op in ("Add", "Sub") or \
                isinstance(b, Num) and isinstance(a, (Seq, Tup)) and op in ("Add", "Sub"):
            self.raise_exc(st, "TypeError", z3.BoolVal(True), line, exits)
            raise _DeadPath()
        # sequences
        if op == "Add" and isinstance(a, Seq) and isinstance(b, Seq):
            r = fresh_seq("cat")
            r.is_list = a.is_list
            i = fresh_int("i")
            st.assume(r.n == a.n + b.n)
            st.assume(z3.ForAll([i], z3.Implies(z3.And(i >= 0, i < r.n),
                                                z3.Select(r.arr, i) == z3.If(i < a.n, z3.Select(a.arr, i), z3.Select(b.arr, i - a.n))),
                                patterns=[z3.Select(r.arr, i)]))
            return r
        if op == "Mult" and ((isinstance(a, Seq) and isinstance(b, Num)) or (isinstance(b, Seq) and isinstance(a, Num))):
            s, k = (a, b) if isinstance(a, Seq) else (b, a)
            if not k.is_int:
                # a number read back from a sequence (the value model keeps sequences of reals): Python needs an int here, so a non-integral
                # value is a TypeError (an obligation unless the contract allows it); the count is its integer value
                self.raise_exc(st, "TypeError", z3.Not(z3.IsInt(k.real())), line, exits)
                k = Num(z3.ToInt(k.real()), True)
            r = fresh_seq("rep")
            r.is_list = s.is_list
            r.origin = ("rep", s, k)
            i = fresh_int("i")
            reps = z3.If(k.z > 0, k.z, 0)
            st.assume(r.n == reps * s.n)
            sn = z3.simplify(s.n)
            if z3.is_int_value(sn) and sn.as_long() == 1:
                st.assume(z3.ForAll([i], z3.Implies(z3.And(i >= 0, i < r.n), z3.Select(r.arr, i) == z3.Select(s.arr, 0))))
            else:
                st.assume(z3.ForAll([i], z3.Implies(z3.And(i >= 0, i < r.n), z3.Select(r.arr, i) == z3.Select(s.arr, i % s.n))))
            return r
        raise Unsupported("binary op %s on %r, %r at L%d" % (op, a, b, line))

    def e_Subscript(self, node, st, exits):
        base = self.eval(node.value, st, exits)
        sl = node.slice
        if isinstance(sl, ast.Slice):
            return self.slice(base, sl, st, exits, node)
        if not isinstance(sl, ast.Tuple):
            idxv = self.eval(sl, st, exits)
            if isinstance(idxv, Obj) and idxv.cls == "SliceValue" and isinstance(base, Seq):
                # a slice object held in a variable / field: start / stop are ints or None, step is None (the only form modelled)
                n = base.n

                def clampv(v, default):
                    if isinstance(v, NoneV):
                        return default
                    x = z3.If(v.z < 0, v.z + n, v.z)
                    return z3.If(x < 0, 0, z3.If(x > n, n, x))
                lo, hi = clampv(idxv.fields["start"], z3.IntVal(0)), clampv(idxv.fields["stop"], n)
                r = fresh_seq("slice")
                i = fresh_int("i")
                st.assume(r.n == z3.If(hi > lo, hi - lo, 0))
                st.assume(z3.ForAll([i], z3.Implies(z3.And(i >= 0, i < r.n), z3.Select(r.arr, i) == z3.Select(base.arr, lo + i)), patterns=[z3.Select(r.arr, i)]))
                st.env["SLICE_LO"], st.env["SLICE_N"] = Num(lo, True), Num(r.n, True)
                return r
            if isinstance(base, Mat) and isinstance(idxv, Num) and idxv.is_int:
                self.raise_exc(st, "IndexError", z3.Not(z3.And(idxv.z >= -base.r, idxv.z < base.r)), node.lineno, exits)
                ii = z3.If(idxv.z < 0, idxv.z + base.r, idxv.z)
                return Seq(z3.Select(base.arr, ii), base.c, False)
        if isinstance(base, Mat):
            if not (isinstance(sl, ast.Tuple) and len(sl.elts) == 2):
                raise Unsupported("matrix read needs m[i, j]")
            i = self.eval(sl.elts[0], st, exits)
            j = self.eval(sl.elts[1], st, exits)
            self.raise_exc(st, "IndexError", z3.Not(z3.And(i.z >= -base.r, i.z < base.r, j.z >= -base.c, j.z < base.c)),
                           node.lineno, exits)
            ii = z3.simplify(z3.If(i.z < 0, i.z + base.r, i.z))
            jj = z3.simplify(z3.If(j.z < 0, j.z + base.c, j.z))
            return Num(z3.Select(z3.Select(base.arr, ii), jj), False)
        idx = self.eval(sl, st, exits)
        if isinstance(base, Obj):
            h = self.c.calls.get("getitem:%s" % base.cls)
            if h is None:
                raise Unsupported("indexing object of class %s" % base.cls)
            return h.handler(self, st, [base, idx], {}, node, exits)
        if isinstance(base, Tup):
            iv = z3.simplify(idx.z)
            if not z3.is_int_value(iv):
                raise Unsupported("symbolic index into a fixed tuple")
            k = iv.as_long()
            if not (-len(base.items) <= k < len(base.items)):
                self.raise_exc(st, "IndexError", z3.BoolVal(True), node.lineno, exits)
            return base.items[k]
        if isinstance(base, Seq):
            if not (isinstance(idx, Num) and idx.is_int):
                raise Unsupported("non-int index")
            self.raise_exc(st, "IndexError", z3.Not(z3.And(idx.z >= -base.n, idx.z < base.n)), node.lineno, exits)
            ii = z3.simplify(z3.If(idx.z < 0, idx.z + base.n, idx.z))
            return Num(z3.Select(base.arr, ii), False)
        raise Unsupported("subscript of %r" % (base,))

    def slice(self, base, sl, st, exits, node):
        if not isinstance(base, Seq):
            raise Unsupported("slice of %r" % (base,))
        step = 1
        if sl.step is not None:
            sv = self.eval(sl.step, st, exits)
            s_ = z3.simplify(sv.z)
            if not z3.is_int_value(s_):
                raise Unsupported("symbolic slice step")
            step = s_.as_long()
        n = base.n

        def clamp(v, default):
            if v is None:
                return default
            x = self.eval(v, st, exits).z
            x = z3.If(x < 0, x + n, x)
            return z3.If(x < 0, 0, z3.If(x > n, n, x))
        r = fresh_seq("slice")
        i = fresh_int("i")
        if step == 1:
            lo = clamp(sl.lower, z3.IntVal(0))
            hi = clamp(sl.upper, n)
            st.assume(r.n == z3.If(hi > lo, hi - lo, 0))
            st.assume(z3.ForAll([i], z3.Implies(z3.And(i >= 0, i < r.n), z3.Select(r.arr, i) == z3.Select(base.arr, lo + i))))
            return r
        if step == -1 and sl.lower is None and sl.upper is None:
            st.assume(r.n == n)
            st.assume(z3.ForAll([i], z3.Implies(z3.And(i >= 0, i < n), z3.Select(r.arr, i) == z3.Select(base.arr, n - 1 - i))))
            return r
        raise Unsupported("slice step %d" % step)

    def e_Attribute(self, node, st, exits):
        obj = self.eval(node.value, st, exits)
        attr = self.mangle(node.attr)
        if isinstance(obj, Obj):
            if attr in obj.fields:
                return obj.fields[attr]
            h = self.c.calls.get("getattr:%s.%s" % (obj.cls, attr))
            if h is not None:
                return h.handler(self, st, [obj], {}, node, exits)
            raise Unsupported("attribute %s of %s" % (attr, obj.cls))
        if isinstance(obj, Const) and isinstance(obj.py, tuple) and obj.py[0] == "module":
            return Const(("modattr", obj.py[1], attr))
        if isinstance(obj, Const) and isinstance(obj.py, tuple) and obj.py[0] == "modattr":      # module.Class.function as a value
            return Const(("modattr", "%s.%s" % (obj.py[1], obj.py[2]), attr))
        raise Unsupported("attribute %s of %r" % (attr, obj))

    def comprehension(self, node, st, exits):
        """[elt for x in seq] / (elt for i in range(...)) -> Seq with a quantified definition."""
        if len(node.generators) != 1 or node.generators[0].ifs:
            raise Unsupported("comprehension shape")
        gen = node.generators[0]
        i = fresh_int("ci")
        sub = State(dict(st.env), list(st.pc))
        if isinstance(gen.iter, ast.Call) and isinstance(gen.iter.func, ast.Name) and gen.iter.func.id == "range":
            a = [self.eval(x, st, exits) for x in gen.iter.args]
            lo, hi = (IntC(0), a[0]) if len(a) == 1 else (a[0], a[1])
            if len(a) == 3:
                raise Unsupported("range step in comprehension")
            n = z3.If(hi.z > lo.z, hi.z - lo.z, 0)
            self.assign(gen.target, Num(lo.z + i, True), sub, exits)
        elif isinstance(gen.iter, ast.Call) and isinstance(gen.iter.func, ast.Name) and gen.iter.func.id == "zip" and not gen.iter.keywords \
                and isinstance(gen.target, ast.Tuple) and len(gen.target.elts) == len(gen.iter.args) >= 1:
            # [elt for a, b in zip(A, B)]: element i pairs A[i] with B[i], for i below the SHORTEST length
            seqs = [self.eval(x, st, exits) for x in gen.iter.args]
            if not all(isinstance(q, Seq) for q in seqs):
                raise Unsupported("zip of %r in a comprehension" % (seqs,))
            n = seqs[0].n
            for q in seqs[1:]:
                n = z3.If(q.n < n, q.n, n)
            for tgt, q in zip(gen.target.elts, seqs):
                self.assign(tgt, Num(z3.Select(q.arr, i), False), sub, exits)
        else:
            seq = self.eval(gen.iter, st, exits)
            if isinstance(seq, Obj):
                h = self.c.calls.get("iter:%s" % seq.cls)
                if h is not None:
                    seq = h.handler(self, st, [seq], {}, node, exits)
            if isinstance(seq, Tup) and all(isinstance(x, Num) for x in seq.items):      # a literal tuple of numbers: the sequence of its items
                arr = z3.K(z3.IntSort(), z3.RealVal(0))
                for k_, x in enumerate(seq.items):
                    arr = z3.Store(arr, k_, x.real())
                seq = Seq(arr, z3.IntVal(len(seq.items)), False)
            if isinstance(seq, Mat):              # rows of a matrix
                n = seq.r
                self.assign(gen.target, Seq(z3.Select(seq.arr, i), seq.c, False), sub, exits)
            elif not isinstance(seq, Seq):
                raise Unsupported("comprehension over %r" % (seq,))
            else:
                n = seq.n
                self.assign(gen.target, Num(z3.Select(seq.arr, i), False), sub, exits)
        sub.assume(z3.And(i >= 0, i < n))
        nvc = len(self.vcs)
        val = self.eval(node.elt, sub, exits)
        # safety obligations raised inside the element expression hold for every index
        for k in range(nvc, len(self.vcs)):
            name, hyps, goal, line = self.vcs[k]
            self.vcs[k] = (name + ":in-comprehension", hyps, goal, line)
        r = fresh_seq("comp")
        st.assume(r.n == n)
        st.assume(z3.ForAll([i], z3.Implies(z3.And(i >= 0, i < n), z3.Select(r.arr, i) == to_real(val))))
        return r

    def e_ListComp(self, node, st, exits):
        r = self.comprehension(node, st, exits)
        r.is_list = True
        return r

    def e_GeneratorExp(self, node, st, exits):
        return self.comprehension(node, st, exits)

    def e_Call(self, node, st, exits):
        f = node.func
        # method calls
        if isinstance(f, ast.Attribute):
            recv_node = f.value
            # super(...).__new__ etc. are handled by contract call specs keyed by source text
            key = "call:" + ast.unparse(f)
            if key in self.c.calls:
                args = [self.eval(a, st, exits) for a in node.args]
                kw = {k.arg: self.eval(k.value, st, exits) for k in node.keywords}
                return self.c.calls[key].handler(self, st, args, kw, node, exits)
            recv = self.eval(recv_node, st, exits)
            args = [self.eval(a, st, exits) for a in node.args]
            if isinstance(recv, Obj):
                key = "method:%s.%s" % (recv.cls, self.mangle(f.attr))
                if key in self.c.calls:
                    kw = {k.arg: self.eval(k.value, st, exits) for k in node.keywords}
                    return self.c.calls[key].handler(self, st, [recv] + args, kw, node, exits)
                raise Unsupported("call of %s (no contract given)" % key)
            if isinstance(recv, Seq):
                return self.seq_method(recv, f.attr, args, st, exits, node, recv_node)
            if isinstance(recv, Const):
                key = "static:%s" % ast.unparse(f)
                if key in self.c.calls:
                    return self.c.calls[key].handler(self, st, args, {}, node, exits)
            raise Unsupported("method call %s on %r" % (ast.unparse(f), recv))
        if isinstance(f, ast.Name):
            name = f.id
            key = "func:" + name
            bound = st.env.get(name)
            if isinstance(bound, Const) and isinstance(bound.py, tuple) and bound.py[0] == "modattr":
                # a local name bound to module.Class.function: the call goes to that function's contract whatever the local is called
                key2 = "call:%s.%s" % (bound.py[1], bound.py[2])
                if key2 in self.c.calls:
                    args = [self.eval(a, st, exits) for a in node.args]
                    kw = {k.arg: self.eval(k.value, st, exits) for k in node.keywords}
                    return self.c.calls[key2].handler(self, st, args, kw, node, exits)
            if key in self.c.calls:
                args = [self.eval(a, st, exits) for a in node.args]
                kw = {k.arg: self.eval(k.value, st, exits) for k in node.keywords}
                return self.c.calls[key].handler(self, st, args, kw, node, exits)
            if name in st.env and isinstance(st.env[name], Const) and (st.env[name].py == "numeric-type" or st.env[name].py in (("builtin", "Fraction"), ("builtin", "float"))) \
                    and len(node.args) == 1 and not node.keywords:
                # cls(x): numeric embedding of an integer / number (int, float, Fraction) — value preserved
                args = [self.eval(a, st, exits) for a in node.args]
                return Num(args[0].real(), False)
            if name in st.env and isinstance(st.env[name], Const) and st.env[name].py == "conversion-type":
                # cls(x) for an ARBITRARY target type: an uninterpreted conversion (may change the value; may be refused by the caller's tolerance test)
                args = [self.eval(a, st, exits) for a in node.args]
                return Num(CONV(args[0].real()), False)
            return self.builtin(name, node, st, exits)
        raise Unsupported("call of %s" % ast.unparse(f))

    def seq_method(self, recv, name, args, st, exits, node, recv_node):
        if name == "count":
            h = self.c.calls.get("seq.count")
            if h is None:
                raise Unsupported("tuple.count without a contract")
            return h.handler(self, st, [recv] + args, {}, node, exits)
        if name == "index":
            # first position of the value; ValueError if absent
            x = to_real(args[0])
            i = fresh_int("i")
            absent = z3.ForAll([i], z3.Implies(z3.And(i >= 0, i < recv.n), z3.Select(recv.arr, i) != x))
            self.raise_exc(st, "ValueError", absent, node.lineno, exits)
            j = fresh_int("idx")
            st.assume(z3.And(j >= 0, j < recv.n, z3.Select(recv.arr, j) == x))
            st.assume(z3.ForAll([i], z3.Implies(z3.And(i >= 0, i < j), z3.Select(recv.arr, i) != x)))
            return Num(j, True)
        if name == "append" and recv.is_list:
            r = Seq(z3.Store(recv.arr, recv.n, to_real(args[0])), recv.n + 1, True)
            for k, v in list(st.env.items()):
                if v is recv:
                    st.env[k] = r
            return NONE
        if name == "remove" and recv.is_list:
            x = to_real(args[0])
            j = fresh_int("rm")
            found = z3.And(j >= 0, j < recv.n, z3.Select(recv.arr, j) == x)
            i = fresh_int("i")
            absent = z3.ForAll([i], z3.Implies(z3.And(i >= 0, i < recv.n), z3.Select(recv.arr, i) != x))
            self.raise_exc(st, "ValueError", absent, node.lineno, exits)
            first = z3.ForAll([i], z3.Implies(z3.And(i >= 0, i < j), z3.Select(recv.arr, i) != x))
            st.assume(z3.And(found, first))
            r = fresh_seq("rmv")
            r.is_list = True
            st.assume(r.n == recv.n - 1)
            st.assume(z3.ForAll([i], z3.Implies(z3.And(i >= 0, i < j), z3.Select(r.arr, i) == z3.Select(recv.arr, i))))
            st.assume(z3.ForAll([i], z3.Implies(z3.And(i >= j, i < r.n), z3.Select(r.arr, i) == z3.Select(recv.arr, i + 1))))
            for k, v in list(st.env.items()):
                if v is recv:
                    st.env[k] = r
            self.notes.append(("list.remove", j))
            return NONE
        raise Unsupported("sequence method %s" % name)

    def e_JoinedStr(self, node, st, exits):
        return Const("a-string")     # message text: no effect on control flow or numbers

    def builtin(self, name, node, st, exits):
        if name == "isinstance" and "isinstance" not in self.c.calls:
            return BoolV(z3.BoolVal(py_isinstance(self.eval(node.args[0], st, exits), node.args[1])))
        args = [self.eval(a, st, exits) for a in node.args]
        line = node.lineno
        if name == "len":
            v = args[0]
            if isinstance(v, Seq):
                return Num(v.n, True)
            if isinstance(v, Tup):
                return IntC(len(v.items))
            if isinstance(v, Obj):
                h = self.c.calls.get("len:%s" % v.cls)
                if h:
                    return h.handler(self, st, [v], {}, node, exits)
            raise Unsupported("len of %r" % (v,))
        if name == "float":
            # numeric-type probe: no effect under the numeric-input precondition (A2); value is the same real
            v = args[0]
            if isinstance(v, Num):
                return Num(v.real(), False)
            if isinstance(v, (Seq, Tup, NoneV)):            # float(list) / float(tuple) / float(None): TypeError
                self.raise_exc(st, "TypeError", z3.BoolVal(True), node.lineno, exits)
                raise _DeadPath()
            raise Unsupported("float() of %r" % (v,))
        if name == "int":
            v = args[0]
            if isinstance(v, Num) and v.is_int:
                return v
            raise Unsupported("int() of a non-int")
        if name == "abs":
            v = args[0]
            return Num(z3.If(v.z >= 0, v.z, -v.z), v.is_int)
        if name in ("tuple", "list"):
            if not args:
                return Seq(z3.K(z3.IntSort(), z3.RealVal(0)), z3.IntVal(0), name == "list")
            v = args[0]
            if isinstance(v, Seq):
                return Seq(v.arr, v.n, name == "list")
            if isinstance(v, Tup) and all(isinstance(x, Num) for x in v.items):
                arr = z3.K(z3.IntSort(), z3.RealVal(0))
                for i, x in enumerate(v.items):
                    arr = z3.Store(arr, i, x.real())
                return Seq(arr, z3.IntVal(len(v.items)), name == "list")
            if isinstance(v, Obj):
                h = self.c.calls.get("iter:%s" % v.cls)
                if h:
                    s = h.handler(self, st, [v], {}, node, exits)
                    return Seq(s.arr, s.n, name == "list")
            raise Unsupported("%s() of %r" % (name, v))
        if name == "isinstance":
            h = self.c.calls.get("isinstance")
            if h:
                return h.handler(self, st, args, {}, node, exits)
            return BoolV(z3.BoolVal(py_isinstance(args[0], node.args[1])))
        if name == "sorted":
            h = self.c.calls.get("sorted")
            if h:
                return h.handler(self, st, args, {}, node, exits)
            raise Unsupported("sorted without a contract")
        if name in ("min", "max") and len(args) == 2 and all(isinstance(a, Num) for a in args):
            a, b = args
            both = a.is_int and b.is_int
            x, y = (a.z, b.z) if both else (a.real(), b.real())
            c = x <= y if name == "min" else x >= y
            return Num(z3.If(c, x, y), both)
        if name in ("str", "repr"):
            return Const("a-string")
        if name == "type":
            return Const("numeric-type")
        if name == "range":
            if len(args) == 1:
                lo, hi, step = z3.IntVal(0), args[0].z, 1
            elif len(args) == 2:
                lo, hi, step = args[0].z, args[1].z, 1
            else:
                sv = z3.simplify(args[2].z)
                if not z3.is_int_value(sv) or sv.as_long() <= 0:
                    raise Unsupported("range step")
                lo, hi, step = args[0].z, args[1].z, sv.as_long()
            r = fresh_seq("range")
            i = fresh_int("i")
            span = z3.If(hi > lo, hi - lo, 0)
            st.assume(r.n == (span + (step - 1)) / step)
            st.assume(z3.ForAll([i], z3.Implies(z3.And(i >= 0, i < r.n), z3.Select(r.arr, i) == z3.ToReal(lo + step * i))))
            return r
        raise Unsupported("builtin %s at L%d" % (name, line))

    # ---- contract expressions -----------------------------------------------------------------
    def spec_env(self, st, result=None):
        env = dict(st.env)
        return env

    def spec_bool(self, expr, st, result=None):
        if callable(expr):
            return expr(self, st)
        v = SpecEval(self, st).eval(ast.parse(expr, mode="eval").body)
        return to_bool(v)

    def spec_num(self, expr, st):
        if callable(expr):
            return expr(self, st)
        v = SpecEval(self, st).eval(ast.parse(expr, mode="eval").body)
        return v.z


def _inst(f, terms, out, depth=0):
    """Instances of the positively occurring universal quantifiers of f at `terms`."""
    if z3.is_quantifier(f):
        if f.is_forall() and f.num_vars() == 1 and f.var_sort(0) == z3.IntSort():
            for t in terms:
                g = z3.substitute_vars(f.body(), t)
                out.append(g)
                if depth < 2:
                    _inst(g, terms, out, depth + 1)
        return
    if z3.is_and(f):
        for ch in f.children():
            _inst(ch, terms, out, depth)
    elif z3.is_implies(f):
        a, b = f.children()
        sub = []
        _inst(b, terms, sub, depth)
        out.extend(z3.Implies(a, x) for x in sub)


def _uf_int_terms(f, acc):
    if z3.is_app(f):
        if f.decl().kind() == z3.Z3_OP_UNINTERPRETED and f.num_args() > 0 and f.sort() == z3.IntSort():
            acc[f.get_id()] = f
        for ch in f.children():
            _uf_int_terms(ch, acc)


def instantiate_hyps(hyps, terms):
    out = []
    for h in hyps:
        _inst(h, terms, out)
    acc = {}
    for g in out:
        _uf_int_terms(g, acc)
    more = [t for t in acc.values() if not any(t.eq(x) for x in terms)][:12]
    if more:
        out2 = []
        for h in hyps + out:
            _inst(h, more, out2)
        out += out2
    return out


_HQ = {}


def has_quant(f):
    k = f.get_id()
    r = _HQ.get(k)
    if r is None:
        if z3.is_quantifier(f):
            r = True
        elif z3.is_app(f):
            r = any(has_quant(c) for c in f.children())
        else:
            r = False
        _HQ[k] = r
    return r


class SkipClause(Exception):
    pass


CONV = z3.Function("CONVERT", z3.RealSort(), z3.RealSort())
ROWSORT = z3.ArraySort(z3.IntSort(), z3.RealSort())
MATSORT = z3.ArraySort(z3.IntSort(), ROWSORT)       # nested arrays: standard SMT-LIB, accepted by cvc5 as well


def zero_mat(r, c):
    return Mat(z3.K(z3.IntSort(), z3.K(z3.IntSort(), z3.RealVal(0))), r, c)


BUILTIN_NAMES = {"len", "range", "float", "int", "abs", "tuple", "list", "isinstance", "sorted", "min", "max", "sum",
                 "enumerate", "zip", "ValueError", "TypeError", "IndexError", "AssertionError", "str", "type"}


def _load(t):
    t2 = ast.parse(ast.unparse(t), mode="eval").body
    return ast.copy_location(t2, t)


# --------------------------------------------------------------------------------------
# evaluation of contract expressions (pure; no exception edges; quantifiers allowed)
# --------------------------------------------------------------------------------------
class SpecEval:
    def __init__(self, eng, st):
        self.eng, self.st = eng, st
        self.bound = {}

    def eval(self, node):
        m = getattr(self, "v_" + type(node).__name__, None)
        if m is None:
            raise Unsupported("contract expression %s" % type(node).__name__)
        return m(node)

    def v_Constant(self, node):
        return self.eng.e_Constant(node, self.st, None)

    def v_Name(self, node):
        if node.id in self.bound:
            return self.bound[node.id]
        if node.id in self.st.env:
            return self.st.env[node.id]
        sp = self.eng.c.spec.get(node.id)
        if sp is not None:
            return sp
        raise Unsupported("contract refers to unknown name %s" % node.id)

    def v_UnaryOp(self, node):
        v = self.eval(node.operand)
        if isinstance(node.op, ast.Not):
            return BoolV(z3.Not(to_bool(v)))
        if isinstance(node.op, ast.USub):
            return Num(-v.z, v.is_int)
        raise Unsupported("spec unary")

    def v_BoolOp(self, node):
        vals = [to_bool(self.eval(v)) for v in node.values]
        return BoolV(z3.And(*vals) if isinstance(node.op, ast.And) else z3.Or(*vals))

    def v_Compare(self, node):
        left = self.eval(node.left)
        res = []
        for op, rn in zip(node.ops, node.comparators):
            right = self.eval(rn)
            res.append(self.eng.compare(type(op).__name__, left, right, self.st, None, node))
            left = right
        return BoolV(z3.And(*res) if len(res) > 1 else res[0])

    def v_BinOp(self, node):
        a, b = self.eval(node.left), self.eval(node.right)
        op = type(node.op).__name__
        if isinstance(a, Num) and isinstance(b, Num):
            both = a.is_int and b.is_int
            if op == "Add":
                return Num(a.z + b.z, True) if both else Num(a.real() + b.real(), False)
            if op == "Sub":
                return Num(a.z - b.z, True) if both else Num(a.real() - b.real(), False)
            if op == "Mult":
                return Num(a.z * b.z, True) if both else Num(a.real() * b.real(), False)
            if op == "Div":
                return Num(a.real() / b.real(), False)
            if op == "FloorDiv" and both:
                return Num(a.z / b.z, True)
            if op == "Mod" and both:
                return Num(a.z % b.z, True)
        raise Unsupported("spec binop %s" % op)

    def v_IfExp(self, node):
        c = to_bool(self.eval(node.test))
        a, b = self.eval(node.body), self.eval(node.orelse)
        if isinstance(a, Num) and isinstance(b, Num):
            if a.is_int and b.is_int:
                return Num(z3.If(c, a.z, b.z), True)
            return Num(z3.If(c, a.real(), b.real()), False)
        if isinstance(a, BoolV) and isinstance(b, BoolV):
            return BoolV(z3.If(c, a.z, b.z))
        raise Unsupported("spec ifexp")

    def v_Subscript(self, node):
        base = self.eval(node.value)
        if isinstance(node.slice, ast.Tuple) and isinstance(base, Mat):
            i, j = self.eval(node.slice.elts[0]), self.eval(node.slice.elts[1])
            return Num(z3.Select(z3.Select(base.arr, i.z), j.z), False)
        idx = self.eval(node.slice)
        if isinstance(base, Seq):
            return Num(z3.Select(base.arr, idx.z), False)
        if isinstance(base, Tup):
            k = z3.simplify(idx.z).as_long()
            return base.items[k]
        raise Unsupported("spec subscript of %r" % (base,))

    ALIAS = {"ImmutableKnotVector": {"U": "_seq", "p": "_ImmutableKnotVector__degree", "n": "_ImmutableKnotVector__npts"},
             "KnotVector": {"internal": "_KnotVector__internal"}}

    def v_Attribute(self, node):
        obj = self.eval(node.value)
        if isinstance(obj, Obj):
            al = self.ALIAS.get(obj.cls, {}).get(node.attr)
            if al is not None and al in obj.fields:
                return obj.fields[al]
            a = self.eng.mangle(node.attr)
            if a in obj.fields:
                return obj.fields[a]
            if node.attr in obj.fields:
                return obj.fields[node.attr]
        raise Unsupported("spec attribute %s" % node.attr)

    def v_Call(self, node):
        f = node.func
        if isinstance(f, ast.Name):
            name = f.id
            if name == "len":
                v = self.eval(node.args[0])
                if isinstance(v, Seq):
                    return Num(v.n, True)
                if isinstance(v, Tup):
                    return IntC(len(v.items))
            if name in ("all", "any") and isinstance(node.args[0], ast.GeneratorExp):
                g = node.args[0]
                gen = g.generators[0]
                if not (isinstance(gen.iter, ast.Call) and gen.iter.func.id == "range"):
                    raise Unsupported("quantifier must range over range(lo, hi)")
                a = [self.eval(x) for x in gen.iter.args]
                lo, hi = (IntC(0), a[0]) if len(a) == 1 else (a[0], a[1])
                i = fresh_int(gen.target.id)
                saved = self.bound.get(gen.target.id)
                self.bound[gen.target.id] = Num(i, True)
                body = to_bool(self.eval(g.elt))
                for cond in gen.ifs:
                    c = to_bool(self.eval(cond))
                    body = z3.Implies(c, body) if name == "all" else z3.And(c, body)
                if saved is None:
                    del self.bound[gen.target.id]
                else:
                    self.bound[gen.target.id] = saved
                rng = z3.And(i >= lo.z, i < hi.z)
                if name == "all":
                    return BoolV(z3.ForAll([i], z3.Implies(rng, body)))
                return BoolV(z3.Exists([i], z3.And(rng, body)))
            if name in ("max", "min") and len(node.args) == 2:
                a, b = self.eval(node.args[0]), self.eval(node.args[1])
                c = a.z >= b.z if name == "max" else a.z <= b.z
                return Num(z3.If(c, a.z, b.z), a.is_int and b.is_int)
            if name == "implies":
                a, b = [to_bool(self.eval(x)) for x in node.args]
                return BoolV(z3.Implies(a, b))
            if name == "iff":
                a, b = [to_bool(self.eval(x)) for x in node.args]
                return BoolV(a == b)
            if name == "old":
                sub = SpecEval(self.eng, self.eng.entry)
                sub.bound = self.bound
                return sub.eval(node.args[0])
            if name == "same":      # Python identity of two object values
                a, b = self.eval(node.args[0]), self.eval(node.args[1])
                return BoolV(z3.BoolVal(a is b))
            if name == "is_none":
                return BoolV(z3.BoolVal(isinstance(self.eval(node.args[0]), NoneV)))
            if name == "real":
                v = self.eval(node.args[0])
                return Num(v.real(), False)
            sp = self.eng.c.spec.get(name)
            if callable(sp):
                return sp(self, *[self.eval(a) for a in node.args])
        raise Unsupported("spec call %s" % ast.unparse(f))


# --------------------------------------------------------------------------------------
# discharge
# --------------------------------------------------------------------------------------
RLIMIT_PER_MS = 6000      # z3 resource units per millisecond of nominal budget (about 2x what this machine spends per ms on these queries)


def _solve(hyps, goal, timeout_ms, tactic=None, deterministic=False):
    s = z3.Solver() if tactic is None else z3.Then(*tactic).solver() if isinstance(tactic, (list, tuple)) else z3.Tactic(tactic).solver()
    if deterministic:
        # the budget of a proof obligation is z3's deterministic resource counter, not wall time: the verdict of a query is then the same on a
        # slow or busy machine; wall time only as a 12x backstop
        s.set("rlimit", int(timeout_ms * RLIMIT_PER_MS))
        s.set("timeout", int(timeout_ms * 12))
    else:
        s.set("timeout", timeout_ms)
    for h in hyps:
        s.add(h)
    s.add(z3.Not(goal))
    t0 = time.time()
    r = s.check()
    return r, time.time() - t0, s


def _cvc5(hyps, goal, timeout_ms):
    """Second opinion on z3 'unknown': cvc5 via SMT-LIB2 text."""
    import subprocess, tempfile, os
    s = z3.Solver()
    for h in hyps:
        s.add(h)
    s.add(z3.Not(goal))
    smt = "(set-logic ALL)\n" + s.to_smt2().replace("(set-info :status unknown)", "")
    with tempfile.NamedTemporaryFile("w", suffix=".smt2", delete=False) as f:
        f.write(smt)
        path = f.name
    try:
        out = subprocess.run(["/usr/bin/cvc5", "--tlimit=%d" % timeout_ms, "--enum-inst", path],
                             capture_output=True, text=True, timeout=timeout_ms / 1000 + 5)
        ans = out.stdout.strip().split("\n")[0] if out.stdout else ""
    except Exception as e:
        ans = "error %s" % e
    finally:
        os.unlink(path)
    return ans


def discharge(name, hyps, goal, timeout_ms=10000, one_round=False):
    """-> (status, backend, seconds, detail).  one_round: a single z3 attempt (used once the proof of the function is already lost, to bound the cost)."""
    g = z3.simplify(goal)
    if z3.is_true(g):
        return PROVED, "z3-simplify", 0.0, "goal simplifies to true"
    r, dt, s = _solve(hyps, goal, timeout_ms, deterministic=True)
    if r == z3.unsat:
        return PROVED, "z3", dt, "unsat"
    if r == z3.sat:
        return FAILED, "z3", dt, "sat: " + _model_text(s)
    if one_round:
        return FAILED, "z3", dt, "not discharged: z3 %s (single attempt: the proof of this function is already lost)" % r
    # unknown: other solver, then larger budget
    ans = _cvc5(hyps, goal, timeout_ms * 3)
    if ans == "unsat":
        return PROVED, "cvc5", dt, "z3 unknown; cvc5 unsat"
    r2, dt2, s2 = _solve(hyps, goal, timeout_ms * 6, deterministic=True)
    if r2 == z3.unsat:
        return PROVED, "z3", dt + dt2, "unsat (enlarged budget)"
    if r2 == z3.sat:
        return FAILED, "z3", dt + dt2, "sat: " + _model_text(s2)
    return FAILED, "z3+cvc5", dt + dt2, "not discharged: z3 %s (%s), cvc5 %s" % (r2, s2.reason_unknown(), ans)


def _model_text(s):
    try:
        m = s.model()
        return ", ".join("%s=%s" % (d.name(), m[d]) for d in m.decls() if "!" not in d.name())[:600]
    except Exception:
        return ""
