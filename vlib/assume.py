"""Unchecked assumptions, quoted in every evidence file that relies on them."""
A1 = "A1 machine arithmetic treated as mathematical: float / numpy.float64 values are idealised as reals; 'to rounding' clauses are not decided"
A2 = ("A2 assumed contracts on dependencies: CPython built-ins (sorted, list.remove, tuple.count/index, abs, min, max, sum, isinstance, len, range), "
      "fractions.Fraction is exact field arithmetic, copy/deepcopy of a number returns an equal number; numpy object-array operations are executed, not assumed, in engine S")
A3 = ("A3 SEP: distinct knot values are at least 1e-6 apart (the library merges closer knots; known finding D3); where mult() is involved, "
      "nodes are either equal to a knot or at least 2e-9 away from every knot")
A4 = "A4 Linalg.invert/solve/lstsq, invert_integer_matrix, Math.gcd/lcm: run-time monitored on every call during S runs (inverse @ A == I exactly), no static proof"
A5 = ("A5 heavy.find_roots (float sampling + bisection behind the weights setter) is replaced on symbolic weights by its contract "
      "'returns the zeros of the weight function', i.e. () for the positive weights of the preconditions; not verified")
A6 = "A6 sympy polys.fields normal form, z3 5.1 and cvc5 1.4 are trusted; every reported violation is replayed natively on the real code with Fractions"
A7 = "A7 engine S is bounded in shape (degree, number of distinct interior knots, number of nodes); the bound of this run is in coverage.bounds"
A8 = ("A8 the weight function sum_i w_i N_i(u) of a rational curve has no zero (precondition stated by the property); a division by exactly that "
      "expression (times a factor decided non-zero) is assumed safe, every other division is checked")
A10 = ("A10 assumed contracts inside the engine-V proof of the constructor: tuple.count on a SORTED tuple describes one contiguous block (sortedness is an "
       "obligation at the call site); ImmutableKnotVector.__get_unique returns the strictly increasing distinct values under A3 (checked per shape by engine S); "
       "callers use the constructor by its proved contract (heavy.ImmutableKnotVector.__new__); in the proofs of __or__ / __and__ (C17): `.knots` is the strictly "
       "increasing list of the distinct values of the vector, mult(x) of a knot x of the vector lies in [1, degree + 1], set(a) & set(b) sorted is the increasing "
       "list of the common values (all three checked per shape by engine S); list entries are modelled as reals, so the TypeError of `[knot] * non-int` is not excluded at that level. "
       "Call-site contracts of kv-level callees that ARE under an engine-V contract: `.degree`, `.npts`, `.limits`, `__valid_single`, `__span_single`, `span(node)`, `valid(...)`, "
       "`Math.factorial`, `KnotVector.shift / scale / insert / remove / normalize`, `internal = instance`, `internal + nodes`, `internal - nodes`, `GeneratorKnotVector.integer / weight` and the "
       "in-place operators `+= -= |= &=` as used by the non-in-place ones are discharged against the callee's contract (contracts/callsites.py + pyvc/conform.py, run in every check "
       "that uses them, together with the callee's own proof; an arbitrary ImmutableKnotVector value is taken under its class invariant WF, which the constructor contract proves); still ASSUMED "
       "(callee contract proved, correspondence with the handler by review only): `mult` as a contiguous block, `internal | other` / `& other` as seen by the KnotVector facade, "
       "`internal = sequence`, `*=`, `/=` (conformance not decided within budget)")
A11 = ("A11 shape-level contracts of curves.py (engine V, C15): a knot vector is seen through (npts, degree, number of distinct knots) only; assumed callee "
       "contracts: heavy.Operations.knot_insert / degree_increase return matrices of the stated shape for a legal request (engine S checks the shapes per shape "
       "in C04 / C06), KnotVector + / - nodes returns a new vector of the stated length with an inferred degree, fit_curve fills a FRESH curve with npts points and, for a weighted "
       "source, npts weights (assumed; its values are the subject of C11), heavy.find_roots raises ValueError for a weight list of the wrong length (engine B checks this clause on the real function); "
       "the final weights setter of update / apply is assumed not to find a zero in the refitted / transformed weight function (no witness against it was found "
       "by a native search over 3000 random rational curves); the call-site contracts of update / apply / the three setters / knot_remove / degree_* / *_clean / "
       "fit_points / copy / -curve / curve + scalar / norm are NOT assumptions any more: every check that uses one discharges (pyvc/conform.py, obligations "
       "`…:callsite-contract[…]:pre|exc-covered|exc-when|exc-state|post|kind|nonvacuous`) that the handler raises the callee's preconditions, lets every exception of the callee's proved contract "
       "happen, and assumes about the post-state only what that contract's ensures imply, and it verifies the callee contracts themselves (transitive closure of the calls tables)")
A12 = ("A12 engine V treats distinct object parameters as distinct objects (no aliasing between `self` and `other`), and does not decide the identity "
       "of two symbolic VALUE objects (immutable payloads): an `is` test between them puts the function outside V (bounded checks decide)")
A13 = ("A13 call-site contracts used inside the engine-V proofs of Curve.eval and FunctionEvaluator.eval: the private `__eval` returns one value per node "
       "(resp. the npts x len(nodes) table) in order, or raises ValueError for a node outside the interval; their values are what engine S checks per shape")
S_COMMON = [A1, A2, A3, A5, A6, A7, A8]
TRUSTED = ["CPython 3.12", "numpy 2.5 object-dtype loops", "fractions.Fraction", "sympy 1.14 polys.fields", "z3-solver 5.1.0", "cvc5 1.4.0",
           "vlib/spec.py (Cox-de Boor spec, written from the definition)"]
