"""Imports the library from /repo/src (current working tree) and provides the few run-time
stubs the symbolic runs need.  No repository file is edited."""
from __future__ import annotations

import os
import sys

REPO = os.environ.get("VERIF_REPO", "/repo")
SRC = os.path.join(REPO, "src")
if SRC not in sys.path:
    sys.path.insert(0, SRC)
PKG = os.path.join(SRC, "compmec", "nurbs")

import warnings
warnings.filterwarnings("ignore")

from compmec.nurbs import heavy, knotspace, curves, functions, calculus  # noqa: E402

assert os.path.realpath(heavy.__file__).startswith(os.path.realpath(SRC)), heavy.__file__

from .symx.sym import Sym  # noqa: E402

_real_find_roots = heavy.find_roots
STUB_CALLS = {"find_roots": 0}


def _find_roots_stub(knotvector, ctrlvalues):
    """A5: heavy.find_roots is float sampling/bisection code; on symbolic weights it is replaced by
    its contract 'returns the zeros of the weight function', which is () under the precondition
    'weights positive'.  Concrete weights go to the real function."""
    if any(isinstance(v, Sym) for v in ctrlvalues) or any(isinstance(v, Sym) for v in knotvector):
        STUB_CALLS["find_roots"] += 1
        return tuple()
    return _real_find_roots(knotvector, ctrlvalues)


heavy.find_roots = _find_roots_stub


def source(module):
    with open(os.path.join(PKG, module + ".py")) as f:
        return f.read()
