def _p(): pass
