"""Witness predicates of the known findings (known_findings.json refers to them by name).
A predicate receives the failed obligation record; it must identify the *specific* call site / input class,
so that a different violation of the same property is still reported."""
import re


def rational_fit_path(o):
    """D9: the obligation was generated on a run that went through Curve.fit_curve's rational branch
    (weights not all absent): the task tags it rational, or its shape tag carries ',rat'."""
    if o.get("tags", {}).get("rational") is True:
        return True
    if re.search(r",rat[,\]|]", o["id"]):
        return True
    w = o.get("witness") or {}
    return bool(w.get("rational"))


def closed_rule_on_discontinuous(o):
    """D12: only the closed Newton-Cotes rule, and only on a curve that has an interior knot of multiplicity degree+1."""
    t = o.get("tags", {})
    return t.get("method") == "closed-newton-cotes" and t.get("discontinuous") is True


def knots_closer_than_tolerance(o):
    """D3: the witness vector has two distinct values closer than 1e-6 (outside assumption A3)."""
    from fractions import Fraction
    w = o.get("witness") or {}
    v = sorted(set(Fraction(x) for x in w.get("vector", [])))
    return any(0 < b - a < Fraction(1, 10 ** 6) for a, b in zip(v[:-1], v[1:]))
