#!/bin/bash
# Build /verif/.venv offline (python 3.12 from /venv + wheels from /opt/veriftools/wheels).
set -e
cd "$(dirname "$0")"
if [ -x .venv/bin/python ] && .venv/bin/python -c "import z3, sympy, cvc5, jsonschema, numpy" 2>/dev/null; then
  exit 0
fi
rm -rf .venv
/venv/bin/python -m venv .venv
PIP_NO_INDEX=1 .venv/bin/pip install -q --no-index --find-links /opt/veriftools/wheels z3-solver cvc5 sympy jsonschema >/dev/null
SP=$(.venv/bin/python -c "import sysconfig; print(sysconfig.get_paths()['purelib'])")
echo "import site; site.addsitedir('/venv/lib/python3.12/site-packages')" > "$SP/zz_repo_venv.pth"
.venv/bin/python -c "import z3, sympy, cvc5, jsonschema, numpy"
